package main

// Self-test mutations for the rules written from the third seeding round's baseline observations: each reverts one of
// the repairs of that round (or breaks the repaired construct in another way) and must make the named rule fire.

func init() {
	add := func(prop string, ms ...Mutation) { mutations[prop] = append(mutations[prop], ms...) }
	add("C01",
		Mutation{Name: "with-limit-not-written", File: "cypher/models/pgsql/translate/query.go",
			Old: "\t\tif part.Limit != nil {\n\t\t\tnextCTE.Query.Limit = part.Limit\n\t\t}\n", New: "", Expect: "C01-R9-part-state-consumed|buildMultiPartQuery:QueryPart.Limit"},
		Mutation{Name: "with-order-not-written", File: "cypher/models/pgsql/translate/query.go",
			Old: "\t\tif len(part.SortItems) > 0 {\n\t\t\tnextCTE.Query.OrderBy = part.SortItems\n\t\t}\n", New: "", Expect: "C01-R9-part-state-consumed|buildMultiPartQuery:QueryPart.SortItems"},
		Mutation{Name: "sum-drops-distinct", File: "cypher/models/pgsql/translate/function.go",
			Old: "\t\t\t\tFunction:   pgsql.FunctionSum,\n\t\t\t\tParameters: []pgsql.Expression{typeCastNumericArg},\n\t\t\t\tCastType:   pgsql.Numeric,\n\t\t\t\tDistinct:   typedExpression.Distinct,\n",
			New: "\t\t\t\tFunction:   pgsql.FunctionSum,\n\t\t\t\tParameters: []pgsql.Expression{typeCastNumericArg},\n\t\t\t\tCastType:   pgsql.Numeric,\n", Expect: "C01-R10-aggregate-distinct|function:cypher.SumFunction"},
		Mutation{Name: "regex-operand-like-escaped", File: "cypher/models/pgsql/translate/expression.go",
			Old: "\t\t\t\tif expression.Operator != pgsql.OperatorRegexMatch {\n\t\t\t\t\tif rewrittenROperand, err := rewriteStringWildCardLiteral(expression.ROperand); err != nil {\n\t\t\t\t\t\treturn err\n\t\t\t\t\t} else {\n\t\t\t\t\t\texpression.ROperand = rewrittenROperand\n\t\t\t\t\t}\n\t\t\t\t}\n",
			New: "\t\t\t\tif rewrittenROperand, err := rewriteStringWildCardLiteral(expression.ROperand); err != nil {\n\t\t\t\t\treturn err\n\t\t\t\t} else {\n\t\t\t\t\texpression.ROperand = rewrittenROperand\n\t\t\t\t}\n", Expect: "C01-R8-like-escape|rewritePropertyLookupOperands:like-escape-call"},
	)
	add("C05",
		Mutation{Name: "relationship-first-unguarded", File: "cypher/models/pgsql/translate/relationship.go",
			Old: "\tnumSteps := len(part.TraversalSteps)\n\n\tif numSteps == 0 {\n\t\treturn nil, fmt.Errorf(\"relationship pattern encountered before any left node in pattern\")\n\t}\n", New: "\tnumSteps := len(part.TraversalSteps)\n", Expect: "C05-R6-counted-last-element"},
		Mutation{Name: "jsonb-encoder-writes-callers-map", File: "cypher/models/pgsql/type.go",
			Old: "\t\t\tif emptySlice, isNilSlice := emptySliceFor(value); isNilSlice {\n\t\t\t\tencoded[key] = emptySlice\n", New: "\t\t\tif emptySlice, isNilSlice := emptySliceFor(value); isNilSlice {\n\t\t\t\tvalues[key] = emptySlice\n\t\t\t\tencoded[key] = emptySlice\n", Expect: "C05-R3-inputs-unchanged|cypher/models/pgsql.MapStringAnyToJSONB:value-container"},
	)
	add("C06",
		Mutation{Name: "return-alias-names-cte-column", File: "cypher/models/pgsql/translate/aggregate_traversal_count.go",
			Old: "\t\t\tExpression: pgsql.CompoundIdentifier{aggregateRankedCTE, pgsql.Identifier(shape.CountAlias)},\n\t\t\tAlias:      pgsql.AsOptionalIdentifier(pgsql.Identifier(shape.ReturnCountAlias)),",
			New: "\t\t\tExpression: pgsql.CompoundIdentifier{aggregateRankedCTE, pgsql.Identifier(shape.ReturnCountAlias)},\n\t\t\tAlias:      pgsql.AsOptionalIdentifier(pgsql.Identifier(shape.ReturnCountAlias)),", Expect: "C06-R8-alias-internal-use|ReturnCountAlias→element of CompoundIdentifier"},
	)
	add("C07",
		Mutation{Name: "keyword-table-loses-yield", File: "cypher/models/cypher/property_key.go",
			Old: "\t\"start\": {}, \"using\": {}, \"yield\": {},\n", New: "\t\"start\": {}, \"using\": {},\n", Expect: "C07-R6-bare-key-keywords|CanEmitBarePropertyKeyName"},
		Mutation{Name: "map-literal-keeps-last-value", File: "cypher/frontend/literal.go",
			Old: "\tif _, isRepeated := s.Map[s.nextPropertyKey]; isRepeated {\n\t\ts.ctx.AddErrors(fmt.Errorf(\"map literal repeats the key %q\", s.nextPropertyKey))\n\t}\n\n", New: "", Expect: "C07-R7-keyed-store|MapLiteralVisitor.ExitOC_Expression:s.Map"},
	)
	add("C10",
		Mutation{Name: "arithmetic-right-operand-bare", File: "cypher/models/cypher/format/format.go",
			Old: "\t\treturn s.writeOperand(output, operatorPrecedence(typedExpression.Operator)+1, typedExpression.Right)", New: "\t\treturn s.WriteExpression(output, typedExpression.Right)", Expect: "C10-R1-precedence|PartialArithmeticExpression.Right"},
		Mutation{Name: "arithmetic-right-operand-same-level", File: "cypher/models/cypher/format/format.go",
			Old: "\t\treturn s.writeOperand(output, operatorPrecedence(typedExpression.Operator)+1, typedExpression.Right)", New: "\t\treturn s.writeOperand(output, operatorPrecedence(typedExpression.Operator), typedExpression.Right)", Expect: "C10-R1-precedence|PartialArithmeticExpression.Right"},
		Mutation{Name: "comparison-chain-unparenthesised", File: "cypher/models/cypher/format/format.go",
			Old: "\tdefault:\n\t\treturn precedenceAddOrSubtract\n\t}\n}", New: "\tdefault:\n\t\treturn precedenceComparison\n\t}\n}", Expect: "C10-R1-precedence|PartialComparison>Comparison"},
		Mutation{Name: "arithmetic-classed-as-atom", File: "cypher/models/cypher/format/format.go",
			Old: "\tcase *cypher.UnaryAddOrSubtractExpression:\n\t\treturn precedenceUnaryAddOrSubtract\n", New: "", Expect: "C10-R1-precedence|operand-precedence:UnaryAddOrSubtractExpression"},
		Mutation{Name: "empty-props-skip-parameter-map", File: "drivers/neo4j/query_rewrite.go",
			Old: "\t\tif len(s.parameters) > 1 {\n\t\t\ts.ensureRewrittenParameters()\n\t\t}\n", New: "", Expect: "C10-R9-rewritten-implies-parameters"},
		Mutation{Name: "every-kind-test-hoisted", File: "query/neo4j/rewrite.go",
			Old: "firstRelationshipPattern := lastMatch.FirstRelationshipPattern(); len(firstRelationshipPattern.Kinds) == 0 {", New: "firstRelationshipPattern := lastMatch.FirstRelationshipPattern(); firstRelationshipPattern != nil {", Expect: "C10-R6-hoist-under-and-only|query/neo4j.ExpressionListRewriter.Exit:kind-matcher-hoist-once"},
	)
	add("C11",
		Mutation{Name: "sort-item-copy-without-nil-guard", File: "cypher/models/cypher/model.go",
			Old: "func (s *SortItem) copy() *SortItem {\n\tif s == nil {\n\t\treturn nil\n\t}\n\n", New: "func (s *SortItem) copy() *SortItem {\n", Expect: "C11-copy-nil-guard|SortItem"},
	)
	add("C12",
		Mutation{Name: "kinds-remove-in-place", File: "graph/kind.go",
			Old: "\t\t\tremaining := make(Kinds, 0, len(s)-1)\n\t\t\tremaining = append(remaining, s[:idx]...)\n\n\t\t\treturn append(remaining, s[idx+1:]...)", New: "\t\t\treturn append(s[:idx], s[idx+1:]...)", Expect: "C12-R7-kinds-no-in-place-edit|Kinds.Remove"},
		Mutation{Name: "kinds-remove-by-identity", File: "graph/kind.go",
			Old: "\t\tif kind == nodeKind || (kind != nil && nodeKind != nil && nodeKind.Is(kind)) {", New: "\t\tif kind == nodeKind {", Expect: "C12-R8-kinds-equality|Kinds.Remove"},
		Mutation{Name: "relationship-merge-unguarded", File: "graph/relationships.go",
			Old: "\tif other.Properties != nil {\n\t\t// Entities may be created without properties\n\t\tif s.Properties == nil {\n\t\t\ts.Properties = NewProperties()\n\t\t}\n\n\t\ts.Properties.Merge(other.Properties)\n\t}\n", New: "\ts.Properties.Merge(other.Properties)\n", Expect: "C12-R9-entity-nil-properties|Relationship.Merge→Properties.Merge"},
	)
	add("C13",
		Mutation{Name: "operand-read-under-lock", File: "cardinality/lock.go",
			Old: "func (s threadSafeDuplex[T]) Xor(other Provider[T]) {\n\toperand := operandOf(other)\n\n\ts.lock.Lock()\n\tdefer s.lock.Unlock()\n\n\ts.provider.Xor(operand)", New: "func (s threadSafeDuplex[T]) Xor(other Provider[T]) {\n\ts.lock.Lock()\n\tdefer s.lock.Unlock()\n\n\ts.provider.Xor(other)", Expect: "C13-R6-operand-under-lock|threadSafeDuplex.Xor:other"},
		Mutation{Name: "operand-helper-without-lock", File: "cardinality/lock.go",
			Old: "\t\twrapped.lock.Lock()\n\t\tdefer wrapped.lock.Unlock()\n\n\t\treturn wrapped.provider.Clone()", New: "\t\treturn wrapped.provider.Clone()", Expect: "C13-R3-wrapper|threadSafeDuplex.provider@operandOf"},
	)
	add("C14",
		Mutation{Name: "to-segment-off-by-one", File: "container/segment.go",
			Old: "\t\t\t\tEdge:     s.Edges[nodeIndex],", New: "\t\t\t\tEdge:     s.Edges[nodeIndex-1],", Expect: "C14-R7-loop-index-offset"},
		Mutation{Name: "tree-file-read-raw", File: "container/bfs.go",
			Old: "\t\t\treader := bufio.NewReader(gzipReader)", New: "\t\t\treader := bufio.NewReader(fin)", Expect: "C14-R8-decoder-wraps-source|BFSTreeFile.ReadEach:gzipReader"},
		Mutation{Name: "edge-count-is-node-count", File: "container/adjacencymap.go",
			Old: "\tnumEdges := uint64(0)\n\n\t// Each directed edge appears once in the outbound adjacency of its start node\n\tfor _, adjacent := range s.outbound {\n\t\tnumEdges += adjacent.Cardinality()\n\t}\n\n\treturn numEdges", New: "\treturn s.nodes.Cardinality()", Expect: "C14-R9-count-accessors|adjacencyMapDigraph"},
	)
	add("C17",
		Mutation{Name: "worker-error-filter-skips-cancel", File: "traversal/traversal.go",
			Old: "\t\t\t\tif traversalCtx.Err() == nil || (!errors.Is(err, graph.ErrContextTimedOut) && !errors.Is(err, context.Canceled)) {", New: "\t\t\t\tif !errors.Is(err, graph.ErrContextTimedOut) && !errors.Is(err, context.Canceled) {", Expect: "C17-R2-join-cancel|BreadthFirst:go#1:error-path"},
	)
	add("C18",
		Mutation{Name: "fragment-numbers-as-floats", File: "retriever/compression.go",
			Old: "\t\tdecoder.UseNumber()\n", New: "", Expect: "C18-R8-number-preserving-decode|readCompressedJSONLinesFromReader:decoder"},
		Mutation{Name: "fragment-numbers-not-converted", File: "retriever/load.go",
			Old: "node:     graph.NewNode(0, graph.AsProperties(fragmentProperties(item.Properties)),", New: "node:     graph.NewNode(0, graph.AsProperties(item.Properties),", Expect: "C18-R8-number-preserving-decode|loadGraphNodes:AsProperties"},
		Mutation{Name: "writer-ignores-line-limit", File: "retriever/compression.go",
			Old: "\tif lineBytes := s.uncompressedCounter.count - written - 1; lineBytes > maxJSONLLineBytes {\n\t\treturn fmt.Errorf(\"encode JSONL record %d: line exceeds %d bytes\", s.count+1, maxJSONLLineBytes)\n\t}\n", New: "\t_ = written\n", Expect: "C18-R1-line-limit"},
	)
	add("C20",
		Mutation{Name: "manifest-accepts-repeated-path", File: "retriever/types.go",
			Old: "\t\t\tif _, seen := seenPaths[cleanPath]; seen {\n\t\t\t\treturn fmt.Errorf(\"manifest lists file %q more than once\", fileEntry.Path)\n\t\t\t}\n\n", New: "", Expect: "C20-R7-manifest-unique-entries|Manifest.validate:FileManifest.Path"},
	)
}
