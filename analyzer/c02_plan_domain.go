package main

// C02-R7 plan-bound-domain: the optimiser hands hop bounds of a variable-length pattern to a lowering through integer
// fields of a plan struct (AggregateTraversalCountShape.MinDepth). The translator that consumes such a field tells
// values apart only by the comparisons it makes: with `if shape.MinDepth > 1 { …filter… }` as its only test, every
// value up to 1 produces the statement for 1. `*0..` and `*1..` are different queries, so the producer must refuse what
// the consumer cannot tell apart: where the field is filled, its value must be known to be at least the consumer's
// lowest threshold — by a refusal on the way (`if min < 1 { return …, false }`), in the function that fills it or in
// the functions whose result it takes, followed through their (value…, ok) results.
//
// What is decided is the agreement of the two sides' domains. Not decided: that the statement built for an accepted
// bound is the right one.

import (
	"go/ast"
	"go/constant"
	"go/token"
	"go/types"
	"sort"
	"strings"

	"golang.org/x/tools/go/packages"
)

type cellRef struct {
	base  types.Object
	field *types.Var
}

func (c cellRef) String() string {
	if c.base == nil {
		return "?"
	}
	if c.field != nil {
		return c.base.Name() + "." + c.field.Name()
	}
	return c.base.Name()
}

func cellRefOf(info *types.Info, e ast.Expr) (cellRef, bool) {
	switch x := ast.Unparen(e).(type) {
	case *ast.Ident:
		if o := info.ObjectOf(x); o != nil {
			if _, isVar := o.(*types.Var); isVar {
				return cellRef{base: o}, true
			}
		}
	case *ast.SelectorExpr:
		if id, ok := ast.Unparen(x.X).(*ast.Ident); ok {
			if fv, ok := info.Uses[x.Sel].(*types.Var); ok && fv.IsField() {
				if o := info.ObjectOf(id); o != nil {
					return cellRef{base: o, field: fv}, true
				}
			}
		}
	}
	return cellRef{}, false
}

// predicateBody: for a call of a same-package function or method whose body is a single `return <bool expr>`, that
// expression with the receiver and the parameters replaced by the call's operands.
func predicateBody(p *packages.Package, call *ast.CallExpr) ast.Expr {
	info := p.TypesInfo
	fn := calleeOf(info, call)
	if fn == nil || fn.Pkg() != p.Types {
		return nil
	}
	sig, _ := fn.Type().(*types.Signature)
	if sig == nil || sig.Results().Len() != 1 {
		return nil
	}
	if b, ok := sig.Results().At(0).Type().Underlying().(*types.Basic); !ok || b.Kind() != types.Bool {
		return nil
	}
	fd := FuncDecls(p)[declKeyOf(fn)]
	if fd == nil || fd.Body == nil || len(fd.Body.List) != 1 {
		return nil
	}
	rs, ok := fd.Body.List[0].(*ast.ReturnStmt)
	if !ok || len(rs.Results) != 1 {
		return nil
	}
	subst := map[types.Object]ast.Expr{}
	if fd.Recv != nil && len(fd.Recv.List) == 1 && len(fd.Recv.List[0].Names) == 1 {
		if sel, ok := ast.Unparen(call.Fun).(*ast.SelectorExpr); ok {
			subst[info.Defs[fd.Recv.List[0].Names[0]]] = sel.X
		}
	}
	i := 0
	if fd.Type.Params != nil {
		for _, pl := range fd.Type.Params.List {
			for _, nm := range pl.Names {
				if i < len(call.Args) {
					subst[info.Defs[nm]] = call.Args[i]
				}
				i++
			}
		}
	}
	return newASTCloner(info, subst).node(rs.Results[0]).(ast.Expr)
}

// boundFacts decides whether the conjunction of lits implies cell >= c. env gives the constant a parameter stands for
// at the call being followed.
type boundFacts struct {
	p   *packages.Package
	env map[types.Object]int64
}

func (b boundFacts) constOf(e ast.Expr) (int64, bool) {
	info := b.p.TypesInfo
	if tv, has := info.Types[e]; has && tv.Value != nil && tv.Value.Kind() == constant.Int {
		return constant.Int64Val(tv.Value)
	}
	if id, ok := ast.Unparen(e).(*ast.Ident); ok {
		if v, has := b.env[info.Uses[id]]; has {
			return v, true
		}
	}
	return 0, false
}

func (b boundFacts) implies(lits []condLit, cell cellRef, c int64) bool {
	info := b.p.TypesInfo
	isV := func(e ast.Expr) bool {
		cr, ok := cellRefOf(info, e)
		return ok && cr == cell
	}
	var holds func(e ast.Expr, neg bool, depth int) bool
	holds = func(e ast.Expr, neg bool, depth int) bool {
		e = ast.Unparen(e)
		switch t := e.(type) {
		case *ast.CallExpr:
			if depth < 3 {
				if body := predicateBody(b.p, t); body != nil {
					return holds(body, neg, depth+1)
				}
			}
		case *ast.UnaryExpr:
			if t.Op == token.NOT {
				return holds(t.X, !neg, depth)
			}
		case *ast.BinaryExpr:
			if t.Op == token.LAND && !neg {
				return holds(t.X, false, depth) || holds(t.Y, false, depth)
			}
			if t.Op == token.LOR && neg {
				return holds(t.X, true, depth) || holds(t.Y, true, depth)
			}
			op, x, y := t.Op, t.X, t.Y
			if !isV(x) && isV(y) {
				x, y = y, x
				switch op {
				case token.LSS:
					op = token.GTR
				case token.LEQ:
					op = token.GEQ
				case token.GTR:
					op = token.LSS
				case token.GEQ:
					op = token.LEQ
				}
			}
			if !isV(x) {
				return false
			}
			k, isConst := b.constOf(y)
			if !isConst {
				return false
			}
			if neg {
				switch op {
				case token.EQL:
					op = token.NEQ
				case token.NEQ:
					op = token.EQL
				case token.LSS:
					op = token.GEQ
				case token.LEQ:
					op = token.GTR
				case token.GTR:
					op = token.LEQ
				case token.GEQ:
					op = token.LSS
				}
			}
			switch op {
			case token.GTR:
				return k >= c-1
			case token.GEQ:
				return k >= c
			case token.EQL:
				return k >= c
			}
		}
		return false
	}
	for _, l := range lits {
		if holds(l.Expr, l.Neg, 0) {
			return true
		}
	}
	return false
}

// resultAtLeast: on every return of fd that does not report failure (a constant false as its last result), result idx
// (or its field) is known to be at least c. why names the return that is not.
func resultAtLeast(r *Run, p *packages.Package, fd *ast.FuncDecl, idx int, field *types.Var, c int64, env map[types.Object]int64, depth int) (bool, string) {
	info := p.TypesInfo
	decls := FuncDecls(p)
	if fd == nil || fd.Body == nil || depth > 3 {
		return false, "a function that could not be followed"
	}
	facts := boundFacts{p: p, env: env}
	okAll, why := true, ""
	seen := 0
	var visit func(n ast.Node) bool
	visit = func(n ast.Node) bool {
		if _, isLit := n.(*ast.FuncLit); isLit {
			return false
		}
		rs, ok := n.(*ast.ReturnStmt)
		if !ok || !okAll {
			return true
		}
		lits := controlConds(fd.Body, rs)
		// `return g(…)`: the results of g are the results of fd
		if len(rs.Results) == 1 && fd.Type.Results != nil && fd.Type.Results.NumFields() > 1 {
			call, isCall := ast.Unparen(rs.Results[0]).(*ast.CallExpr)
			if !isCall {
				okAll, why = false, "a return that could not be followed in "+funcDeclName(fd)
				return true
			}
			fn := calleeOf(info, call)
			var gd *ast.FuncDecl
			if fn != nil && fn.Pkg() == p.Types {
				gd = decls[declKeyOf(fn)]
			}
			if gd == nil {
				okAll, why = false, "a call that could not be followed in "+funcDeclName(fd)
				return true
			}
			seen++
			sub := map[types.Object]int64{}
			i := 0
			if gd.Type.Params != nil {
				for _, pl := range gd.Type.Params.List {
					for _, nm := range pl.Names {
						if i < len(call.Args) {
							if v, isConst := facts.constOf(call.Args[i]); isConst {
								sub[info.Defs[nm]] = v
							}
						}
						i++
					}
				}
			}
			if good, w := resultAtLeast(r, p, gd, idx, field, c, sub, depth+1); !good {
				okAll, why = false, w
			}
			return true
		}
		if idx >= len(rs.Results) {
			if len(rs.Results) == 0 {
				okAll, why = false, "a bare return in "+funcDeclName(fd)
			}
			return true
		}
		last := rs.Results[len(rs.Results)-1]
		if tv, has := info.Types[last]; has && tv.Value != nil && tv.Value.Kind() == constant.Bool {
			if !constant.BoolVal(tv.Value) {
				return true // a refusal
			}
		} else if b, isBasic := info.TypeOf(last).Underlying().(*types.Basic); isBasic && b.Kind() == types.Bool && len(rs.Results) > 1 {
			// the value counts only where the caller sees ok: what ok says holds there
			lits = append(lits, condLit{Expr: last})
		} else if nonNilErrorReturn(info, last) {
			return true
		}
		seen++
		val := rs.Results[idx]
		if v, isConst := facts.constOf(val); isConst && field == nil {
			if v < c {
				okAll, why = false, "the constant "+types.ExprString(val)+" returned by "+funcDeclName(fd)
			}
			return true
		}
		cell, isCell := cellRefOf(info, val)
		if isCell && field != nil && cell.field == nil {
			cell.field = field
		} else if field != nil {
			isCell = false
		}
		if !isCell {
			okAll, why = false, types.ExprString(val)+" returned by "+funcDeclName(fd)
			return true
		}
		if facts.implies(lits, cell, c) {
			return true
		}
		// a local taken from another function's results
		if good, w := cellFromCallAtLeast(r, p, fd, cell, rs, c, env, depth); good {
			return true
		} else if w != "" {
			okAll, why = false, w
			return true
		}
		okAll, why = false, cell.String()+" returned by "+funcDeclName(fd)+" at "+r.Pos(rs.Pos())
		return true
	}
	ast.Inspect(fd.Body, visit)
	if seen == 0 && okAll {
		return false, funcDeclName(fd) + " has no successful return that could be read"
	}
	return okAll, why
}

// nonNilErrorReturn: the last result of a return is an error value other than nil.
func nonNilErrorReturn(info *types.Info, e ast.Expr) bool {
	t := info.TypeOf(e)
	if t == nil || !types.Identical(t, types.Universe.Lookup("error").Type()) {
		return false
	}
	return !isNilIdent(info, ast.Unparen(e))
}

// cellFromCallAtLeast: cell is a local (or a field of one) defined in fd by `a, b, ok := g(…)`; at use the ok of that
// call is known to hold and g's result is at least c.
func cellFromCallAtLeast(r *Run, p *packages.Package, fd *ast.FuncDecl, cell cellRef, use ast.Node, c int64, env map[types.Object]int64, depth int) (bool, string) {
	info := p.TypesInfo
	decls := FuncDecls(p)
	var def *ast.AssignStmt
	defIdx := -1
	writes := 0
	ast.Inspect(fd.Body, func(n ast.Node) bool {
		as, ok := n.(*ast.AssignStmt)
		if !ok {
			return true
		}
		for i, l := range as.Lhs {
			if id, ok := ast.Unparen(l).(*ast.Ident); ok && info.ObjectOf(id) == cell.base {
				writes++
				if len(as.Rhs) == 1 && len(as.Lhs) > 1 {
					def, defIdx = as, i
				}
			}
		}
		return true
	})
	if def == nil || writes != 1 {
		return false, ""
	}
	call, ok := ast.Unparen(def.Rhs[0]).(*ast.CallExpr)
	if !ok {
		return false, ""
	}
	fn := calleeOf(info, call)
	if fn == nil || fn.Pkg() != p.Types {
		return false, ""
	}
	gd := decls[declKeyOf(fn)]
	if gd == nil {
		return false, ""
	}
	// the ok of the call must be known at the use
	okID, _ := ast.Unparen(def.Lhs[len(def.Lhs)-1]).(*ast.Ident)
	if okID != nil {
		if b, isBasic := info.TypeOf(okID).Underlying().(*types.Basic); isBasic && b.Kind() == types.Bool {
			okObj := info.ObjectOf(okID)
			known := false
			lits := controlConds(fd.Body, use)
			if ifs := enclosingIfWithInit(fd.Body, def); ifs != nil {
				lits = append(lits, controlConds(fd.Body, ifs.Body)...)
			}
			var holds func(e ast.Expr, neg bool) bool
			holds = func(e ast.Expr, neg bool) bool {
				e = ast.Unparen(e)
				switch t := e.(type) {
				case *ast.UnaryExpr:
					if t.Op == token.NOT {
						return holds(t.X, !neg)
					}
				case *ast.BinaryExpr:
					if (t.Op == token.LAND && !neg) || (t.Op == token.LOR && neg) {
						return holds(t.X, neg) || holds(t.Y, neg)
					}
				case *ast.Ident:
					return !neg && info.Uses[t] == okObj
				}
				return false
			}
			for _, l := range lits {
				if holds(l.Expr, l.Neg) {
					known = true
				}
			}
			if !known {
				return false, ""
			}
		}
	}
	sub := map[types.Object]int64{}
	facts := boundFacts{p: p, env: env}
	i := 0
	if gd.Type.Params != nil {
		for _, pl := range gd.Type.Params.List {
			for _, nm := range pl.Names {
				if i < len(call.Args) {
					if v, isConst := facts.constOf(call.Args[i]); isConst {
						sub[info.Defs[nm]] = v
					}
				}
				i++
			}
		}
	}
	return resultAtLeast(r, p, gd, defIdx, cell.field, c, sub, depth+1)
}

// enclosingIfWithInit: the if statement whose init is the given statement.
func enclosingIfWithInit(root ast.Node, init ast.Stmt) *ast.IfStmt {
	var out *ast.IfStmt
	ast.Inspect(root, func(n ast.Node) bool {
		if ifs, ok := n.(*ast.IfStmt); ok && ifs.Init == init {
			out = ifs
		}
		return out == nil
	})
	return out
}

func checkPlanBoundDomain(r *Run, producer *packages.Package, consumers ...*packages.Package) {
	const rule = "C02-R7-plan-bound-domain"
	pinfo := producer.TypesInfo
	// thresholds the consumers apply to integer fields of the producer's structs
	type threshold struct {
		val  int64
		pos  token.Pos
		text string
	}
	thr := map[*types.Var]*threshold{}
	opaque := map[*types.Var]bool{}
	for _, cp := range consumers {
		info := cp.TypesInfo
		for _, f := range cp.Syntax {
			ast.Inspect(f, func(n ast.Node) bool {
				be, ok := n.(*ast.BinaryExpr)
				if !ok {
					return true
				}
				fieldOf := func(e ast.Expr) *types.Var {
					sel, ok := ast.Unparen(e).(*ast.SelectorExpr)
					if !ok {
						return nil
					}
					fv, ok := info.Uses[sel.Sel].(*types.Var)
					if !ok || !fv.IsField() || fv.Pkg() != producer.Types {
						return nil
					}
					if b, isBasic := fv.Type().Underlying().(*types.Basic); !isBasic || b.Info()&types.IsInteger == 0 {
						return nil
					}
					return fv
				}
				op, x, y := be.Op, be.X, be.Y
				fv := fieldOf(x)
				if fv == nil {
					if fv = fieldOf(y); fv == nil {
						return true
					}
					x, y = y, x
					switch op {
					case token.LSS:
						op = token.GTR
					case token.LEQ:
						op = token.GEQ
					case token.GTR:
						op = token.LSS
					case token.GEQ:
						op = token.LEQ
					}
				}
				tv, has := info.Types[y]
				if !has || tv.Value == nil || tv.Value.Kind() != constant.Int {
					return true
				}
				k, _ := constant.Int64Val(tv.Value)
				var t int64
				switch op {
				case token.GTR, token.LEQ: // values up to k are treated alike
					t = k
				case token.GEQ, token.LSS:
					t = k - 1
				default:
					opaque[fv] = true
					return true
				}
				if cur := thr[fv]; cur == nil || t < cur.val {
					thr[fv] = &threshold{val: t, pos: be.Pos(), text: types.ExprString(be)}
				}
				return true
			})
		}
	}
	var fields []*types.Var
	for fv := range thr {
		if !opaque[fv] {
			fields = append(fields, fv)
		}
	}
	sort.Slice(fields, func(i, j int) bool { return fields[i].Name() < fields[j].Name() })
	// is the field filled from a bound of the model? (the producing chain dereferences a numeric pointer field of a
	// cypher model type)
	readsModelBound := func(fd *ast.FuncDecl) bool {
		found := false
		for d := range declsReachableFrom(producer, funcDeclName(fd)) {
			ast.Inspect(d.Body, func(n ast.Node) bool {
				star, ok := n.(*ast.StarExpr)
				if !ok {
					return true
				}
				if sel, ok := ast.Unparen(star.X).(*ast.SelectorExpr); ok {
					if fv, ok := pinfo.Uses[sel.Sel].(*types.Var); ok && fv.IsField() && fv.Pkg() != nil && strings.HasSuffix(fv.Pkg().Path(), "cypher/models/cypher") {
						if pt, ok := fv.Type().Underlying().(*types.Pointer); ok {
							if b, ok := pt.Elem().Underlying().(*types.Basic); ok && b.Info()&types.IsNumeric != 0 {
								found = true
							}
						}
					}
				}
				return !found
			})
		}
		return found
	}
	n := 0
	for _, fv := range fields {
		t := thr[fv]
		for _, f := range producer.Syntax {
			for _, d := range f.Decls {
				fd, ok := d.(*ast.FuncDecl)
				if !ok || fd.Body == nil {
					continue
				}
				ast.Inspect(fd.Body, func(x ast.Node) bool {
					cl, ok := x.(*ast.CompositeLit)
					if !ok {
						return true
					}
					for _, el := range cl.Elts {
						kv, ok := el.(*ast.KeyValueExpr)
						if !ok {
							continue
						}
						kid, ok := kv.Key.(*ast.Ident)
						if !ok || pinfo.Uses[kid] != fv {
							continue
						}
						if !readsModelBound(fd) {
							continue
						}
						n++
						construct := funcDeclName(fd) + ":" + fv.Name()
						facts := boundFacts{p: producer}
						good, why := false, ""
						if v, isConst := facts.constOf(kv.Value); isConst {
							good = v >= t.val
							why = "the constant " + types.ExprString(kv.Value)
						} else if cell, isCell := cellRefOf(pinfo, kv.Value); isCell {
							if facts.implies(controlConds(fd.Body, kv), cell, t.val) {
								good = true
							} else {
								good, why = cellFromCallAtLeast(r, producer, fd, cell, kv, t.val, nil, 0)
								if why == "" {
									why = cell.String() + " in " + funcDeclName(fd)
								}
							}
						} else {
							r.Note("C02-R7: %s fills %s from %s, which is not followed", funcDeclName(fd), fv.Name(), types.ExprString(kv.Value))
							continue
						}
						if good {
							r.Pass(rule, construct, kv.Pos(), "%s is known to be at least %d where the plan is filled; the translator's lowest test on it is %s", fv.Name(), t.val, t.text)
						} else {
							r.Fail(rule, construct, kv.Pos(), "%s fills %s with a hop bound that is not known to be at least %d (%s is accepted as it comes), while the translator's only tests on the field start at `%s` (%s): every smaller bound gets the statement built for %d, so a pattern like `*%d..` is answered as `*%d..` instead of being left to the general translation", funcDeclName(fd), fv.Name(), t.val, why, t.text, r.Pos(t.pos), t.val, t.val-1, t.val)
						}
					}
					return true
				})
			}
		}
	}
	if n == 0 {
		r.Undecide("C02-R7: no plan field that is filled from a pattern range bound and compared with a constant by the translator was found")
	}
}

// checkReorderDependencyCoverage (R8): the clause-reordering rule may move a MATCH in front of another only if it reads
// no symbol the other binds. The symbols a MATCH reads inside its patterns sit in the inline property maps of its node
// patterns and of its relationship patterns. The function that collects them (a function of package optimize from a
// *cypher.Match to a list of names) must read the Properties field of both pattern kinds — in its own body or in the
// same-package functions it calls. A collector that looks at the node maps twice and never at the relationship maps lets
// `MATCH (a) MATCH (x)-[r {since: a.created}]->(y)` be reordered so that `a` is used before it is bound.
func checkReorderDependencyCoverage(r *Run, op *packages.Package) {
	const rule = "C02-R8-reorder-dependency-coverage"
	info := op.TypesInfo
	cy := r.MustPkg("cypher/models/cypher")
	var want []*types.Var
	for _, tname := range []string{"NodePattern", "RelationshipPattern"} {
		tn, _ := cy.Types.Scope().Lookup(tname).(*types.TypeName)
		if tn == nil {
			continue
		}
		if st, ok := tn.Type().Underlying().(*types.Struct); ok {
			for i := 0; i < st.NumFields(); i++ {
				if st.Field(i).Name() == "Properties" {
					want = append(want, st.Field(i))
				}
			}
		}
	}
	if len(want) < 2 {
		r.Undecide("C02-R8: the Properties fields of cypher.NodePattern and cypher.RelationshipPattern were not found")
		return
	}
	isWanted := func(v *types.Var) bool {
		for _, w := range want {
			if w == v {
				return true
			}
		}
		return false
	}
	n := 0
	for _, f := range op.Syntax {
		for _, d := range f.Decls {
			fd, ok := d.(*ast.FuncDecl)
			if !ok || fd.Body == nil || fd.Recv != nil || fd.Type.Params == nil || fd.Type.Results == nil {
				continue
			}
			// (*cypher.Match) → []string
			if len(fd.Type.Params.List) != 1 || len(fd.Type.Results.List) != 1 {
				continue
			}
			if nt := namedOf(info.TypeOf(fd.Type.Params.List[0].Type)); nt == nil || nt.Obj().Name() != "Match" {
				continue
			}
			if sl, ok := info.TypeOf(fd.Type.Results.List[0].Type).Underlying().(*types.Slice); !ok || !types.Identical(sl.Elem(), types.Typ[types.String]) {
				continue
			}
			read := map[*types.Var]bool{}
			for d := range declsReachableFrom(op, funcDeclName(fd)) {
				if d.Body == nil {
					continue
				}
				ast.Inspect(d.Body, func(x ast.Node) bool {
					if sel, ok := x.(*ast.SelectorExpr); ok {
						if fv, ok := info.Uses[sel.Sel].(*types.Var); ok && isWanted(fv) {
							read[fv] = true
						}
					}
					return true
				})
			}
			if len(read) == 0 {
				continue // not a collector of pattern properties
			}
			n++
			construct := funcDeclName(fd)
			var missing []string
			for _, w := range want {
				if !read[w] {
					missing = append(missing, "the inline property maps of "+map[bool]string{true: "relationship", false: "node"}[strings.Contains(types.TypeString(w.Type(), nil), "Expression") && w.Pkg() != nil && ownerOfField(cy, w) == "RelationshipPattern"]+" patterns")
				}
			}
			if len(missing) == 0 {
				r.Pass(rule, construct, fd.Pos(), "reads the property maps of node patterns and of relationship patterns")
			} else {
				r.Fail(rule, construct, fd.Pos(), "%s collects the symbols a MATCH reads but never looks at %s: a symbol used only there is not a dependency, and the reordering rule moves the clause in front of the one that binds the symbol — the optimised query fails (or binds differently) where the plain translation succeeds", construct, strings.Join(missing, " and "))
			}
		}
	}
	if n == 0 {
		r.Undecide("C02-R8: no function of package optimize collects the symbols read by the patterns of a MATCH")
	}
}

func ownerOfField(p *packages.Package, fv *types.Var) string {
	for _, nm := range p.Types.Scope().Names() {
		if tn, ok := p.Types.Scope().Lookup(nm).(*types.TypeName); ok {
			if st, ok := tn.Type().Underlying().(*types.Struct); ok {
				for i := 0; i < st.NumFields(); i++ {
					if st.Field(i) == fv {
						return tn.Name()
					}
				}
			}
		}
	}
	return ""
}

// checkPathOrderUnreversed (R9): when the optimiser reverses a pattern, the path binding keeps its dependencies in the
// reversed order and says so in a flag (a boolean field of the binding whose name ends in "Reversed"). Every function of
// the translator that turns the dependencies of a binding into an ordered list — it ranges over <b>.Dependencies and
// appends to a slice inside the loop — must read that flag of the same binding; otherwise `relationships(p)` lists the
// edges in the opposite order whenever the reversal rule fires, and the two configurations disagree.
func checkPathOrderUnreversed(r *Run, tp *packages.Package) {
	const rule = "C02-R9-path-order-unreversed"
	info := tp.TypesInfo
	n := 0
	for _, f := range tp.Syntax {
		for _, d := range f.Decls {
			fd, ok := d.(*ast.FuncDecl)
			if !ok || fd.Body == nil {
				continue
			}
			ast.Inspect(fd.Body, func(x ast.Node) bool {
				rs, ok := x.(*ast.RangeStmt)
				if !ok {
					return true
				}
				sel, ok := ast.Unparen(rs.X).(*ast.SelectorExpr)
				if !ok || sel.Sel.Name != "Dependencies" {
					return true
				}
				base, ok := ast.Unparen(sel.X).(*ast.Ident)
				if !ok {
					return true
				}
				bobj := info.Uses[base]
				// the binding's type has a …Reversed flag
				var flag *types.Var
				if nt := namedOf(info.TypeOf(base)); nt != nil {
					if st, ok := nt.Underlying().(*types.Struct); ok {
						for i := 0; i < st.NumFields(); i++ {
							fv := st.Field(i)
							if b, isBasic := fv.Type().Underlying().(*types.Basic); isBasic && b.Kind() == types.Bool && strings.HasSuffix(fv.Name(), "Reversed") {
								flag = fv
							}
						}
					}
				}
				if flag == nil {
					return true
				}
				// ordered accumulation inside the loop
				appends := false
				ast.Inspect(rs.Body, func(y ast.Node) bool {
					if c, ok := y.(*ast.CallExpr); ok {
						if id, ok := ast.Unparen(c.Fun).(*ast.Ident); ok && id.Name == "append" {
							appends = true
						}
					}
					return !appends
				})
				if !appends {
					return true
				}
				n++
				construct := funcDeclName(fd) + ":" + base.Name + ".Dependencies"
				reads := false
				ast.Inspect(fd.Body, func(y ast.Node) bool {
					if s2, ok := y.(*ast.SelectorExpr); ok && info.Uses[s2.Sel] == types.Object(flag) {
						if id, ok := ast.Unparen(s2.X).(*ast.Ident); ok && info.Uses[id] == bobj {
							reads = true
						}
					}
					return !reads
				})
				if reads {
					r.Pass(rule, construct, rs.Pos(), "the order of the list built from the dependencies is put right with %s.%s", base.Name, flag.Name())
				} else {
					r.Fail(rule, construct, rs.Pos(), "%s builds an ordered list from %s.Dependencies without looking at %s.%s: when the optimiser has reversed the pattern the dependencies are stored back to front, so the list (the edges of relationships(p)) comes out in the opposite order — the optimised and the plain translation return different values", funcDeclName(fd), base.Name, base.Name, flag.Name())
				}
				return true
			})
		}
	}
	if n == 0 {
		r.Undecide("C02-R9: no function of package translate builds an ordered list from the dependencies of a binding that has a …Reversed flag")
	}
}
