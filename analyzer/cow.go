package main

// Copy-on-write discipline for a container the function was handed. A local that starts as the parameter itself
// (`encoded := values`) and is replaced by a copy before the first write is a common way to avoid copying when nothing
// has to change. Whether a write `local[k] = v` goes to the copy or to the caller's container depends on the path, and
// often on a boolean that records "already copied". The judge below runs the function body over a small abstract state
// — for the local: is it still the parameter or a fresh container; for every boolean local: true, false or unknown — and
// reports a write that is reached in a state where the local is still the parameter. Conditions are decided only when
// they are a boolean local or its negation; everything else (`encoded == nil`, `len(x) > 0`) takes both branches.

import (
	"go/ast"
	"go/constant"
	"go/token"
	"go/types"
	"sort"
	"strings"
)

type cowState struct {
	alias bool            // the local still is the parameter
	flags map[string]int8 // boolean locals: 1 true, 0 false; absent = unknown
}

func (s cowState) key() string {
	var ks []string
	for k, v := range s.flags {
		ks = append(ks, k+"="+string(rune('0'+v)))
	}
	sort.Strings(ks)
	a := "F"
	if s.alias {
		a = "A"
	}
	return a + "|" + strings.Join(ks, ",")
}

func (s cowState) clone() cowState {
	f := make(map[string]int8, len(s.flags))
	for k, v := range s.flags {
		f[k] = v
	}
	return cowState{alias: s.alias, flags: f}
}

type cowSet map[string]cowState

func (a cowSet) add(s cowState) bool {
	k := s.key()
	if _, has := a[k]; has {
		return false
	}
	a[k] = s
	return true
}

func (a cowSet) union(b cowSet) cowSet {
	out := cowSet{}
	for _, s := range a {
		out.add(s)
	}
	for _, s := range b {
		out.add(s)
	}
	return out
}

type cowJudge struct {
	info    *types.Info
	param   types.Object
	local   types.Object
	bad     []token.Pos
	isFresh func(e ast.Expr) bool
}

// cowWrites returns the positions of element writes (and deletes) through local that can happen while local still is
// param. local is a variable of fd initialised from param.
func cowWrites(info *types.Info, fd *ast.FuncDecl, param, local types.Object) []token.Pos {
	j := &cowJudge{info: info, param: param, local: local}
	j.isFresh = func(e ast.Expr) bool {
		// anything that does not mention the parameter or the local as a whole value is a different container
		fresh := true
		e = ast.Unparen(e)
		if id, ok := e.(*ast.Ident); ok {
			if o := info.Uses[id]; o == param || o == local {
				return false
			}
		}
		if call, ok := e.(*ast.CallExpr); ok {
			// f(param) may hand the parameter back unless it is a known copier
			if fn := calleeOf(info, call); fn != nil && fn.Pkg() != nil {
				full := fn.Pkg().Path() + "." + fn.Name()
				if full == "maps.Clone" || full == "slices.Clone" {
					return true
				}
			}
			if id, ok := ast.Unparen(call.Fun).(*ast.Ident); ok && (id.Name == "make" || id.Name == "new") {
				return true
			}
			for _, a := range call.Args {
				if id, ok := ast.Unparen(a).(*ast.Ident); ok {
					if o := info.Uses[id]; o == param || o == local {
						fresh = false
					}
				}
			}
		}
		return fresh
	}
	start := cowSet{}
	start.add(cowState{alias: false, flags: map[string]int8{}})
	j.block(fd.Body.List, start)
	sort.Slice(j.bad, func(a, b int) bool { return j.bad[a] < j.bad[b] })
	return j.bad
}

func (j *cowJudge) boolVar(e ast.Expr) (string, bool) {
	id, ok := ast.Unparen(e).(*ast.Ident)
	if !ok {
		return "", false
	}
	v, ok := j.info.ObjectOf(id).(*types.Var)
	if !ok {
		return "", false
	}
	if b, isBasic := v.Type().Underlying().(*types.Basic); !isBasic || b.Kind() != types.Bool {
		return "", false
	}
	return v.Name() + "@" + itoa(int(v.Pos())), true
}

// cond splits the states by the truth of e: (states where e may hold, states where e may fail)
func (j *cowJudge) cond(e ast.Expr, in cowSet) (cowSet, cowSet) {
	t, f := cowSet{}, cowSet{}
	e = ast.Unparen(e)
	neg := false
	for {
		u, ok := e.(*ast.UnaryExpr)
		if !ok || u.Op != token.NOT {
			break
		}
		neg = !neg
		e = ast.Unparen(u.X)
	}
	if be, ok := e.(*ast.BinaryExpr); ok && (be.Op == token.LAND || be.Op == token.LOR) && !neg {
		if be.Op == token.LAND {
			lt, lf := j.cond(be.X, in)
			rt, rf := j.cond(be.Y, lt)
			return rt, lf.union(rf)
		}
		lt, lf := j.cond(be.X, in)
		rt, rf := j.cond(be.Y, lf)
		return lt.union(rt), rf
	}
	name, isFlag := j.boolVar(e)
	for _, s := range in {
		if isFlag {
			if v, known := s.flags[name]; known {
				holds := (v == 1) != neg
				if holds {
					t.add(s)
				} else {
					f.add(s)
				}
				continue
			}
			// unknown: learn the value on each side
			st, sf := s.clone(), s.clone()
			if neg {
				st.flags[name], sf.flags[name] = 0, 1
			} else {
				st.flags[name], sf.flags[name] = 1, 0
			}
			t.add(st)
			f.add(sf)
			continue
		}
		t.add(s)
		f.add(s)
	}
	return t, f
}

func (j *cowJudge) assign(lhs []ast.Expr, rhs []ast.Expr, in cowSet) cowSet {
	out := cowSet{}
	for _, s := range in {
		ns := s.clone()
		for i, l := range lhs {
			l = ast.Unparen(l)
			if ix, ok := l.(*ast.IndexExpr); ok {
				if id, ok := ast.Unparen(ix.X).(*ast.Ident); ok && j.info.ObjectOf(id) == j.local && s.alias {
					j.bad = append(j.bad, l.Pos())
				}
				continue
			}
			id, ok := l.(*ast.Ident)
			if !ok {
				continue
			}
			obj := j.info.ObjectOf(id)
			var r ast.Expr
			if len(rhs) == len(lhs) {
				r = rhs[i]
			}
			if obj == j.local {
				switch {
				case r == nil:
					ns.alias = false // a result of a call: another container
				case j.isFresh(r):
					ns.alias = false
				default:
					ns.alias = true
				}
				continue
			}
			if name, isFlag := j.boolVar(id); isFlag {
				delete(ns.flags, name)
				if r != nil {
					if tv, has := j.info.Types[r]; has && tv.Value != nil && tv.Value.Kind() == constant.Bool {
						if constant.BoolVal(tv.Value) {
							ns.flags[name] = 1
						} else {
							ns.flags[name] = 0
						}
					}
				}
			}
		}
		out.add(ns)
	}
	return out
}

// block runs the statements; the result is the set of states that fall out of the end. Paths that leave by return end
// there; break and continue are treated as falling to the end of the enclosing loop body (a superset of the real flow).
func (j *cowJudge) block(list []ast.Stmt, in cowSet) cowSet {
	cur := in
	for _, st := range list {
		cur = j.stmt(st, cur)
		if len(cur) == 0 {
			break
		}
	}
	return cur
}

func (j *cowJudge) stmt(st ast.Stmt, in cowSet) cowSet {
	switch s := st.(type) {
	case *ast.BlockStmt:
		return j.block(s.List, in)
	case *ast.AssignStmt:
		return j.assign(s.Lhs, s.Rhs, in)
	case *ast.DeclStmt:
		gd, ok := s.Decl.(*ast.GenDecl)
		if !ok {
			return in
		}
		cur := in
		for _, sp := range gd.Specs {
			if vs, ok := sp.(*ast.ValueSpec); ok {
				var lhs []ast.Expr
				for _, nm := range vs.Names {
					lhs = append(lhs, nm)
				}
				if len(vs.Values) == 0 {
					// zero values: bool locals are false
					next := cowSet{}
					for _, state := range cur {
						ns := state.clone()
						for _, nm := range vs.Names {
							if name, isFlag := j.boolVar(nm); isFlag {
								ns.flags[name] = 0
							}
							if j.info.ObjectOf(nm) == j.local {
								ns.alias = false
							}
						}
						next.add(ns)
					}
					cur = next
					continue
				}
				cur = j.assign(lhs, vs.Values, cur)
			}
		}
		return cur
	case *ast.ExprStmt:
		if call, ok := s.X.(*ast.CallExpr); ok {
			if id, ok := ast.Unparen(call.Fun).(*ast.Ident); ok && id.Name == "delete" && len(call.Args) == 2 {
				if a, ok := ast.Unparen(call.Args[0]).(*ast.Ident); ok && j.info.ObjectOf(a) == j.local {
					for _, state := range in {
						if state.alias {
							j.bad = append(j.bad, call.Pos())
							break
						}
					}
				}
			}
		}
		return in
	case *ast.ReturnStmt:
		return cowSet{}
	case *ast.BranchStmt:
		return in
	case *ast.IfStmt:
		cur := in
		if s.Init != nil {
			cur = j.stmt(s.Init, cur)
		}
		t, f := j.cond(s.Cond, cur)
		out := j.block(s.Body.List, t)
		if s.Else != nil {
			out = out.union(j.stmt(s.Else, f))
		} else {
			out = out.union(f)
		}
		return out
	case *ast.ForStmt, *ast.RangeStmt:
		var body *ast.BlockStmt
		cur := in
		switch l := s.(type) {
		case *ast.ForStmt:
			body = l.Body
			if l.Init != nil {
				cur = j.stmt(l.Init, cur)
			}
		case *ast.RangeStmt:
			body = l.Body
		}
		// fixpoint over the loop head
		head := cowSet{}.union(cur)
		for round := 0; round < 16; round++ {
			out := j.block(body.List, head)
			grew := false
			for _, state := range out {
				if head.add(state) {
					grew = true
				}
			}
			if !grew {
				break
			}
		}
		return head
	case *ast.SwitchStmt:
		cur := in
		if s.Init != nil {
			cur = j.stmt(s.Init, cur)
		}
		out := cowSet{}
		hasDefault := false
		for _, c := range s.Body.List {
			cc := c.(*ast.CaseClause)
			if cc.List == nil {
				hasDefault = true
			}
			out = out.union(j.block(cc.Body, cur))
		}
		if !hasDefault {
			out = out.union(cur)
		}
		return out
	case *ast.TypeSwitchStmt:
		out := cowSet{}.union(in)
		for _, c := range s.Body.List {
			out = out.union(j.block(c.(*ast.CaseClause).Body, in))
		}
		return out
	case *ast.LabeledStmt:
		return j.stmt(s.Stmt, in)
	}
	return in
}
