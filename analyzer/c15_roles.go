package main

// The functions of algo/reach.go that the C15 rules speak about, found by what they do rather than by their (private)
// names: the cache writer and reader are the functions that call Put / Get on a value of a type from package cache; the
// cursor type is the struct the cache writer is handed; cursor constructors return a pointer to it (the child
// constructor takes an ancestor cursor, the root constructor does not); the search is the function that both writes the
// cache and constructs cursors.

import (
	"go/ast"
	"go/types"
	"strings"

	"golang.org/x/tools/go/packages"
)

type reachRoles struct {
	writers, readers     map[*types.Func]*ast.FuncDecl
	cursor               *types.Named
	rootCtors, childCtor map[*types.Func]bool
	search               *ast.FuncDecl
	byObj                map[*types.Func]*ast.FuncDecl
}

func (rr *reachRoles) isWriter(fn *types.Func) bool {
	return fn != nil && rr.writers[fn.Origin()] != nil
}
func (rr *reachRoles) isReader(fn *types.Func) bool {
	return fn != nil && rr.readers[fn.Origin()] != nil
}
func (rr *reachRoles) isChildCtor(fn *types.Func) bool { return fn != nil && rr.childCtor[fn.Origin()] }
func (rr *reachRoles) isRootCtor(fn *types.Func) bool  { return fn != nil && rr.rootCtors[fn.Origin()] }
func (rr *reachRoles) isVocabulary(fn *types.Func) bool {
	return rr.isWriter(fn) || rr.isReader(fn) || rr.isChildCtor(fn) || rr.isRootCtor(fn)
}

// isCursor reports whether t is the cursor type or a pointer to it.
func (rr *reachRoles) isCursor(t types.Type) bool {
	if rr.cursor == nil || t == nil {
		return false
	}
	if p, ok := t.(*types.Pointer); ok {
		t = p.Elem()
	}
	n, ok := t.(*types.Named)
	return ok && n.Origin() == rr.cursor
}

func findReachRoles(p *packages.Package) *reachRoles {
	info := p.TypesInfo
	rr := &reachRoles{writers: map[*types.Func]*ast.FuncDecl{}, readers: map[*types.Func]*ast.FuncDecl{}, rootCtors: map[*types.Func]bool{}, childCtor: map[*types.Func]bool{}, byObj: map[*types.Func]*ast.FuncDecl{}}
	for _, f := range p.Syntax {
		for _, d := range f.Decls {
			if fd, ok := d.(*ast.FuncDecl); ok && fd.Body != nil {
				if fn, ok := info.Defs[fd.Name].(*types.Func); ok {
					rr.byObj[fn] = fd
				}
			}
		}
	}
	onCache := func(call *ast.CallExpr, method string) bool {
		sel, ok := ast.Unparen(call.Fun).(*ast.SelectorExpr)
		if !ok || sel.Sel.Name != method {
			return false
		}
		n := namedOf(info.TypeOf(sel.X))
		return n != nil && n.Obj().Pkg() != nil && strings.HasSuffix(n.Obj().Pkg().Path(), "/cache")
	}
	for fn, fd := range rr.byObj {
		puts, gets := false, false
		ast.Inspect(fd.Body, func(n ast.Node) bool {
			if call, ok := n.(*ast.CallExpr); ok {
				if onCache(call, "Put") {
					puts = true
				}
				if onCache(call, "Get") {
					gets = true
				}
			}
			return true
		})
		if puts {
			rr.writers[fn] = fd
		}
		if gets && !puts {
			rr.readers[fn] = fd
		}
	}
	// the cursor type: the struct a cache writer is handed
	for fn := range rr.writers {
		sig := fn.Type().(*types.Signature)
		for i := 0; i < sig.Params().Len(); i++ {
			if pt, ok := sig.Params().At(i).Type().(*types.Pointer); ok {
				if n, ok := pt.Elem().(*types.Named); ok && n.Obj().Pkg() == p.Types {
					if _, isStruct := n.Underlying().(*types.Struct); isStruct {
						rr.cursor = n.Origin()
					}
				}
			}
		}
	}
	if rr.cursor != nil {
		for fn := range rr.byObj {
			sig := fn.Type().(*types.Signature)
			if sig.Recv() != nil && rr.isCursor(sig.Recv().Type()) {
				continue // methods of the cursor are not constructors
			}
			if sig.Results().Len() != 1 || !rr.isCursor(sig.Results().At(0).Type()) {
				continue
			}
			takesCursor := false
			for i := 0; i < sig.Params().Len(); i++ {
				if rr.isCursor(sig.Params().At(i).Type()) {
					takesCursor = true
				}
			}
			if takesCursor {
				rr.childCtor[fn] = true
			} else {
				rr.rootCtors[fn] = true
			}
		}
	}
	// the search: writes the cache and constructs cursors
	for _, fd := range rr.byObj {
		w, c := false, false
		ast.Inspect(fd.Body, func(n ast.Node) bool {
			if call, ok := n.(*ast.CallExpr); ok {
				fn := calleeOf(info, call)
				if rr.isWriter(fn) {
					w = true
				}
				if rr.isChildCtor(fn) {
					c = true
				}
			}
			return true
		})
		if w && c {
			rr.search = fd
		}
	}
	return rr
}
