package main

// Rules written from the fifth round's seeded changes. Each is a small, exact pattern whose every instance is wrong (or
// at least says something other than what its author meant), scoped to the packages a property is about.

import (
	"go/ast"
	"go/token"
	"go/types"
	"strings"

	"golang.org/x/tools/go/packages"
)

// checkSequentialSwap: `a = b; b = a` does not swap: the second statement assigns a its own value back. Where two
// columns, endpoints or directions are meant to trade places (the inbound form of a traversal), both ends then name the
// same thing.
func checkSequentialSwap(r *Run, rule, consequence string, pkgs ...*packages.Package) {
	n := 0
	for _, p := range pkgs {
		for _, f := range p.Syntax {
			for _, d := range f.Decls {
				fd, ok := d.(*ast.FuncDecl)
				if !ok || fd.Body == nil {
					continue
				}
				nth := 0
				ast.Inspect(fd.Body, func(x ast.Node) bool {
					var list []ast.Stmt
					switch b := x.(type) {
					case *ast.BlockStmt:
						list = b.List
					case *ast.CaseClause:
						list = b.Body
					default:
						return true
					}
					for i := 0; i+1 < len(list); i++ {
						a1, ok1 := list[i].(*ast.AssignStmt)
						a2, ok2 := list[i+1].(*ast.AssignStmt)
						if !ok1 || !ok2 || a1.Tok != token.ASSIGN || a2.Tok != token.ASSIGN || len(a1.Lhs) != 1 || len(a1.Rhs) != 1 || len(a2.Lhs) != 1 || len(a2.Rhs) != 1 {
							continue
						}
						l1, r1 := exprString(r.Fset, a1.Lhs[0]), exprString(r.Fset, a1.Rhs[0])
						l2, r2 := exprString(r.Fset, a2.Lhs[0]), exprString(r.Fset, a2.Rhs[0])
						if l1 == r2 && r1 == l2 && l1 != r1 {
							n++
							nth++
							r.Fail(rule, funcDeclName(fd)+":swap#"+itoa(nth), a1.Pos(), "`%s = %s` followed by `%s = %s` is not a swap: after the first statement both hold the same value, and the second assigns it back — %s", l1, r1, l2, r2, consequence)
						}
					}
					return true
				})
			}
		}
	}
	r.Ob(rule, "scanned", token.NoPos, true, "%d sequential pseudo-swaps found", n)
}

// checkCopyWrittenBack: a struct value taken out of an interface or a field (`sel, ok := q.Body.(pgsql.Select)`,
// `part := *current`) is a copy. Writing its fields changes the copy; unless the copy is put back, returned or handed on
// afterwards, the write is lost. (The root step of a traversal that was to receive the pending UNWIND sources keeps its
// old FROM list, while the sources are consumed and rendered nowhere.)
func checkCopyWrittenBack(r *Run, rule, consequence string, pkgs ...*packages.Package) {
	n := 0
	for _, p := range pkgs {
		info := p.TypesInfo
		for _, f := range p.Syntax {
			for _, d := range f.Decls {
				fd, ok := d.(*ast.FuncDecl)
				if !ok || fd.Body == nil {
					continue
				}
				// struct-valued locals defined from a type assertion, a dereference or a field/index read
				copies := map[types.Object]token.Pos{}
				ast.Inspect(fd.Body, func(x ast.Node) bool {
					as, ok := x.(*ast.AssignStmt)
					if !ok || as.Tok != token.DEFINE {
						return true
					}
					for i, l := range as.Lhs {
						id, ok := l.(*ast.Ident)
						if !ok || id.Name == "_" {
							continue
						}
						obj := info.Defs[id]
						if obj == nil {
							continue
						}
						if _, isStruct := obj.Type().Underlying().(*types.Struct); !isStruct {
							continue
						}
						var rhs ast.Expr
						if len(as.Rhs) == len(as.Lhs) {
							rhs = as.Rhs[i]
						} else if len(as.Rhs) == 1 && i == 0 {
							rhs = as.Rhs[0]
						}
						switch ast.Unparen(rhs).(type) {
						case *ast.TypeAssertExpr, *ast.StarExpr, *ast.SelectorExpr, *ast.IndexExpr:
							copies[obj] = as.Pos()
						}
					}
					return true
				})
				for obj := range copies {
					// field writes and other uses, in source order
					var firstWrite, lastWrite token.Pos
					lastUse := token.NoPos
					var stack []ast.Node
					ast.Inspect(fd.Body, func(x ast.Node) bool {
						if x == nil {
							stack = stack[:len(stack)-1]
							return true
						}
						stack = append(stack, x)
						id, ok := x.(*ast.Ident)
						if !ok || info.Uses[id] != obj {
							return true
						}
						// is this occurrence the base of an assigned field path?
						isWrite := false
						for i := len(stack) - 2; i >= 0; i-- {
							switch t := stack[i].(type) {
							case *ast.SelectorExpr, *ast.IndexExpr, *ast.ParenExpr:
								continue
							case *ast.AssignStmt:
								for _, l := range t.Lhs {
									if nodeContains(l, id) {
										if _, isSel := ast.Unparen(l).(*ast.SelectorExpr); isSel {
											isWrite = true
										}
									}
								}
							}
							break
						}
						if isWrite {
							if firstWrite == token.NoPos {
								firstWrite = id.Pos()
							}
							lastWrite = id.Pos()
							// `v.F = append(v.F, …)` reads v.F on the right: not a use of the copy as a whole
							return true
						}
						// a read inside the right-hand side of one of its own field writes does not count
						for i := len(stack) - 2; i >= 0; i-- {
							if as, ok := stack[i].(*ast.AssignStmt); ok {
								own := false
								for _, l := range as.Lhs {
									if sel, ok := ast.Unparen(l).(*ast.SelectorExpr); ok {
										if root := rootIdent(sel); root != nil && info.Uses[root] == obj {
											own = true
										}
									}
								}
								if own {
									return true
								}
								break
							}
						}
						if id.Pos() > lastUse {
							lastUse = id.Pos()
						}
						return true
					})
					if firstWrite == token.NoPos {
						continue
					}
					n++
					construct := funcDeclName(fd) + ":" + obj.Name()
					if lastUse > lastWrite {
						r.Pass(rule, construct, firstWrite, "the copy %s is used after its fields were written", obj.Name())
					} else {
						r.Fail(rule, construct, firstWrite, "%s is a copy (a struct value taken out of an interface, a pointer or a field); its fields are written and the copy is then dropped — never stored back, returned or handed on: the write is lost. %s", obj.Name(), consequence)
					}
				}
			}
		}
	}
	r.Ob(rule, "scanned", token.NoPos, true, "%d struct copies with field writes examined", n)
}

// checkFloatBitSize: strconv.FormatFloat(x, …, 32) prints the shortest text that reads back to the same float32. Handed
// a float64 (or a type parameter that can be one) it rounds the value to 24 bits of mantissa first: the literal in the
// SQL text is a different number than the one in the query.
func checkFloatBitSize(r *Run, rule string, pkgs ...*packages.Package) {
	n := 0
	for _, p := range pkgs {
		info := p.TypesInfo
		for _, f := range p.Syntax {
			for _, d := range f.Decls {
				fd, ok := d.(*ast.FuncDecl)
				if !ok || fd.Body == nil {
					continue
				}
				nth := 0
				ast.Inspect(fd.Body, func(x ast.Node) bool {
					call, ok := x.(*ast.CallExpr)
					if !ok {
						return true
					}
					fn := calleeOf(info, call)
					if fn == nil || fn.Pkg() == nil || fn.Pkg().Path() != "strconv" || (fn.Name() != "FormatFloat" && fn.Name() != "AppendFloat") {
						return true
					}
					args := call.Args
					if fn.Name() == "AppendFloat" && len(args) == 5 {
						args = args[1:]
					}
					if len(args) != 4 {
						return true
					}
					tv, has := info.Types[args[3]]
					if !has || tv.Value == nil {
						return true
					}
					n++
					nth++
					construct := funcDeclName(fd) + ":FormatFloat#" + itoa(nth)
					if tv.Value.ExactString() != "32" {
						r.Pass(rule, construct, call.Pos(), "bit size %s", tv.Value.ExactString())
						return true
					}
					// the value before its conversion to float64
					src := ast.Unparen(args[0])
					if c, ok := src.(*ast.CallExpr); ok && len(c.Args) == 1 {
						if ctv, has := info.Types[c.Fun]; has && ctv.IsType() {
							src = ast.Unparen(c.Args[0])
						}
					}
					st := info.TypeOf(src)
					only32 := false
					switch t := st.(type) {
					case *types.TypeParam:
						only32 = typeSetIs(t, types.Float32)
					default:
						if b, ok := st.Underlying().(*types.Basic); ok && b.Kind() == types.Float32 {
							only32 = true
						}
					}
					if only32 {
						r.Pass(rule, construct, call.Pos(), "a float32 is printed with bit size 32")
					} else {
						r.Fail(rule, construct, call.Pos(), "%s prints a value of type %s with bit size 32: a float64 is rounded to float32 precision on its way into the text (0.123456789012 is written as 0.12345679, 16777217 as 16777216), so the statement compares with, or stores, another number than the query named", exprString(r.Fset, call), st.String())
					}
					return true
				})
			}
		}
	}
	r.Ob(rule, "scanned", token.NoPos, true, "%d float formatting calls examined", n)
}

// typeSetIs: every term of the type parameter's constraint has the given basic kind.
func typeSetIs(tp *types.TypeParam, kind types.BasicKind) bool {
	iface, ok := tp.Constraint().Underlying().(*types.Interface)
	if !ok {
		return false
	}
	any := false
	all := true
	for i := 0; i < iface.NumEmbeddeds(); i++ {
		switch e := iface.EmbeddedType(i).(type) {
		case *types.Union:
			for j := 0; j < e.Len(); j++ {
				any = true
				if b, ok := e.Term(j).Type().Underlying().(*types.Basic); !ok || b.Kind() != kind {
					all = false
				}
			}
		default:
			any = true
			if b, ok := e.Underlying().(*types.Basic); !ok || b.Kind() != kind {
				all = false
			}
		}
	}
	return any && all
}

// checkAccessorsPure: a method of an entity's property container that takes nothing and answers something is a read.
// If it stores into the receiver (allocating the map it was asked for), reading a caller's value changes it — a query
// parameter that is a Properties value is written by translation, and two translations sharing it race.
func checkAccessorsPure(r *Run, rule string, gp *packages.Package, typeNames ...string) {
	info := gp.TypesInfo
	n := 0
	for _, tname := range typeNames {
		methods := methodsOfType(gp, tname)
		// which methods write a field of their receiver (directly)
		writes := map[*ast.FuncDecl]string{}
		for _, fd := range methods {
			recv := recvObj(gp, fd)
			if recv == nil || fd.Body == nil {
				continue
			}
			ast.Inspect(fd.Body, func(x ast.Node) bool {
				as, ok := x.(*ast.AssignStmt)
				if !ok {
					return true
				}
				for _, l := range as.Lhs {
					if sel, ok := ast.Unparen(l).(*ast.SelectorExpr); ok {
						if id, ok := ast.Unparen(sel.X).(*ast.Ident); ok && info.Uses[id] == recv {
							writes[fd] = sel.Sel.Name
						}
					}
				}
				return true
			})
		}
		for name, fd := range methods {
			if fd.Body == nil || fd.Type.Results == nil || len(fd.Type.Results.List) == 0 {
				continue
			}
			if fd.Type.Params != nil && len(fd.Type.Params.List) > 0 {
				continue
			}
			if !ast.IsExported(name) {
				continue
			}
			// constructors/cloners return the receiver's type: not accessors
			recv := recvObj(gp, fd)
			if recv == nil {
				continue
			}
			n++
			construct := tname + "." + name
			wrote := writes[fd]
			if wrote == "" {
				// through a helper method of the same type called on the receiver
				ast.Inspect(fd.Body, func(x ast.Node) bool {
					call, ok := x.(*ast.CallExpr)
					if !ok {
						return true
					}
					if sel, ok := call.Fun.(*ast.SelectorExpr); ok {
						if id, ok := ast.Unparen(sel.X).(*ast.Ident); ok && info.Uses[id] == recv {
							if hd := methods[sel.Sel.Name]; hd != nil && writes[hd] != "" {
								wrote = writes[hd] + " (through " + sel.Sel.Name + ")"
							}
						}
					}
					return true
				})
			}
			if wrote == "" {
				r.Pass(rule, construct, fd.Pos(), "reads only")
			} else {
				r.Fail(rule, construct, fd.Pos(), "%s.%s takes no argument and answers a value — a read — but stores into the receiver's %s: a value the caller only handed over to be read (a query parameter, an entity being serialised) is changed by reading it, and two readers of one value race", tname, name, wrote)
			}
		}
	}
	if n == 0 {
		r.Note("%s: no niladic accessor found", rule)
	}
}

var _ = strings.HasPrefix
