package main

// Core plumbing shared by every property check: loading /repo's current working tree
// with go/packages, the obligation ledger, known-findings comparison, evidence and
// replay files.  No DAWGS code is executed anywhere in this program: every verdict is
// computed from syntax trees, type information, control-flow graphs, SSA and the
// ANTLR grammar file.

import (
	"encoding/json"
	"fmt"
	"go/ast"
	"go/constant"
	"go/token"
	"go/types"
	"os"
	"path/filepath"
	"sort"
	"strings"
	"time"

	"golang.org/x/tools/go/packages"
)

const modPath = "github.com/specterops/dawgs"

// Obligation is one decided instance of a rule.
type Obligation struct {
	Rule      string `json:"rule"`
	Construct string `json:"construct"`
	Pos       string `json:"pos,omitempty"`
	OK        bool   `json:"ok"`
	Detail    string `json:"detail,omitempty"`
}

func (o Obligation) Key() string { return o.Rule + "|" + o.Construct }

// Run is the state of one property check.
type Run struct {
	Prop     string
	Tier     string
	RepoDir  string
	VerifDir string
	Overlay  map[string][]byte

	Pkgs   []*packages.Package
	ByPath map[string]*packages.Package
	Fset   *token.FileSet

	Obls      []Obligation
	Notes     []string
	Undecided []string
	Counts    map[string]int
	Floors    map[string]int
	Tables    map[string]int // table entries consulted
	Extra     map[string]any

	start time.Time
	quiet bool
}

func NewRun(prop, tier, repo, verif string) *Run {
	return &Run{Prop: prop, Tier: tier, RepoDir: repo, VerifDir: verif,
		ByPath: map[string]*packages.Package{}, Counts: map[string]int{}, Floors: map[string]int{},
		Tables: map[string]int{}, Extra: map[string]any{}, start: time.Now()}
}

func (r *Run) Logf(format string, a ...any) {
	if !r.quiet {
		fmt.Printf(format+"\n", a...)
	}
}

// Load loads the given package patterns (relative to the repo module) with full syntax
// and type information for them and their dependencies.
func (r *Run) Load(patterns ...string) error {
	env := os.Environ()
	env = setEnv(env, "GOFLAGS", "-mod=mod")
	env = setEnv(env, "GOPROXY", "off")
	env = setEnv(env, "GOSUMDB", "off")
	env = setEnv(env, "GOTOOLCHAIN", "local")
	env = setEnv(env, "GOWORK", "off")
	env = setEnv(env, "PATH", "/opt/veriftools/go1.26.8/bin:"+os.Getenv("PATH"))
	r.Fset = token.NewFileSet()
	cfg := &packages.Config{
		Mode:    packages.LoadAllSyntax,
		Dir:     r.RepoDir,
		Env:     env,
		Fset:    r.Fset,
		Tests:   false,
		Overlay: r.Overlay,
	}
	pkgs, err := packages.Load(cfg, patterns...)
	if err != nil {
		return err
	}
	if len(pkgs) == 0 {
		return fmt.Errorf("no packages loaded for %v", patterns)
	}
	var errs []string
	packages.Visit(pkgs, nil, func(p *packages.Package) {
		if strings.HasPrefix(p.PkgPath, modPath) {
			for _, e := range p.Errors {
				errs = append(errs, e.Error())
			}
		}
		r.ByPath[p.PkgPath] = p
	})
	if len(errs) > 0 {
		return fmt.Errorf("package errors: %s", strings.Join(errs, "; "))
	}
	r.Pkgs = pkgs
	return nil
}

func setEnv(env []string, k, v string) []string {
	out := env[:0:0]
	for _, e := range env {
		if !strings.HasPrefix(e, k+"=") {
			out = append(out, e)
		}
	}
	return append(out, k+"="+v)
}

// Pkg returns the loaded package with the given module-relative path ("" = root).
func (r *Run) Pkg(rel string) *packages.Package {
	p := modPath
	if rel != "" {
		p += "/" + rel
	}
	return r.ByPath[p]
}

func (r *Run) MustPkg(rel string) *packages.Package {
	p := r.Pkg(rel)
	if p == nil {
		r.Undecide("anchor package %s not loaded", rel)
		panic(undecidedPanic{})
	}
	return p
}

type undecidedPanic struct{}

func (r *Run) Undecide(format string, a ...any) {
	r.Undecided = append(r.Undecided, fmt.Sprintf(format, a...))
}

// Fatal aborts the check as undecided (anchor not found etc.)
func (r *Run) Fatal(format string, a ...any) {
	r.Undecide(format, a...)
	panic(undecidedPanic{})
}

func (r *Run) Note(format string, a ...any) {
	r.Notes = append(r.Notes, fmt.Sprintf(format, a...))
}

func (r *Run) Pos(p token.Pos) string {
	if !p.IsValid() {
		return ""
	}
	pos := r.Fset.Position(p)
	f := pos.Filename
	if rel, err := filepath.Rel(r.RepoDir, f); err == nil && !strings.HasPrefix(rel, "..") {
		f = rel
	}
	return fmt.Sprintf("%s:%d", f, pos.Line)
}

// Ob records an obligation.
func (r *Run) Ob(rule, construct string, pos token.Pos, ok bool, format string, a ...any) {
	r.Obls = append(r.Obls, Obligation{Rule: rule, Construct: construct, Pos: r.Pos(pos), OK: ok, Detail: fmt.Sprintf(format, a...)})
	r.Counts[rule]++
	if t := os.Getenv("DAWGSVET_TRACE"); t != "" && strings.HasPrefix(rule, t) {
		fmt.Fprintf(os.Stderr, "trace %v %s|%s @%s — %s\n", ok, rule, construct, r.Pos(pos), fmt.Sprintf(format, a...))
	}
}

func (r *Run) Pass(rule, construct string, pos token.Pos, format string, a ...any) {
	r.Ob(rule, construct, pos, true, format, a...)
}

func (r *Run) Fail(rule, construct string, pos token.Pos, format string, a ...any) {
	r.Ob(rule, construct, pos, false, format, a...)
}

// Floor declares the minimal number of instances a rule must have matched.
func (r *Run) Floor(rule string, n int) { r.Floors[rule] = n }

// ---- tables -----------------------------------------------------------------

// Table is a per-rule triage table: construct -> reason.
type Table map[string]string

func (r *Run) LoadTable(name string) Table {
	b, err := os.ReadFile(filepath.Join(r.VerifDir, "tables", name+".json"))
	if err != nil {
		r.Fatal("table %s: %v", name, err)
	}
	var raw struct {
		Entries map[string]string `json:"entries"`
	}
	if err := json.Unmarshal(b, &raw); err != nil {
		r.Fatal("table %s: %v", name, err)
	}
	return raw.Entries
}

func (r *Run) InTable(t Table, name, key string) (string, bool) {
	reason, ok := t[key]
	if ok {
		r.Tables[name]++
	}
	return reason, ok
}

// ---- known findings ---------------------------------------------------------

type KnownFinding struct {
	Property string `json:"property"`
	Key      string `json:"key"` // rule|construct
	What     string `json:"what"`
}

type KnownFile struct {
	Findings []KnownFinding `json:"findings"`
	Fixed    []string       `json:"fixed"`
}

func loadKnown(verif string) (KnownFile, error) {
	var kf KnownFile
	b, err := os.ReadFile(filepath.Join(verif, "known_findings.json"))
	if err != nil {
		if os.IsNotExist(err) {
			return kf, nil
		}
		return kf, err
	}
	err = json.Unmarshal(b, &kf)
	return kf, err
}

// ---- finishing --------------------------------------------------------------

type propMeta struct {
	Level       string
	Explanation string
	Assumptions []string
	TrustedBase []string
}

// Finish evaluates the ledger, writes evidence and replay files and returns the exit code.
func (r *Run) Finish(meta propMeta) int {
	wall := time.Since(r.start).Seconds()
	for rule, floor := range r.Floors {
		if r.Counts[rule] < floor {
			r.Undecide("rule %s matched %d instances, below the floor %d confirmed by hand (rule would pass vacuously)", rule, r.Counts[rule], floor)
		}
	}
	kf, err := loadKnown(r.VerifDir)
	if err != nil {
		r.Undecide("known_findings.json: %v", err)
	}
	known := map[string]KnownFinding{}
	for _, k := range kf.Findings {
		if k.Property == r.Prop {
			known[k.Key] = k
		}
	}
	sort.SliceStable(r.Obls, func(i, j int) bool {
		if r.Obls[i].Rule != r.Obls[j].Rule {
			return r.Obls[i].Rule < r.Obls[j].Rule
		}
		return r.Obls[i].Construct < r.Obls[j].Construct
	})
	var viol, knownHit []Obligation
	discharged := 0
	seen := map[string]bool{}
	for _, o := range r.Obls {
		if o.OK {
			discharged++
			continue
		}
		if seen[o.Key()] {
			continue
		}
		seen[o.Key()] = true
		if _, ok := known[o.Key()]; ok {
			knownHit = append(knownHit, o)
		} else {
			viol = append(viol, o)
		}
	}
	// report
	rules := make([]string, 0, len(r.Counts))
	for k := range r.Counts {
		rules = append(rules, k)
	}
	sort.Strings(rules)
	r.Logf("property %s tier %s: %d packages loaded, %d obligations, %d discharged", r.Prop, r.Tier, len(r.ByPath), len(r.Obls), discharged)
	for _, k := range rules {
		fl := ""
		if f, ok := r.Floors[k]; ok {
			fl = fmt.Sprintf(" (floor %d)", f)
		}
		r.Logf("  rule %-34s instances=%d%s", k, r.Counts[k], fl)
	}
	for _, n := range r.Notes {
		r.Logf("  note: %s", n)
	}
	for _, o := range knownHit {
		fmt.Printf("KNOWN-FINDING: property=%s %s [%s] %s — %s\n", r.Prop, o.Pos, o.Rule, o.Construct, o.Detail)
	}
	for _, k := range known {
		if !seen[k.Key] {
			r.Logf("  note: known finding %q no longer reported (repaired or construct gone)", k.Key)
		}
	}
	code := 0
	if len(r.Undecided) > 0 {
		for _, u := range r.Undecided {
			fmt.Printf("UNDECIDED property=%s reason=%s\n", r.Prop, u)
		}
		code = 2
	}
	if len(viol) > 0 {
		for _, o := range viol {
			fmt.Printf("%s: [%s] %s — %s\n", o.Pos, o.Rule, o.Construct, o.Detail)
		}
		replay := filepath.Join(r.VerifDir, "replay", r.Prop+".json")
		os.MkdirAll(filepath.Dir(replay), 0o755)
		b, _ := json.MarshalIndent(map[string]any{"property": r.Prop, "tier": r.Tier, "violations": viol,
			"how_to_replay": fmt.Sprintf("./bin/dawgsvet -property %s -tier %s  (deterministic: re-analyses /repo's working tree)", r.Prop, r.Tier)}, "", " ")
		os.WriteFile(replay, b, 0o644)
		fmt.Printf("VIOLATION property=%s replay=%s\n", r.Prop, replay)
		code = 1
	}
	// evidence
	samples := []any{}
	perRule := map[string]int{}
	for _, o := range r.Obls {
		if perRule[o.Rule] < 3 {
			perRule[o.Rule]++
			samples = append(samples, o)
		}
	}
	if len(samples) > 60 {
		samples = samples[:60]
	}
	distinct := map[string]bool{}
	for _, o := range r.Obls {
		distinct[o.Key()] = true
	}
	cov := map[string]any{
		"obligations":          len(r.Obls),
		"discharged":           discharged + len(knownHit),
		"known_findings_hit":   len(knownHit),
		"evaluations":          len(r.Obls),
		"distinct_nontrivial":  len(distinct),
		"rule":                 "one obligation per (rule, construct) instance found in /repo's working tree; distinct = distinct rule|construct keys",
		"samples":              samples,
		"explanation":          meta.Explanation + addendumFor(r.Prop),
		"rule_instance_counts": r.Counts,
		"rule_floors":          r.Floors,
		"tables_consulted":     r.Tables,
		"packages_loaded":      len(r.ByPath),
		"notes":                r.Notes,
		"undecided":            r.Undecided,
		"checker_cmd":          fmt.Sprintf("./bin/dawgsvet -property %s -tier %s", r.Prop, r.Tier),
		"trusted_base":         meta.TrustedBase,
		"exhaustive":           true,
	}
	for k, v := range r.Extra {
		cov[k] = v
	}
	if meta.Level == "proof" {
		// discharged must equal obligations for proof: known findings are not allowed to count
		cov["discharged"] = discharged
	}
	ev := map[string]any{
		"property_id": r.Prop,
		"tier":        r.Tier,
		"seed":        0,
		"level":       meta.Level,
		"coverage":    cov,
		"assumptions": meta.Assumptions,
		"wall_s":      wall,
		"violations":  len(viol),
	}
	b, _ := json.MarshalIndent(ev, "", " ")
	os.MkdirAll(filepath.Join(r.VerifDir, "evidence"), 0o755)
	if err := os.WriteFile(filepath.Join(r.VerifDir, "evidence", r.Prop+".json"), b, 0o644); err != nil {
		fmt.Printf("UNDECIDED property=%s reason=cannot write evidence: %v\n", r.Prop, err)
		if code == 0 {
			code = 2
		}
	}
	if code == 0 {
		r.Logf("OK property=%s held on everything analysed (%.1fs)", r.Prop, wall)
	}
	return code
}

// ---- small AST/type helpers used everywhere -----------------------------------

// FuncDecls returns all function declarations of a package keyed "Recv.Name" or "Name".
func FuncDecls(p *packages.Package) map[string]*ast.FuncDecl {
	out := map[string]*ast.FuncDecl{}
	for _, f := range p.Syntax {
		for _, d := range f.Decls {
			if fd, ok := d.(*ast.FuncDecl); ok {
				out[funcDeclName(fd)] = fd
			}
		}
	}
	return out
}

// declKeyOf is the FuncDecls key of a function or method object.
func declKeyOf(fn *types.Func) string {
	if sig, _ := fn.Type().(*types.Signature); sig != nil && sig.Recv() != nil {
		return namedName(sig.Recv().Type()) + "." + fn.Name()
	}
	return fn.Name()
}

func funcDeclName(fd *ast.FuncDecl) string {
	if fd.Recv != nil && len(fd.Recv.List) > 0 {
		return recvTypeName(fd.Recv.List[0].Type) + "." + fd.Name.Name
	}
	return fd.Name.Name
}

func recvTypeName(e ast.Expr) string {
	switch t := e.(type) {
	case *ast.StarExpr:
		return recvTypeName(t.X)
	case *ast.Ident:
		return t.Name
	case *ast.IndexExpr:
		return recvTypeName(t.X)
	case *ast.IndexListExpr:
		return recvTypeName(t.X)
	case *ast.ParenExpr:
		return recvTypeName(t.X)
	}
	return "?"
}

// calleeOf resolves the statically known callee of a call (function or method), or nil.
func calleeOf(info *types.Info, call *ast.CallExpr) *types.Func {
	var id *ast.Ident
	switch f := ast.Unparen(call.Fun).(type) {
	case *ast.Ident:
		id = f
	case *ast.SelectorExpr:
		id = f.Sel
	case *ast.IndexExpr:
		switch x := ast.Unparen(f.X).(type) {
		case *ast.Ident:
			id = x
		case *ast.SelectorExpr:
			id = x.Sel
		}
	case *ast.IndexListExpr:
		switch x := ast.Unparen(f.X).(type) {
		case *ast.Ident:
			id = x
		case *ast.SelectorExpr:
			id = x.Sel
		}
	}
	if id == nil {
		return nil
	}
	if fn, ok := info.Uses[id].(*types.Func); ok {
		return fn
	}
	return nil
}

// funcFullName: pkgpath.Recv.Name or pkgpath.Name
func funcFullName(fn *types.Func) string {
	if fn == nil {
		return ""
	}
	sig := fn.Type().(*types.Signature)
	pk := ""
	if fn.Pkg() != nil {
		pk = fn.Pkg().Path()
	}
	if sig.Recv() != nil {
		return pk + "." + namedName(sig.Recv().Type()) + "." + fn.Name()
	}
	return pk + "." + fn.Name()
}

func namedName(t types.Type) string {
	for {
		switch tt := t.(type) {
		case *types.Pointer:
			t = tt.Elem()
			continue
		case *types.Named:
			return tt.Obj().Name()
		case *types.Alias:
			t = types.Unalias(tt)
			continue
		}
		return t.String()
	}
}

// namedOf strips pointers and returns the *types.Named, or nil.
func namedOf(t types.Type) *types.Named {
	for {
		switch tt := t.(type) {
		case *types.Pointer:
			t = tt.Elem()
			continue
		case *types.Alias:
			t = types.Unalias(tt)
			continue
		case *types.Named:
			return tt
		}
		return nil
	}
}

func exprString(fset *token.FileSet, e ast.Node) string {
	var sb strings.Builder
	printerFprint(&sb, fset, e)
	return sb.String()
}

func shortPkg(path string) string {
	return strings.TrimPrefix(strings.TrimPrefix(path, modPath), "/")
}

func sortedKeys[M ~map[string]V, V any](m M) []string {
	out := make([]string, 0, len(m))
	for k := range m {
		out = append(out, k)
	}
	sort.Strings(out)
	return out
}

func addendumFor(prop string) string {
	if a, ok := explanationAddenda[prop]; ok {
		return " " + a
	}
	return ""
}

// declsReachableFrom returns the declarations of package p reachable through static same-package calls (and references
// to same-package functions used as values) from the named roots ("Name" or "Recv.Name"), the roots included. Rules
// that say "the load path reads field F" use it instead of the file a function happens to live in.
func declsReachableFrom(p *packages.Package, roots ...string) map[*ast.FuncDecl]bool {
	decls := FuncDecls(p)
	byObj := map[types.Object]*ast.FuncDecl{}
	for _, fd := range decls {
		if o := p.TypesInfo.Defs[fd.Name]; o != nil {
			byObj[o] = fd
		}
	}
	seen := map[*ast.FuncDecl]bool{}
	var work []*ast.FuncDecl
	for _, rname := range roots {
		if fd := decls[rname]; fd != nil && !seen[fd] {
			seen[fd] = true
			work = append(work, fd)
		}
	}
	for len(work) > 0 {
		fd := work[0]
		work = work[1:]
		if fd.Body == nil {
			continue
		}
		ast.Inspect(fd.Body, func(n ast.Node) bool {
			id, ok := n.(*ast.Ident)
			if !ok {
				return true
			}
			if fn, ok := p.TypesInfo.Uses[id].(*types.Func); ok {
				if next := byObj[fn.Origin()]; next != nil && !seen[next] {
					seen[next] = true
					work = append(work, next)
				}
			}
			return true
		})
	}
	return seen
}

// ---- finding private functions by what they use ------------------------------------------------
//
// Private function names are not stable under refactoring; the exported vocabulary they are written in is. A rule that
// needs "the function that builds the jsonb_typeof(...) = 'string' test" asks for the function whose body mentions
// pgsql.FunctionJSONBTypeof and the constant "string", whatever it is called.

// usesObject reports whether n mentions the package-level object (or method/field) called name that is declared in a
// package whose path ends in pkgSuffix.
func usesObject(info *types.Info, n ast.Node, pkgSuffix, name string) bool {
	found := false
	ast.Inspect(n, func(m ast.Node) bool {
		if id, ok := m.(*ast.Ident); ok && id.Name == name {
			if o := info.Uses[id]; o != nil && o.Pkg() != nil && strings.HasSuffix(o.Pkg().Path(), pkgSuffix) {
				found = true
			}
		}
		return !found
	})
	return found
}

// hasStringConst reports whether n contains a constant expression with the given string value.
func hasStringConst(info *types.Info, n ast.Node, value string) bool {
	found := false
	ast.Inspect(n, func(m ast.Node) bool {
		if e, ok := m.(ast.Expr); ok {
			if tv, has := info.Types[e]; has && tv.Value != nil && tv.Value.Kind() == constant.String && constant.StringVal(tv.Value) == value {
				found = true
			}
		}
		return !found
	})
	return found
}

// declsWhere returns the function declarations of p (with bodies) that satisfy pred, in source order.
func declsWhere(p *packages.Package, pred func(fd *ast.FuncDecl) bool) []*ast.FuncDecl {
	var out []*ast.FuncDecl
	for _, f := range p.Syntax {
		for _, d := range f.Decls {
			if fd, ok := d.(*ast.FuncDecl); ok && fd.Body != nil && pred(fd) {
				out = append(out, fd)
			}
		}
	}
	sort.Slice(out, func(i, j int) bool { return out[i].Pos() < out[j].Pos() })
	return out
}

// bodyWithHelpers returns fd's body followed by the bodies of the same-package functions it calls directly (depth 1):
// "mentions X" predicates usually should see through one small helper.
func bodyWithHelpers(p *packages.Package, fd *ast.FuncDecl) []ast.Node {
	out := []ast.Node{fd.Body}
	byObj := map[types.Object]*ast.FuncDecl{}
	for _, f := range p.Syntax {
		for _, d := range f.Decls {
			if hd, ok := d.(*ast.FuncDecl); ok && hd.Body != nil {
				byObj[p.TypesInfo.Defs[hd.Name]] = hd
			}
		}
	}
	seen := map[*ast.FuncDecl]bool{fd: true}
	ast.Inspect(fd.Body, func(n ast.Node) bool {
		if call, ok := n.(*ast.CallExpr); ok {
			if fn := calleeOf(p.TypesInfo, call); fn != nil && fn.Pkg() == p.Types {
				if hd := byObj[fn.Origin()]; hd != nil && !seen[hd] {
					seen[hd] = true
					out = append(out, hd.Body)
				}
			}
		}
		return true
	})
	return out
}

// ---- the front end's private anchors, found from the exported ones ----------------------------------------------

// frontendParseFunc: the private function the exported ParseCypher hands the trimmed input to (a call of a same-package
// function in a return statement of ParseCypher with the same result types); ParseCypher itself when it does the walk.
func frontendParseFunc(p *packages.Package) *ast.FuncDecl {
	decls := FuncDecls(p)
	entry := decls["ParseCypher"]
	if entry == nil || entry.Body == nil {
		return decls["parseCypher"]
	}
	info := p.TypesInfo
	entryFn, _ := info.Defs[entry.Name].(*types.Func)
	var found *ast.FuncDecl
	ast.Inspect(entry.Body, func(n ast.Node) bool {
		// a call of a same-package function with ParseCypher's own result types (in a return statement or assigned to
		// locals that are returned)
		call, ok := n.(*ast.CallExpr)
		if !ok {
			return true
		}
		fn := calleeOf(info, call)
		if fn == nil || fn.Pkg() != p.Types || entryFn == nil {
			return true
		}
		if types.Identical(fn.Type().(*types.Signature).Results(), entryFn.Type().(*types.Signature).Results()) {
			if fd := decls[declKeyOf(fn)]; fd != nil && fd.Body != nil {
				found = fd
			}
		}
		return true
	})
	if found != nil {
		return found
	}
	return entry
}

// contextFiltersField: the field of frontend.Context that NewContext fills from its (variadic) parameter.
func contextFiltersField(p *packages.Package) *types.Var {
	info := p.TypesInfo
	nc := FuncDecls(p)["NewContext"]
	if nc == nil || nc.Body == nil || nc.Type.Params == nil || len(nc.Type.Params.List) != 1 || len(nc.Type.Params.List[0].Names) != 1 {
		return nil
	}
	param := info.Defs[nc.Type.Params.List[0].Names[0]]
	var field *types.Var
	ast.Inspect(nc.Body, func(n ast.Node) bool {
		kv, ok := n.(*ast.KeyValueExpr)
		if !ok {
			return true
		}
		k, ok1 := kv.Key.(*ast.Ident)
		v, ok2 := ast.Unparen(kv.Value).(*ast.Ident)
		if ok1 && ok2 && info.Uses[v] == param {
			if fv, ok := info.Uses[k].(*types.Var); ok && fv.IsField() {
				field = fv
			}
		}
		return true
	})
	return field
}

func isFrontendParseFunc(p *packages.Package, fn *types.Func) bool {
	fd := frontendParseFunc(p)
	return fd != nil && fn != nil && p.TypesInfo.Defs[fd.Name] == types.Object(fn.Origin())
}
