package main

// C13-R2, operand through a helper: a bitmap may run all four binary operations natively against "the operand as a
// roaring bitmap", obtained from one helper: the operand's own bitmap when it has the receiver's type, a copy of its
// values when it is another Duplex. That is right for every operation exactly when the copy is complete. The copy is
// judged on its shape: a fresh bitmap, one Each over the operand whose callback hands the element to the copy on every
// path (directly, or into a batch that is flushed before it is reset and once more after the iteration) and never asks
// the iteration to stop.

import (
	"go/ast"
	"go/token"
	"go/types"
	"strings"

	"golang.org/x/tools/go/packages"
)

// completeCopy judges fd as a function that copies all values of its Duplex parameter into a fresh bitmap it returns.
func completeCopy(r *Run, p *packages.Package, fd *ast.FuncDecl) (bool, string) {
	info := p.TypesInfo
	if fd == nil || fd.Body == nil || fd.Type.Params == nil {
		return false, "the copying function could not be read"
	}
	var src types.Object
	for _, pl := range fd.Type.Params.List {
		for _, nm := range pl.Names {
			if src == nil {
				src = info.Defs[nm]
			}
		}
	}
	// the fresh bitmap: a local defined from a niladic constructor of a roaring package
	var dst types.Object
	ast.Inspect(fd.Body, func(n ast.Node) bool {
		define := func(name *ast.Ident, v ast.Expr) {
			call, ok := ast.Unparen(v).(*ast.CallExpr)
			if !ok || len(call.Args) != 0 {
				return
			}
			if fn := calleeOf(info, call); fn != nil && fn.Pkg() != nil && strings.Contains(fn.Pkg().Path(), "roaring") && (fn.Name() == "New" || fn.Name() == "NewBitmap") {
				dst = info.Defs[name]
			}
		}
		switch x := n.(type) {
		case *ast.AssignStmt:
			if x.Tok == token.DEFINE && len(x.Lhs) == len(x.Rhs) {
				for i, l := range x.Lhs {
					if id, ok := l.(*ast.Ident); ok {
						define(id, x.Rhs[i])
					}
				}
			}
		case *ast.ValueSpec:
			for i, nm := range x.Names {
				if i < len(x.Values) {
					define(nm, x.Values[i])
				}
			}
		}
		return true
	})
	if dst == nil {
		return false, "no fresh bitmap is created for the copy"
	}
	isObj := func(e ast.Expr, o types.Object) bool {
		id, ok := ast.Unparen(e).(*ast.Ident)
		return ok && info.Uses[id] == o
	}
	// every return hands back the fresh bitmap
	returnsDst := true
	ast.Inspect(fd.Body, func(n ast.Node) bool {
		if _, isLit := n.(*ast.FuncLit); isLit {
			return false
		}
		if rs, ok := n.(*ast.ReturnStmt); ok {
			if len(rs.Results) == 0 || !isObj(rs.Results[0], dst) {
				returnsDst = false
			}
		}
		return true
	})
	if !returnsDst {
		return false, "a return of the copying function does not hand back the fresh bitmap"
	}
	// the Each over the source
	var each *ast.CallExpr
	var cb *ast.FuncLit
	for _, st := range fd.Body.List {
		es, ok := st.(*ast.ExprStmt)
		if !ok {
			continue
		}
		call, ok := es.X.(*ast.CallExpr)
		if !ok {
			continue
		}
		if sel, ok := call.Fun.(*ast.SelectorExpr); ok && sel.Sel.Name == "Each" && isObj(sel.X, src) && len(call.Args) == 1 {
			if fl, ok := call.Args[0].(*ast.FuncLit); ok {
				each, cb = call, fl
			}
		}
	}
	if each == nil || cb.Type.Params == nil || len(cb.Type.Params.List) != 1 || len(cb.Type.Params.List[0].Names) != 1 {
		return false, "the operand is not read with one unconditional Each"
	}
	elem := info.Defs[cb.Type.Params.List[0].Names[0]]
	// batches: locals that the callback appends the element to
	isAddTo := func(n ast.Node, method string, arg func(e ast.Expr) bool) bool {
		call, ok := n.(*ast.CallExpr)
		if !ok || len(call.Args) != 1 {
			return false
		}
		sel, ok := call.Fun.(*ast.SelectorExpr)
		return ok && sel.Sel.Name == method && isObj(sel.X, dst) && arg(call.Args[0])
	}
	batches := map[types.Object]bool{}
	ast.Inspect(cb.Body, func(n ast.Node) bool {
		as, ok := n.(*ast.AssignStmt)
		if !ok || len(as.Lhs) != 1 || len(as.Rhs) != 1 {
			return true
		}
		call, ok := ast.Unparen(as.Rhs[0]).(*ast.CallExpr)
		if !ok {
			return true
		}
		if f, ok := ast.Unparen(call.Fun).(*ast.Ident); ok && f.Name == "append" && len(call.Args) >= 2 {
			for _, a := range call.Args[1:] {
				if isObj(a, elem) {
					if id, ok := as.Lhs[0].(*ast.Ident); ok {
						batches[info.ObjectOf(id)] = true
					}
				}
			}
		}
		return true
	})
	paths, complete := structuredPaths(info, r.Fset, cb.Body.List, 64)
	if !complete || len(paths) == 0 {
		return false, "the callback of the copy has too many paths to read"
	}
	for _, path := range paths {
		consumed := false
		flushed := map[types.Object]bool{}
		for _, leaf := range path.Leaves {
			if _, isCond := leaf.(ast.Expr); isCond {
				continue
			}
			bad := ""
			ast.Inspect(leaf, func(n ast.Node) bool {
				switch x := n.(type) {
				case *ast.CallExpr:
					if isAddTo(x, "Add", func(e ast.Expr) bool { return isObj(e, elem) }) {
						consumed = true
					}
					for b := range batches {
						bb := b
						if isAddTo(x, "AddMany", func(e ast.Expr) bool { return isObj(e, bb) }) {
							flushed[bb] = true
						}
					}
				case *ast.AssignStmt:
					if len(x.Lhs) != 1 || len(x.Rhs) != 1 {
						return true
					}
					lid, ok := x.Lhs[0].(*ast.Ident)
					if !ok || !batches[info.ObjectOf(lid)] {
						return true
					}
					b := info.ObjectOf(lid)
					rhs := ast.Unparen(x.Rhs[0])
					resets := false
					appendsElem := false
					switch v := rhs.(type) {
					case *ast.SliceExpr:
						resets = true
					case *ast.CallExpr:
						if f, ok := ast.Unparen(v.Fun).(*ast.Ident); ok && f.Name == "append" && len(v.Args) >= 1 {
							if _, isSlice := ast.Unparen(v.Args[0]).(*ast.SliceExpr); isSlice {
								resets = true
							}
							for _, a := range v.Args[1:] {
								if isObj(a, elem) {
									appendsElem = true
								}
							}
						} else {
							resets = true
						}
					default:
						resets = true
					}
					if resets && !flushed[b] {
						bad = "the batch is emptied before it was handed to the copy"
					}
					if appendsElem {
						consumed = true
					}
				case *ast.ReturnStmt:
					if len(x.Results) == 1 {
						if tv, has := info.Types[x.Results[0]]; !has || tv.Value == nil || tv.Value.String() != "true" {
							bad = "the callback can ask the iteration to stop"
						}
					}
				}
				return bad == ""
			})
			if bad != "" {
				return false, bad
			}
		}
		if !consumed {
			return false, "a path through the callback of Each (" + strings.Join(path.Taken, ", ") + ") neither adds the element to the copy nor puts it into the batch: that element of the operand is missing from the copy"
		}
	}
	// what is left in a batch is handed over after the iteration
	for b := range batches {
		after := false
		past := false
		for _, st := range fd.Body.List {
			if es, ok := st.(*ast.ExprStmt); ok && es.X == ast.Expr(each) {
				past = true
				continue
			}
			if !past {
				continue
			}
			bb := b
			ast.Inspect(st, func(n ast.Node) bool {
				if isAddTo(n, "AddMany", func(e ast.Expr) bool { return isObj(e, bb) }) && len(pathConditions(fd.Body, n)) == 0 {
					after = true
				}
				return true
			})
		}
		if !after {
			return false, "the last batch is not handed to the copy after the iteration"
		}
	}
	return true, "fresh bitmap, every element of the operand handed to it"
}

// operandHelperVerdict judges fd as "the operand as a bitmap of the receiver's kind": the same-type branch returns the
// operand's own bitmap, the Duplex branch a complete copy.
func operandHelperVerdict(r *Run, p *packages.Package, fd *ast.FuncDecl, tname string, bitmapField *types.Var) (bool, string) {
	info := p.TypesInfo
	if fd == nil || fd.Body == nil {
		return false, "the operand helper could not be read"
	}
	decls := FuncDecls(p)
	branches, _, found := typeBranchesOf(info, fd.Body.List)
	if !found {
		return false, fd.Name.Name + " does not tell operand types apart"
	}
	sameOK, copyOK := false, false
	why := ""
	for _, br := range branches {
		caseName := namedName(br.Type)
		for _, st := range br.Body {
			ast.Inspect(st, func(n ast.Node) bool {
				rs, ok := n.(*ast.ReturnStmt)
				if !ok || len(rs.Results) == 0 {
					return true
				}
				res := ast.Unparen(rs.Results[0])
				switch {
				case caseName == tname:
					if sel, ok := res.(*ast.SelectorExpr); ok {
						if s := info.Selections[sel]; s != nil && s.Obj() == types.Object(bitmapField) {
							if id, ok := ast.Unparen(sel.X).(*ast.Ident); ok && info.Uses[id] == br.Operand {
								sameOK = true
							}
						}
					}
				case strings.HasPrefix(caseName, "Duplex"):
					if call, ok := res.(*ast.CallExpr); ok && len(call.Args) == 1 {
						if id, ok := ast.Unparen(call.Args[0]).(*ast.Ident); ok && info.Uses[id] == br.Operand {
							if fn := calleeOf(info, call); fn != nil && fn.Pkg() == p.Types {
								good, w := completeCopy(r, p, decls[declKeyOf(fn)])
								copyOK, why = good, fn.Name()+": "+w
							}
						}
					}
				}
				return true
			})
		}
	}
	switch {
	case !sameOK:
		return false, fd.Name.Name + " does not hand back the operand's own bitmap for an operand of type " + tname
	case !copyOK:
		if why == "" {
			why = "no copy of a Duplex operand found"
		}
		return false, why
	}
	return true, why
}
