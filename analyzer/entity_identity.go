package main

// entity-identity: a node or a relationship of the graph is the entity with a given ID; the Go value that carries it is
// made anew for every row a driver reads. Two pointers to graph.Node are therefore equal only by accident of caching,
// and a test like `segment.Node == terminal` that is meant to recognise "the same node" fails for every driver that
// materialises entities per row: cycles are not detected, visited nodes are visited again. The comparison that means
// identity is on the ID.

import (
	"go/ast"
	"go/token"
	"go/types"
	"strings"

	"golang.org/x/tools/go/packages"
)

func checkEntityPointerIdentity(r *Run, rule string, pkgs ...*packages.Package) {
	n := 0
	isEntityPtr := func(t types.Type) string {
		pt, ok := t.(*types.Pointer)
		if !ok {
			return ""
		}
		nt := namedOf(pt.Elem())
		if nt == nil || nt.Obj().Pkg() == nil || !strings.HasSuffix(nt.Obj().Pkg().Path(), "/graph") {
			return ""
		}
		switch nt.Obj().Name() {
		case "Node", "Relationship":
			return nt.Obj().Name()
		}
		return ""
	}
	for _, p := range pkgs {
		if p == nil {
			continue
		}
		info := p.TypesInfo
		for _, name := range sortedKeys(FuncDecls(p)) {
			fd := FuncDecls(p)[name]
			if fd.Body == nil {
				continue
			}
			ast.Inspect(fd.Body, func(x ast.Node) bool {
				be, ok := x.(*ast.BinaryExpr)
				if !ok || (be.Op != token.EQL && be.Op != token.NEQ) {
					return true
				}
				if isNilIdent(info, ast.Unparen(be.X)) || isNilIdent(info, ast.Unparen(be.Y)) {
					return true
				}
				lt, rt := info.TypeOf(be.X), info.TypeOf(be.Y)
				if lt == nil || rt == nil {
					return true
				}
				what := isEntityPtr(lt)
				if what == "" || isEntityPtr(rt) != what {
					return true
				}
				n++
				r.Fail(rule, shortPkg(p.PkgPath)+"."+funcDeclName(fd)+":"+exprString(r.Fset, be), be.Pos(), "`%s` compares two *graph.%s pointers: the same %s read twice is two values, so the test that is meant to recognise the same entity fails with every driver that materialises entities per row (compare the IDs)", exprString(r.Fset, be), what, strings.ToLower(what))
				return true
			})
		}
	}
	r.Counts[rule+":found"] = n
	r.Pass(rule, "scan", token.NoPos, "no two entity pointers are compared for identity (each such comparison fails on its own)")
}
