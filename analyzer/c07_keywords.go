package main

// C07-R6 bare-key-keywords: a property key is written bare or in backticks by cypher.EscapePropertyKeyName. A name
// spelled like a keyword of the grammar is lexed as that keyword's token, so it can stand bare only if the token is an
// alternative of oC_ReservedWord or oC_SymbolicName (the two ways to a schema name). The set of keywords that are
// neither is computed from Cypher.g4; the function that decides bareness must consult a table that holds all of them.

import (
	"go/ast"
	"go/constant"
	"go/token"
	"go/types"
	"sort"
	"strings"
)

func keywordText(body string) string {
	var sb strings.Builder
	parts := strings.Fields(body)
	for i := 0; i+4 < len(parts); i += 5 {
		sb.WriteString(strings.ToLower(strings.Trim(parts[i+1], "'")))
	}
	return sb.String()
}

func checkBareKeyKeywords(r *Run, g *Grammar) {
	allowed := map[string]bool{}
	for _, rule := range []string{"oC_ReservedWord", "oC_SymbolicName"} {
		if g.Rules[rule] == nil {
			r.Undecide("C07-R6: grammar rule %s not found", rule)
			return
		}
		named, _ := g.Tokens(rule)
		for _, t := range named {
			allowed[t] = true
		}
	}
	var outside []string
	for name, isKw := range g.Keyword {
		if isKw && !allowed[name] {
			if txt := keywordText(g.Lexer[name]); txt != "" {
				outside = append(outside, txt)
			}
		}
	}
	sort.Strings(outside)
	if len(outside) == 0 {
		r.Pass("C07-R6-bare-key-keywords", "grammar", token.NoPos, "every keyword of the grammar is a reserved word or a symbolic name: any keyword can stand bare as a property key")
		return
	}
	cp := r.MustPkg("cypher/models/cypher")
	info := cp.TypesInfo
	decls := FuncDecls(cp)
	fd := decls["CanEmitBarePropertyKeyName"]
	if fd == nil {
		r.Undecide("C07-R6: cypher.CanEmitBarePropertyKeyName not found")
		return
	}
	// string tables (package-level map or slice literals) consulted by the function, directly or one call deep
	tables := map[types.Object]bool{}
	var collect func(n ast.Node, depth int)
	collect = func(n ast.Node, depth int) {
		ast.Inspect(n, func(x ast.Node) bool {
			switch t := x.(type) {
			case *ast.Ident:
				if v, ok := info.Uses[t].(*types.Var); ok && v.Parent() == cp.Types.Scope() {
					tables[v] = true
				}
			case *ast.CallExpr:
				if depth < 1 {
					if fn := calleeOf(info, t); fn != nil && fn.Pkg() == cp.Types {
						if d := decls[fn.Name()]; d != nil && d.Body != nil {
							collect(d.Body, depth+1)
						}
					}
				}
			}
			return true
		})
	}
	collect(fd.Body, 0)
	listed := map[string]bool{}
	for _, f := range cp.Syntax {
		for _, d := range f.Decls {
			gd, ok := d.(*ast.GenDecl)
			if !ok || gd.Tok != token.VAR {
				continue
			}
			for _, sp := range gd.Specs {
				vs := sp.(*ast.ValueSpec)
				for i, nm := range vs.Names {
					if !tables[info.Defs[nm]] || i >= len(vs.Values) {
						continue
					}
					ast.Inspect(vs.Values[i], func(x ast.Node) bool {
						if e, ok := x.(ast.Expr); ok {
							if tv, has := info.Types[e]; has && tv.Value != nil && tv.Value.Kind() == constant.String {
								listed[strings.ToLower(constant.StringVal(tv.Value))] = true
							}
						}
						return true
					})
				}
			}
		}
	}
	var missing []string
	for _, k := range outside {
		if !listed[k] {
			missing = append(missing, k)
		}
	}
	if len(missing) == 0 {
		r.Pass("C07-R6-bare-key-keywords", "CanEmitBarePropertyKeyName", fd.Pos(), "the %d keywords that are neither reserved words nor symbolic names are all in the table the function consults", len(outside))
	} else {
		r.Fail("C07-R6-bare-key-keywords", "CanEmitBarePropertyKeyName", fd.Pos(), "%d keywords of the grammar are neither an alternative of oC_ReservedWord nor of oC_SymbolicName, and CanEmitBarePropertyKeyName lets a key spelled like them stand bare: n.`%s` is emitted as n.%s, which the lexer reads as the keyword and the parser rejects (missing: %s)", len(missing), missing[0], missing[0], strings.Join(missing, ", "))
	}
}

// checkKeyedStores (R7): a visitor that files parsed pairs into a Go map keeps one value per key. Unless it looks the
// key up first and reports a repeat, `{a: 1, a: 2}` is accepted and half of it is gone from the model.
func checkKeyedStores(r *Run) {
	fp := r.MustPkg("cypher/frontend")
	info := fp.TypesInfo
	n := 0
	for _, f := range fp.Syntax {
		for _, d := range f.Decls {
			fd, ok := d.(*ast.FuncDecl)
			if !ok || fd.Body == nil || fd.Recv == nil || !(strings.HasPrefix(fd.Name.Name, "Enter") || strings.HasPrefix(fd.Name.Name, "Exit")) {
				continue
			}
			ast.Inspect(fd.Body, func(x ast.Node) bool {
				as, ok := x.(*ast.AssignStmt)
				if !ok || len(as.Lhs) != 1 {
					return true
				}
				ix, ok := ast.Unparen(as.Lhs[0]).(*ast.IndexExpr)
				if !ok {
					return true
				}
				mt, isMap := info.TypeOf(ix.X).Underlying().(*types.Map)
				if !isMap {
					return true
				}
				if b, isBasic := mt.Key().Underlying().(*types.Basic); !isBasic || b.Kind() != types.String {
					return true
				}
				n++
				construct := funcDisplayName(fd) + ":" + exprString(r.Fset, ix.X)
				looked := false
				ast.Inspect(fd.Body, func(y ast.Node) bool {
					if ifs, ok := y.(*ast.IfStmt); ok && ifs.Pos() < as.Pos() {
						if be, ok := ast.Unparen(ifs.Cond).(*ast.BinaryExpr); ok && be.Op == token.NEQ {
							if ix2, ok := ast.Unparen(be.X).(*ast.IndexExpr); ok && isNilIdent(info, ast.Unparen(be.Y)) && exprString(r.Fset, ix2.X) == exprString(r.Fset, ix.X) && exprString(r.Fset, ix2.Index) == exprString(r.Fset, ix.Index) {
								if stmtHasCall(ifs.Body, func(c *ast.CallExpr) bool {
									sel, ok := c.Fun.(*ast.SelectorExpr)
									return ok && (sel.Sel.Name == "AddErrors" || strings.HasPrefix(sel.Sel.Name, "SetError"))
								}) {
									looked = true
								}
							}
						}
						if init, ok := ifs.Init.(*ast.AssignStmt); ok && len(init.Rhs) == 1 && len(init.Lhs) == 2 {
							if ix2, ok := ast.Unparen(init.Rhs[0]).(*ast.IndexExpr); ok && exprString(r.Fset, ix2.X) == exprString(r.Fset, ix.X) && exprString(r.Fset, ix2.Index) == exprString(r.Fset, ix.Index) {
								reports := stmtHasCall(ifs.Body, func(c *ast.CallExpr) bool {
									sel, ok := c.Fun.(*ast.SelectorExpr)
									return ok && (sel.Sel.Name == "AddErrors" || strings.HasPrefix(sel.Sel.Name, "SetError"))
								})
								if reports {
									looked = true
								}
							}
						}
					}
					return true
				})
				if looked {
					r.Pass("C07-R7-keyed-store", construct, as.Pos(), "a repeated key is reported before the pair is stored")
				} else {
					r.Fail("C07-R7-keyed-store", construct, as.Pos(), "%s stores a parsed pair into a Go map without looking the key up first: a literal that repeats a key ({a: 1, a: 2}) is accepted and modelled with one value, the other is dropped without an error", funcDisplayName(fd))
				}
				return true
			})
		}
	}
	if n == 0 {
		r.Undecide("C07-R7: no visitor handler stores into a string-keyed map (the map literal visitor changed?)")
	}
}
