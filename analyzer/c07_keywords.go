package main

// C07-R6 bare-key-keywords: a property key is written bare or in backticks by cypher.EscapePropertyKeyName. A name
// spelled like a keyword of the grammar is lexed as that keyword's token, so it can stand bare only if the token is an
// alternative of oC_ReservedWord or oC_SymbolicName (the two ways to a schema name). The set of keywords that are
// neither is computed from Cypher.g4; the function that decides bareness must consult a table that holds all of them.

import (
	"go/ast"
	"go/constant"
	"go/token"
	"go/types"
	"golang.org/x/tools/go/packages"
	"sort"
	"strings"
)

func keywordText(body string) string {
	var sb strings.Builder
	parts := strings.Fields(body)
	for i := 0; i+4 < len(parts); i += 5 {
		sb.WriteString(strings.ToLower(strings.Trim(parts[i+1], "'")))
	}
	return sb.String()
}

func checkBareKeyKeywords(r *Run, g *Grammar) {
	allowed := map[string]bool{}
	for _, rule := range []string{"oC_ReservedWord", "oC_SymbolicName"} {
		if g.Rules[rule] == nil {
			r.Undecide("C07-R6: grammar rule %s not found", rule)
			return
		}
		named, _ := g.Tokens(rule)
		for _, t := range named {
			allowed[t] = true
		}
	}
	var outside []string
	for name, isKw := range g.Keyword {
		if isKw && !allowed[name] {
			if txt := keywordText(g.Lexer[name]); txt != "" {
				outside = append(outside, txt)
			}
		}
	}
	sort.Strings(outside)
	if len(outside) == 0 {
		r.Pass("C07-R6-bare-key-keywords", "grammar", token.NoPos, "every keyword of the grammar is a reserved word or a symbolic name: any keyword can stand bare as a property key")
		return
	}
	cp := r.MustPkg("cypher/models/cypher")
	info := cp.TypesInfo
	decls := FuncDecls(cp)
	fd := decls["CanEmitBarePropertyKeyName"]
	if fd == nil {
		r.Undecide("C07-R6: cypher.CanEmitBarePropertyKeyName not found")
		return
	}
	// string tables (package-level map or slice literals) consulted by the function, directly or one call deep
	tables := map[types.Object]bool{}
	consulting := []*ast.FuncDecl{fd}
	var listedRaw []string
	var collect func(n ast.Node, depth int)
	collect = func(n ast.Node, depth int) {
		ast.Inspect(n, func(x ast.Node) bool {
			switch t := x.(type) {
			case *ast.Ident:
				if v, ok := info.Uses[t].(*types.Var); ok && v.Parent() == cp.Types.Scope() {
					tables[v] = true
				}
			case *ast.CallExpr:
				if depth < 1 {
					if fn := calleeOf(info, t); fn != nil && fn.Pkg() == cp.Types {
						if d := decls[fn.Name()]; d != nil && d.Body != nil {
							consulting = append(consulting, d)
							collect(d.Body, depth+1)
						}
					}
				}
			}
			return true
		})
	}
	collect(fd.Body, 0)
	listed := map[string]bool{}
	for _, f := range cp.Syntax {
		for _, d := range f.Decls {
			gd, ok := d.(*ast.GenDecl)
			if !ok || gd.Tok != token.VAR {
				continue
			}
			for _, sp := range gd.Specs {
				vs := sp.(*ast.ValueSpec)
				for i, nm := range vs.Names {
					if !tables[info.Defs[nm]] || i >= len(vs.Values) {
						continue
					}
					ast.Inspect(vs.Values[i], func(x ast.Node) bool {
						if e, ok := x.(ast.Expr); ok {
							if tv, has := info.Types[e]; has && tv.Value != nil && tv.Value.Kind() == constant.String {
								listed[strings.ToLower(constant.StringVal(tv.Value))] = true
								listedRaw = append(listedRaw, constant.StringVal(tv.Value))
							}
						}
						return true
					})
				}
			}
		}
	}
	var missing []string
	for _, k := range outside {
		if !listed[k] {
			missing = append(missing, k)
		}
	}
	checkKeywordLookupFolded(r, cp, fd, tables, consulting, listedRaw)
	if len(missing) == 0 {
		r.Pass("C07-R6-bare-key-keywords", "CanEmitBarePropertyKeyName", fd.Pos(), "the %d keywords that are neither reserved words nor symbolic names are all in the table the function consults", len(outside))
	} else {
		r.Fail("C07-R6-bare-key-keywords", "CanEmitBarePropertyKeyName", fd.Pos(), "%d keywords of the grammar are neither an alternative of oC_ReservedWord nor of oC_SymbolicName, and CanEmitBarePropertyKeyName lets a key spelled like them stand bare: n.`%s` is emitted as n.%s, which the lexer reads as the keyword and the parser rejects (missing: %s)", len(missing), missing[0], missing[0], strings.Join(missing, ", "))
	}
}

// checkKeywordLookupFolded (R6, second half): the lexer rules of the keywords spell every letter in both cases, so a name
// is read as the keyword whatever its case; the table holds one spelling of each. Every place where the deciding
// function (or a helper it calls) looks a name up in the table, or compares it with an entry, must therefore use the
// name folded to the case of the table: `tbl[strings.ToLower(name)]`, `slices.Contains(tbl, folded)`,
// `tbl[i] == folded`, or strings.EqualFold. A raw name at such a place lets `Index` or `FROM` stand bare.
func checkKeywordLookupFolded(r *Run, cp *packages.Package, entry *ast.FuncDecl, tables map[types.Object]bool, consulting []*ast.FuncDecl, entries []string) {
	const rule = "C07-R6-keyword-lookup-folded"
	info := cp.TypesInfo
	wantFold := ""
	allLower, allUpper := true, true
	for _, e := range entries {
		if e != strings.ToLower(e) {
			allLower = false
		}
		if e != strings.ToUpper(e) {
			allUpper = false
		}
	}
	switch {
	case len(entries) == 0:
		return
	case allLower:
		wantFold = "ToLower"
	case allUpper:
		wantFold = "ToUpper"
	default:
		r.Undecide("C07-R6: the keyword table mixes cases; the folding it expects is not identified")
		return
	}
	isTable := func(e ast.Expr) bool {
		id, ok := ast.Unparen(e).(*ast.Ident)
		return ok && tables[info.Uses[id]]
	}
	seen := map[*ast.FuncDecl]bool{}
	sites := 0
	for _, fd := range consulting {
		if seen[fd] || fd.Body == nil {
			continue
		}
		seen[fd] = true
		// identifiers that stand for an entry of the table: range variables over it
		entryVar := map[types.Object]bool{}
		ast.Inspect(fd.Body, func(n ast.Node) bool {
			if rs, ok := n.(*ast.RangeStmt); ok && isTable(rs.X) {
				_, isMap := info.TypeOf(rs.X).Underlying().(*types.Map)
				pick := rs.Value
				if isMap {
					pick = rs.Key
				}
				if id, ok := pick.(*ast.Ident); ok && info.Defs[id] != nil {
					entryVar[info.Defs[id]] = true
				}
			}
			return true
		})
		isEntry := func(e ast.Expr) bool {
			switch x := ast.Unparen(e).(type) {
			case *ast.Ident:
				return entryVar[info.Uses[x]]
			case *ast.IndexExpr:
				if isTable(x.X) {
					_, isMap := info.TypeOf(x.X).Underlying().(*types.Map)
					return !isMap
				}
			}
			return false
		}
		var folded func(e ast.Expr, in *ast.FuncDecl, depth int) bool
		folded = func(e ast.Expr, in *ast.FuncDecl, depth int) bool {
			e = ast.Unparen(e)
			if call, ok := e.(*ast.CallExpr); ok {
				if fn := calleeOf(info, call); fn != nil && fn.Pkg() != nil && fn.Pkg().Path() == "strings" && fn.Name() == wantFold {
					return true
				}
				// a conversion keeps the spelling
				if tv, has := info.Types[call.Fun]; has && tv.IsType() && len(call.Args) == 1 {
					return folded(call.Args[0], in, depth)
				}
				return false
			}
			id, ok := e.(*ast.Ident)
			if !ok {
				return false
			}
			if def := resolveLocalCopy(info, in.Body, id); def != ast.Expr(id) {
				return folded(def, in, depth)
			}
			// a parameter of a helper: folded when every caller among the consulting functions passes a folded value
			v, _ := info.Uses[id].(*types.Var)
			if v == nil || depth > 2 || in == entry {
				return false
			}
			idx := -1
			n := 0
			if in.Type.Params != nil {
				for _, f := range in.Type.Params.List {
					for _, nm := range f.Names {
						if info.Defs[nm] == v {
							idx = n
						}
						n++
					}
				}
			}
			if idx < 0 {
				return false
			}
			callers := 0
			ok = true
			for _, c := range consulting {
				if c.Body == nil {
					continue
				}
				ast.Inspect(c.Body, func(x ast.Node) bool {
					call, isCall := x.(*ast.CallExpr)
					if !isCall || idx >= len(call.Args) {
						return true
					}
					if fn := calleeOf(info, call); fn != nil && fn == info.Defs[in.Name] {
						callers++
						if !folded(call.Args[idx], c, depth+1) {
							ok = false
						}
					}
					return true
				})
			}
			return ok && callers > 0
		}
		judge := func(pos token.Pos, key ast.Expr, how string) {
			sites++
			construct := funcDeclName(fd) + ":" + how
			if folded(key, fd, 0) {
				r.Pass(rule, construct, pos, "the name is looked up folded with strings.%s, the case of the table", wantFold)
			} else {
				r.Fail(rule, construct, pos, "%s looks the name up in the keyword table as %s, which is not folded with strings.%s: the lexer reads a keyword in any case (every letter of its rule has both cases) but the table holds one spelling, so a key spelled `Index` or `FROM` is emitted bare and the emitted text does not parse", funcDeclName(fd), types.ExprString(key), wantFold)
			}
		}
		ast.Inspect(fd.Body, func(n ast.Node) bool {
			switch x := n.(type) {
			case *ast.IndexExpr:
				if isTable(x.X) {
					if _, isMap := info.TypeOf(x.X).Underlying().(*types.Map); isMap {
						judge(x.Pos(), x.Index, "map-lookup")
					}
				}
			case *ast.CallExpr:
				fn := calleeOf(info, x)
				if fn == nil || fn.Pkg() == nil {
					return true
				}
				hasTable := false
				for _, a := range x.Args {
					if isTable(a) {
						hasTable = true
					}
				}
				if !hasTable {
					return true
				}
				switch fn.Pkg().Path() {
				case "slices", "sort", "maps":
					for _, a := range x.Args {
						if isTable(a) {
							continue
						}
						if b, ok := info.TypeOf(a).Underlying().(*types.Basic); ok && b.Info()&types.IsString != 0 {
							judge(a.Pos(), a, fn.Name())
						}
					}
				}
			case *ast.BinaryExpr:
				if x.Op != token.EQL && x.Op != token.NEQ {
					return true
				}
				switch {
				case isEntry(x.X) && !isEntry(x.Y):
					judge(x.Pos(), x.Y, "compare")
				case isEntry(x.Y) && !isEntry(x.X):
					judge(x.Pos(), x.X, "compare")
				}
			}
			return true
		})
	}
	if sites == 0 {
		// strings.EqualFold against the entries is the one other correct form
		for _, fd := range consulting {
			if fd.Body == nil {
				continue
			}
			found := false
			ast.Inspect(fd.Body, func(n ast.Node) bool {
				if call, ok := n.(*ast.CallExpr); ok {
					if fn := calleeOf(info, call); fn != nil && fn.Pkg() != nil && fn.Pkg().Path() == "strings" && fn.Name() == "EqualFold" {
						found = true
					}
				}
				return true
			})
			if found {
				r.Pass(rule, funcDeclName(fd)+":EqualFold", fd.Pos(), "entries are compared with strings.EqualFold")
				return
			}
		}
		r.Undecide("C07-R6: no place found where CanEmitBarePropertyKeyName looks a name up in its keyword table")
	}
}

// checkKeyedStores (R7): a visitor that files parsed pairs into a Go map keeps one value per key. Unless it looks the
// key up first and reports a repeat, `{a: 1, a: 2}` is accepted and half of it is gone from the model.
func checkKeyedStores(r *Run) {
	fp := r.MustPkg("cypher/frontend")
	info := fp.TypesInfo
	n := 0
	for _, f := range fp.Syntax {
		for _, d := range f.Decls {
			fd, ok := d.(*ast.FuncDecl)
			if !ok || fd.Body == nil {
				continue
			}
			ast.Inspect(fd.Body, func(x ast.Node) bool {
				as, ok := x.(*ast.AssignStmt)
				if !ok || len(as.Lhs) != 1 {
					return true
				}
				ix, ok := ast.Unparen(as.Lhs[0]).(*ast.IndexExpr)
				if !ok {
					return true
				}
				mt, isMap := info.TypeOf(ix.X).Underlying().(*types.Map)
				if !isMap {
					return true
				}
				if b, isBasic := mt.Key().Underlying().(*types.Basic); !isBasic || b.Kind() != types.String {
					return true
				}
				// a map of the query model (cypher.MapLiteral): other string-keyed maps of the front end are its own
				// book-keeping
				if nt := namedOf(info.TypeOf(ix.X)); nt == nil || nt.Obj().Pkg() == nil || !strings.HasSuffix(nt.Obj().Pkg().Path(), "cypher/models/cypher") {
					return true
				}
				n++
				construct := funcDisplayName(fd) + ":" + exprString(r.Fset, ix.X)
				looked := false
				ast.Inspect(fd.Body, func(y ast.Node) bool {
					if ifs, ok := y.(*ast.IfStmt); ok && ifs.Pos() < as.Pos() {
						if be, ok := ast.Unparen(ifs.Cond).(*ast.BinaryExpr); ok && be.Op == token.NEQ {
							if ix2, ok := ast.Unparen(be.X).(*ast.IndexExpr); ok && isNilIdent(info, ast.Unparen(be.Y)) && exprString(r.Fset, ix2.X) == exprString(r.Fset, ix.X) && exprString(r.Fset, ix2.Index) == exprString(r.Fset, ix.Index) {
								if stmtHasCall(ifs.Body, func(c *ast.CallExpr) bool {
									sel, ok := c.Fun.(*ast.SelectorExpr)
									return ok && (sel.Sel.Name == "AddErrors" || strings.HasPrefix(sel.Sel.Name, "SetError"))
								}) {
									looked = true
								}
							}
						}
						if init, ok := ifs.Init.(*ast.AssignStmt); ok && len(init.Rhs) == 1 && len(init.Lhs) == 2 {
							if ix2, ok := ast.Unparen(init.Rhs[0]).(*ast.IndexExpr); ok && exprString(r.Fset, ix2.X) == exprString(r.Fset, ix.X) && exprString(r.Fset, ix2.Index) == exprString(r.Fset, ix.Index) {
								reports := stmtHasCall(ifs.Body, func(c *ast.CallExpr) bool {
									sel, ok := c.Fun.(*ast.SelectorExpr)
									return ok && (sel.Sel.Name == "AddErrors" || strings.HasPrefix(sel.Sel.Name, "SetError"))
								})
								if reports {
									looked = true
								}
							}
						}
					}
					return true
				})
				otherKey := ""
				if !looked {
					ast.Inspect(fd.Body, func(y ast.Node) bool {
						if ix2, ok := y.(*ast.IndexExpr); ok && ix2 != ix && ix2.Pos() < as.Pos() && exprString(r.Fset, ix2.X) == exprString(r.Fset, ix.X) && exprString(r.Fset, ix2.Index) != exprString(r.Fset, ix.Index) {
							otherKey = exprString(r.Fset, ix2.Index)
						}
						return true
					})
				}
				if looked {
					r.Pass("C07-R7-keyed-store", construct, as.Pos(), "a repeated key is reported before the pair is stored")
				} else if otherKey != "" {
					r.Fail("C07-R7-keyed-store", construct, as.Pos(), "%s stores a parsed pair under %s but looks for a repeat under %s: when the two differ (a key written in backticks) a repeated key is not noticed, the literal is accepted and modelled with one value, the other is dropped without an error", funcDisplayName(fd), exprString(r.Fset, ix.Index), otherKey)
				} else {
					r.Fail("C07-R7-keyed-store", construct, as.Pos(), "%s stores a parsed pair into a Go map without looking the key up first: a literal that repeats a key ({a: 1, a: 2}) is accepted and modelled with one value, the other is dropped without an error", funcDisplayName(fd))
				}
				return true
			})
		}
	}
	if n == 0 {
		r.Undecide("C07-R7: no visitor handler stores into a string-keyed map (the map literal visitor changed?)")
	}
}

// checkEmitterPackageState (R9): emitting a model is a function of the model. State of the format package that one
// emission leaves behind and another picks up — a pooled buffer, a cache, a counter — makes the text depend on what was
// emitted before: after a failed emission the next one starts with the leftovers. Package variables of the emitter are
// allowed only as tables that no function writes.
func checkEmitterPackageState(r *Run, rule string) {
	checkNoPackageState(r, r.MustPkg("cypher/models/cypher/format"), rule, "the emitter", "what one emission leaves there the next one finds — after an emission that failed part-way the following query is written behind the leftovers")
}

// checkNoPackageState: the functions of a package keep no state at package level — sync.Pool/Map/atomics that they use,
// or plain variables that they assign. Tables that no function writes are fine.
func checkNoPackageState(r *Run, p *packages.Package, rule, who, consequence string, onlyReceivers ...string) {
	info := p.TypesInfo
	vars := map[types.Object]*ast.ValueSpec{}
	for _, f := range p.Syntax {
		for _, d := range f.Decls {
			gd, ok := d.(*ast.GenDecl)
			if !ok || gd.Tok != token.VAR {
				continue
			}
			for _, sp := range gd.Specs {
				vs := sp.(*ast.ValueSpec)
				for _, nm := range vs.Names {
					if obj := info.Defs[nm]; obj != nil && nm.Name != "_" {
						vars[obj] = vs
					}
				}
			}
		}
	}
	syncTyped := func(t types.Type) bool {
		if pt, ok := t.(*types.Pointer); ok {
			t = pt.Elem()
		}
		n := namedOf(t)
		return n != nil && n.Obj().Pkg() != nil && (n.Obj().Pkg().Path() == "sync" || n.Obj().Pkg().Path() == "sync/atomic")
	}
	written := map[types.Object]token.Pos{}
	used := map[types.Object]bool{}
	for _, f := range p.Syntax {
		for _, d := range f.Decls {
			fd, ok := d.(*ast.FuncDecl)
			if !ok || fd.Body == nil {
				continue
			}
			if len(onlyReceivers) > 0 {
				match := false
				if fd.Recv != nil && len(fd.Recv.List) == 1 {
					for _, rn := range onlyReceivers {
						if recvTypeName(fd.Recv.List[0].Type) == rn {
							match = true
						}
					}
				}
				if !match {
					continue
				}
			}
			ast.Inspect(fd.Body, func(x ast.Node) bool {
				switch t := x.(type) {
				case *ast.Ident:
					if _, isVar := vars[info.Uses[t]]; isVar {
						used[info.Uses[t]] = true
					}
				case *ast.AssignStmt:
					for _, lhs := range t.Lhs {
						e := ast.Unparen(lhs)
						if ix, ok := e.(*ast.IndexExpr); ok {
							e = ast.Unparen(ix.X)
						}
						if id, ok := e.(*ast.Ident); ok {
							if _, isVar := vars[info.Uses[id]]; isVar {
								written[info.Uses[id]] = t.Pos()
							}
						}
					}
				}
				return true
			})
		}
	}
	n := 0
	for obj := range vars {
		n++
		construct := p.Name + "." + obj.Name()
		switch {
		case syncTyped(obj.Type()) && used[obj]:
			r.Fail(rule, construct, obj.Pos(), "%s keeps %s (%s) at package level and its functions use it: %s", who, obj.Name(), obj.Type(), consequence)
		case written[obj] != token.NoPos:
			r.Fail(rule, construct, written[obj], "the package variable %s is written by the functions of %s: %s", obj.Name(), who, consequence)
		default:
			r.Pass(rule, construct, obj.Pos(), "a table no function writes")
		}
	}
	r.Ob(rule, p.Name+":scanned", token.NoPos, true, "%d package variables of %s examined", n, who)
}

// checkNameCodecSymmetry (R10): label and relationship type names pass from text to model (graph.StringKind in the front
// end) and from model to text (Kind.String() in the emitter). If one side removes or adds the backticks of an escaped
// name, the other side has to do the inverse; today neither does. A front end that strips them while the emitter still
// writes the name as it is turns (n:`Domain Admins`) into text that no longer parses, and (n:`A:B`) into two labels.
// (R8) a parsed number reaches the model without a narrowing or sign-changing conversion.
func checkNameCodecSymmetry(r *Run) {
	fp := r.MustPkg("cypher/frontend")
	ep := r.MustPkg("cypher/models/cypher/format")
	finfo, einfo := fp.TypesInfo, ep.TypesInfo
	involves := func(info *types.Info, e ast.Node, decls map[string]*ast.FuncDecl, pkg *types.Package, words ...string) string {
		found := ""
		var visit func(e ast.Node, depth int)
		visit = func(e ast.Node, depth int) {
			ast.Inspect(e, func(x ast.Node) bool {
				call, ok := x.(*ast.CallExpr)
				if !ok || found != "" {
					return found == ""
				}
				fn := calleeOf(info, call)
				if fn == nil {
					return true
				}
				lower := strings.ToLower(fn.Name())
				for _, w := range words {
					if strings.Contains(lower, w) {
						found = fn.Name()
						return false
					}
				}
				if fn.Pkg() == pkg && depth < 2 {
					if d := decls[fn.Name()]; d != nil && d.Body != nil {
						visit(d.Body, depth+1)
					}
				}
				return true
			})
		}
		visit(e, 0)
		return found
	}
	fdecls, edecls := FuncDecls(fp), FuncDecls(ep)
	// front end: arguments of graph.StringKind
	decodes, sites := "", 0
	var firstSite token.Pos
	for _, f := range fp.Syntax {
		ast.Inspect(f, func(x ast.Node) bool {
			call, ok := x.(*ast.CallExpr)
			if !ok || len(call.Args) != 1 {
				return true
			}
			if fn := calleeOf(finfo, call); fn != nil && fn.Name() == "StringKind" {
				sites++
				if firstSite == token.NoPos {
					firstSite = call.Pos()
				}
				if u := involves(finfo, call.Args[0], fdecls, fp.Types, "unescape", "unquote", "trim"); u != "" && decodes == "" {
					decodes = u
				}
			}
			return true
		})
	}
	// helpers of the front end that wrap StringKind (kindFromSchemaName-like): their body decides as well
	for _, fd := range fdecls {
		if fd.Body == nil || fd.Type.Results == nil || len(fd.Type.Results.List) != 1 || namedName(finfo.TypeOf(fd.Type.Results.List[0].Type)) != "Kind" {
			continue
		}
		if u := involves(finfo, fd.Body, fdecls, fp.Types, "unescape", "unquote", "trim"); u != "" && decodes == "" {
			decodes = u
		}
	}
	// emitter: functions that write Kind.String()
	encodes := ""
	writers := 0
	for _, fd := range edecls {
		if fd.Body == nil {
			continue
		}
		var stack []ast.Node
		ast.Inspect(fd.Body, func(x ast.Node) bool {
			if x == nil {
				stack = stack[:len(stack)-1]
				return true
			}
			stack = append(stack, x)
			call, ok := x.(*ast.CallExpr)
			if !ok {
				return true
			}
			sel, ok := call.Fun.(*ast.SelectorExpr)
			if !ok || sel.Sel.Name != "String" || namedName(einfo.TypeOf(sel.X)) != "Kind" {
				return true
			}
			writers++
			// is the kind's text an argument (at any depth) of an escaping call?
			for _, a := range stack[:len(stack)-1] {
				if outer, ok := a.(*ast.CallExpr); ok {
					if fn := calleeOf(einfo, outer); fn != nil {
						lower := strings.ToLower(fn.Name())
						if strings.Contains(lower, "escape") || strings.Contains(lower, "quote") {
							encodes = fn.Name()
						}
					}
				}
			}
			return true
		})
	}
	if sites == 0 || writers == 0 {
		r.Undecide("C07-R10: kind names are not built with graph.StringKind in the front end (%d sites) or not written with Kind.String() in the emitter (%d functions)", sites, writers)
		return
	}
	switch {
	case decodes != "" && encodes == "":
		r.Fail("C07-R10-name-codec-symmetry", "kind-names", firstSite, "the front end removes the backticks of label and relationship type names (%s) but the emitter writes Kind.String() as it is: (n:`Domain Admins`) is re-emitted as (n:Domain Admins), which does not parse, and (n:`A:B`) as two labels", decodes)
	case decodes == "" && encodes != "":
		r.Fail("C07-R10-name-codec-symmetry", "kind-names", firstSite, "the emitter escapes kind names (%s) but the front end keeps the backticks of an escaped name in the kind: every round trip adds a pair", encodes)
	default:
		r.Pass("C07-R10-name-codec-symmetry", "kind-names", firstSite, "front end and emitter treat the backticks of kind names alike (%d StringKind sites, %d emitter functions)", sites, writers)
	}
}

// checkParsedNumbersUnconverted (R8): the value of a number literal is what strconv parsed. An integer conversion on
// the way into the model that changes size or signedness wraps for part of the accepted range: ParseUint followed by
// int64(v) accepts 18446744073709551615 and models it as -1.
func checkParsedNumbersUnconverted(r *Run) {
	fp := r.MustPkg("cypher/frontend")
	info := fp.TypesInfo
	parses := 0
	for _, f := range fp.Syntax {
		for _, d := range f.Decls {
			fd, ok := d.(*ast.FuncDecl)
			if !ok || fd.Body == nil {
				continue
			}
			parsed := map[types.Object]string{}
			ast.Inspect(fd.Body, func(x ast.Node) bool {
				as, ok := x.(*ast.AssignStmt)
				if !ok || len(as.Rhs) != 1 {
					return true
				}
				call, ok := as.Rhs[0].(*ast.CallExpr)
				if !ok {
					return true
				}
				if fn := calleeOf(info, call); fn != nil && fn.Pkg() != nil && fn.Pkg().Path() == "strconv" && strings.HasPrefix(fn.Name(), "Parse") {
					if id, ok := as.Lhs[0].(*ast.Ident); ok && id.Name != "_" {
						parsed[info.ObjectOf(id)] = fn.Name()
						parses++
					}
				}
				return true
			})
			ast.Inspect(fd.Body, func(x ast.Node) bool {
				call, ok := x.(*ast.CallExpr)
				if !ok || len(call.Args) != 1 {
					return true
				}
				tv, isConv := info.Types[call.Fun]
				if !isConv || !tv.IsType() {
					return true
				}
				id, ok := ast.Unparen(call.Args[0]).(*ast.Ident)
				if !ok {
					return true
				}
				how, isParsed := parsed[info.Uses[id]]
				if !isParsed {
					return true
				}
				from, ok1 := info.TypeOf(id).Underlying().(*types.Basic)
				to, ok2 := tv.Type.Underlying().(*types.Basic)
				if !ok1 || !ok2 || from.Info()&types.IsInteger == 0 || to.Info()&types.IsInteger == 0 {
					return true
				}
				fromUnsigned, toUnsigned := from.Info()&types.IsUnsigned != 0, to.Info()&types.IsUnsigned != 0
				if fromUnsigned != toUnsigned || sizeOfBasic(to) < sizeOfBasic(from) {
					r.Fail("C07-R8-parsed-number-unconverted", funcDisplayName(fd)+":"+exprString(r.Fset, call), call.Pos(), "the result of strconv.%s is converted from %s to %s on its way into the model: part of the range the parse accepts wraps, so the literal is accepted and modelled as a different number (18446744073709551615 as -1)", how, from.Name(), to.Name())
				}
				return true
			})
		}
	}
	if parses == 0 {
		r.Undecide("C07-R8: no strconv.Parse… call found in the front end")
		return
	}
	r.Ob("C07-R8-parsed-number-unconverted", "frontend:scanned", token.NoPos, true, "%d parsed numbers examined for narrowing or sign-changing conversions", parses)
}

func sizeOfBasic(b *types.Basic) int {
	switch b.Kind() {
	case types.Int8, types.Uint8:
		return 1
	case types.Int16, types.Uint16:
		return 2
	case types.Int32, types.Uint32:
		return 4
	}
	return 8
}

// checkIdentifierClasses (R11): the emitter writes a property key bare when every character passes the predicates of
// property_key.go. The lexer accepts a bare name when it matches IdentifierStart IdentifierPart*, which the grammar
// spells with Unicode properties: ID_Start | Pc, and ID_Continue | Sc. By UAX #31, ID_Start is drawn from the general
// categories L and Nl plus Other_ID_Start, and ID_Continue adds Mn, Mc, Nd, Pc and Other_ID_Continue. The categories the
// predicates admit are read off their bodies (unicode.IsLetter = L, unicode.IsNumber = Nd+Nl+No, unicode.In(c, tables…));
// a category outside the allowed set means some key is written bare that the lexer does not take as a name.
func checkIdentifierClasses(r *Run, g *Grammar) {
	const rule = "C07-R11-identifier-classes"
	props := func(lexRule string) (map[string]bool, bool) {
		out := map[string]bool{}
		body, ok := g.Lexer[lexRule]
		if !ok {
			return nil, false
		}
		for _, tok := range strings.Fields(strings.NewReplacer("|", " ", ";", " ", "(", " ", ")", " ").Replace(body)) {
			// a reference to a fragment whose body is [\p{X}]
			if fb, isFrag := g.Lexer[tok]; isFrag {
				i := strings.Index(fb, `\p{`)
				j := strings.Index(fb, "}")
				if i < 0 || j < i {
					return nil, false
				}
				out[fb[i+3:j]] = true
			} else {
				return nil, false
			}
		}
		return out, len(out) > 0
	}
	startProps, ok1 := props("IdentifierStart")
	partProps, ok2 := props("IdentifierPart")
	if !ok1 || !ok2 {
		r.Undecide("C07-R11: IdentifierStart / IdentifierPart are not unions of \\p{…} fragments any more")
		return
	}
	// UAX #31 derivations of the properties the grammar names, as sets of general categories and Other_ properties
	derivation := map[string][]string{
		"ID_Start":    {"L", "Lu", "Ll", "Lt", "Lm", "Lo", "Nl", "Other_ID_Start"},
		"ID_Continue": {"L", "Lu", "Ll", "Lt", "Lm", "Lo", "Nl", "Other_ID_Start", "Mn", "Mc", "Nd", "Pc", "Other_ID_Continue"},
		"Sc":          {"Sc"},
		"Pc":          {"Pc"},
	}
	allowed := func(ps map[string]bool) (map[string]bool, bool) {
		out := map[string]bool{}
		for p := range ps {
			cats, known := derivation[p]
			if !known {
				return nil, false
			}
			for _, c := range cats {
				out[c] = true
			}
		}
		return out, true
	}
	allowedStart, k1 := allowed(startProps)
	allowedPart, k2 := allowed(partProps)
	if !k1 || !k2 {
		r.Undecide("C07-R11: the grammar names a Unicode property the checker has no derivation for (%v / %v)", sortedKeys(startProps), sortedKeys(partProps))
		return
	}
	for c := range allowedStart {
		allowedPart[c] = true // a part may be anything a start may be only if the grammar says so; ID_Continue ⊇ ID_Start
	}
	cp := r.MustPkg("cypher/models/cypher")
	info := cp.TypesInfo
	decls := FuncDecls(cp)
	funcCats := map[string][]string{"IsLetter": {"L"}, "IsNumber": {"Nd", "Nl", "No"}, "IsDigit": {"Nd"}, "IsMark": {"Mn", "Mc", "Me"}, "IsPunct": {"Pc", "Pd", "Ps", "Pe", "Pi", "Pf", "Po"}, "IsSymbol": {"Sm", "Sc", "Sk", "So"}, "IsUpper": {"Lu"}, "IsLower": {"Ll"}, "IsTitle": {"Lt"}, "IsSpace": {"Zs", "space"}, "IsControl": {"Cc"}, "IsGraphic": {"graphic"}, "IsPrint": {"print"}}
	var catsOf func(name string, depth int) (map[string]bool, bool)
	catsOf = func(name string, depth int) (map[string]bool, bool) {
		fd := decls[name]
		if fd == nil || fd.Body == nil || depth > 3 {
			return nil, false
		}
		out := map[string]bool{}
		ok := true
		ast.Inspect(fd.Body, func(x ast.Node) bool {
			call, isCall := x.(*ast.CallExpr)
			if !isCall {
				return true
			}
			fn := calleeOf(info, call)
			if fn == nil {
				return true
			}
			switch {
			case fn.Pkg() != nil && fn.Pkg().Path() == "unicode" && fn.Name() == "In":
				for _, a := range call.Args[1:] {
					if sel, isSel := ast.Unparen(a).(*ast.SelectorExpr); isSel {
						out[sel.Sel.Name] = true
					} else {
						ok = false
					}
				}
				return false
			case fn.Pkg() != nil && fn.Pkg().Path() == "unicode":
				cats, known := funcCats[fn.Name()]
				if !known {
					ok = false
				}
				for _, c := range cats {
					out[c] = true
				}
			case fn.Pkg() == cp.Types:
				sub, k := catsOf(fn.Name(), depth+1)
				if !k {
					ok = false
				}
				for c := range sub {
					out[c] = true
				}
			}
			return true
		})
		return out, ok
	}
	for _, spec := range []struct {
		fn      string
		allowed map[string]bool
		pos     string
	}{{"isCypherSymbolStart", allowedStart, "IdentifierStart"}, {"isCypherSymbolPart", allowedPart, "IdentifierPart"}} {
		cats, ok := catsOf(spec.fn, 0)
		if !ok || len(cats) == 0 {
			r.Undecide("C07-R11: the categories admitted by cypher.%s could not be read off its body", spec.fn)
			continue
		}
		var extra []string
		for c := range cats {
			if !spec.allowed[c] {
				extra = append(extra, c)
			}
		}
		sort.Strings(extra)
		pos := token.NoPos
		if fd := decls[spec.fn]; fd != nil {
			pos = fd.Pos()
		}
		if len(extra) == 0 {
			r.Pass(rule, spec.fn, pos, "admits only categories of the grammar's %s (%s)", spec.pos, strings.Join(sortedKeys(cats), ", "))
		} else {
			r.Fail(rule, spec.fn, pos, "cypher.%s admits characters of %s, which the grammar's %s does not: a property key holding one (a superscript two, a circled digit: category No) is emitted bare and the lexer rejects the text", spec.fn, strings.Join(extra, ", "), spec.pos)
		}
	}
}
