package main

// Aliasing of container-owned storage (second half of the stored-set rule; see storedsets.go).
//
//  1. Parameter mutation.  A helper that mutates a bitmap it receives as a parameter (existing.Or(additional)) is
//     harmless on a fresh bitmap and destructive on a stored one.  Every package function gets a summary "mutates
//     parameter i" (directly, or by handing it to another function that does); at each call site on the query side an
//     argument whose origin is stored storage (a bitmap field, or an element of a map/slice field) is then a violation.
//
//  2. Slices.  A function may hand out a sub-slice of an array that the container owns (CSR rows are ranges of one
//     shared array).  Reading it is fine.  Appending to it writes past its length into the next row when the capacity
//     allows; assigning an element, sorting or copying into it changes the container.  The origin of every slice that
//     is appended to / written through / sorted on the query side is resolved like the bitmap receivers (assignments,
//     reslicing, return summaries — through interface calls by class hierarchy) and must not be container storage.

import (
	"go/ast"
	"go/token"
	"go/types"
	"sort"
	"strings"

	"golang.org/x/tools/go/packages"
)

type aliasAnalysis struct {
	r       *Run
	cg      *CallGraph
	pkgs    map[*packages.Package]bool
	retSl   map[*types.Func]string
	busy    map[*types.Func]bool
	mutates map[*types.Func]map[int]string // function -> parameter index -> how
}

func newAliasAnalysis(r *Run, cg *CallGraph, pkgs ...*packages.Package) *aliasAnalysis {
	a := &aliasAnalysis{r: r, cg: cg, pkgs: map[*packages.Package]bool{}, retSl: map[*types.Func]string{}, busy: map[*types.Func]bool{}}
	for _, p := range pkgs {
		a.pkgs[p] = true
	}
	return a
}

func (a *aliasAnalysis) infoOf(fn *types.Func) *types.Info {
	if p := a.cg.PkgOf[fn]; p != nil {
		return p.TypesInfo
	}
	return nil
}

func isSliceOfScalars(t types.Type) bool {
	if t == nil {
		return false
	}
	if tup, ok := t.(*types.Tuple); ok && tup.Len() > 0 {
		t = tup.At(0).Type()
	}
	sl, ok := t.Underlying().(*types.Slice)
	if !ok {
		return false
	}
	_, basic := sl.Elem().Underlying().(*types.Basic)
	return basic
}

// callees of a call expression inside fn: the static callee, or every implementation of an interface method.
func (a *aliasAnalysis) calleesAt(fn *types.Func, call *ast.CallExpr) []*types.Func {
	var out []*types.Func
	for _, e := range a.cg.Out[fn] {
		if e.Pos == call.Pos() && (e.Kind == "static" || e.Kind == "iface") {
			out = append(out, e.To)
		}
	}
	return out
}

// sliceOrigin: description of container storage that the slice expression e may alias, or "".
func (a *aliasAnalysis) sliceOrigin(fn *types.Func, e ast.Expr, depth int, seen map[types.Object]bool) string {
	info := a.infoOf(fn)
	if info == nil || depth > 8 {
		return ""
	}
	switch x := ast.Unparen(e).(type) {
	case *ast.SelectorExpr:
		if s := info.Selections[x]; s != nil && s.Kind() == types.FieldVal && isSliceOfScalars(info.TypeOf(x)) {
			return "field " + exprString(a.r.Fset, x)
		}
	case *ast.SliceExpr:
		if x.Slice3 {
			return "" // capacity is limited: an append reallocates
		}
		return a.sliceOrigin(fn, x.X, depth+1, seen)
	case *ast.IndexExpr:
		// element of a slice-of-slices or map-of-slices field
		if sel, ok := ast.Unparen(x.X).(*ast.SelectorExpr); ok {
			if s := info.Selections[sel]; s != nil && s.Kind() == types.FieldVal && isSliceOfScalars(info.TypeOf(x)) {
				return "element of field " + exprString(a.r.Fset, sel)
			}
		}
	case *ast.Ident:
		obj := info.Uses[x]
		if obj == nil {
			obj = info.Defs[x]
		}
		v, ok := obj.(*types.Var)
		if !ok || v.IsField() || seen[obj] {
			return ""
		}
		seen[obj] = true
		fd := a.cg.Decl[fn]
		if fd == nil || fd.Body == nil {
			return ""
		}
		res := ""
		ast.Inspect(fd, func(n ast.Node) bool {
			if res != "" {
				return false
			}
			switch s := n.(type) {
			case *ast.AssignStmt:
				for i, l := range s.Lhs {
					lid, ok := l.(*ast.Ident)
					if !ok || (info.Defs[lid] != obj && info.Uses[lid] != obj) {
						continue
					}
					var rhs ast.Expr
					if len(s.Lhs) == len(s.Rhs) {
						rhs = s.Rhs[i]
					} else if len(s.Rhs) == 1 && i == 0 {
						rhs = s.Rhs[0]
					}
					if rhs != nil {
						// x = append(x, …) keeps x's own origin, it does not create one
						if call, ok := ast.Unparen(rhs).(*ast.CallExpr); ok {
							if id, ok := ast.Unparen(call.Fun).(*ast.Ident); ok && id.Name == "append" && len(call.Args) > 0 {
								if aid, ok := ast.Unparen(call.Args[0]).(*ast.Ident); ok && info.Uses[aid] == obj {
									continue
								}
							}
						}
						res = a.sliceOrigin(fn, rhs, depth+1, seen)
					}
				}
			case *ast.ValueSpec:
				for i, nm := range s.Names {
					if info.Defs[nm] != obj {
						continue
					}
					if i < len(s.Values) {
						res = a.sliceOrigin(fn, s.Values[i], depth+1, seen)
					} else if len(s.Values) == 1 && i == 0 {
						res = a.sliceOrigin(fn, s.Values[0], depth+1, seen)
					}
				}
			}
			return true
		})
		return res
	case *ast.CallExpr:
		if id, ok := ast.Unparen(x.Fun).(*ast.Ident); ok {
			if _, builtin := info.Uses[id].(*types.Builtin); builtin {
				if id.Name == "append" && len(x.Args) > 0 {
					return a.sliceOrigin(fn, x.Args[0], depth+1, seen)
				}
				return ""
			}
		}
		for _, callee := range a.calleesAt(fn, x) {
			if d := a.returnsStoredSlice(callee); d != "" {
				return "result of " + shortFuncName(callee) + " (" + d + ")"
			}
		}
	}
	return ""
}

func (a *aliasAnalysis) returnsStoredSlice(fn *types.Func) string {
	if d, ok := a.retSl[fn]; ok {
		return d
	}
	fd := a.cg.Decl[fn]
	if fd == nil || fd.Body == nil || !a.pkgs[a.cg.PkgOf[fn]] || a.busy[fn] {
		return ""
	}
	a.busy[fn] = true
	defer delete(a.busy, fn)
	info := a.infoOf(fn)
	res := ""
	ast.Inspect(fd.Body, func(n ast.Node) bool {
		if _, ok := n.(*ast.FuncLit); ok {
			return false
		}
		if ret, ok := n.(*ast.ReturnStmt); ok && res == "" {
			for _, e := range ret.Results {
				if isSliceOfScalars(info.TypeOf(e)) {
					if d := a.sliceOrigin(fn, e, 0, map[types.Object]bool{}); d != "" {
						res = d
					}
				}
			}
		}
		return true
	})
	a.retSl[fn] = res
	return res
}

// paramMutations: which bitmap-typed parameters does fn mutate (receiver of a mutating bitmap method, or argument of
// another function at a position that function mutates)?
func (a *aliasAnalysis) paramMutations() {
	a.mutates = map[*types.Func]map[int]string{}
	paramIndex := func(fn *types.Func, obj types.Object) int {
		sig := fn.Type().(*types.Signature)
		for i := 0; i < sig.Params().Len(); i++ {
			if sig.Params().At(i) == obj {
				return i
			}
		}
		return -1
	}
	changed := true
	for round := 0; changed && round < 6; round++ {
		changed = false
		for fn, fd := range a.cg.Decl {
			if fd.Body == nil || !a.pkgs[a.cg.PkgOf[fn]] {
				continue
			}
			info := a.infoOf(fn)
			ast.Inspect(fd.Body, func(n ast.Node) bool {
				call, ok := n.(*ast.CallExpr)
				if !ok {
					return true
				}
				note := func(e ast.Expr, how string) {
					id, ok := ast.Unparen(e).(*ast.Ident)
					if !ok {
						return
					}
					if i := paramIndex(fn, info.Uses[id]); i >= 0 {
						if a.mutates[fn] == nil {
							a.mutates[fn] = map[int]string{}
						}
						if _, seen := a.mutates[fn][i]; !seen {
							a.mutates[fn][i] = how
							changed = true
						}
					}
				}
				if sel, ok := ast.Unparen(call.Fun).(*ast.SelectorExpr); ok && bitmapMutators[sel.Sel.Name] {
					if s := info.Selections[sel]; s != nil && s.Kind() == types.MethodVal && isCardinalityType(s.Recv()) {
						note(sel.X, sel.Sel.Name+" at "+a.r.Pos(call.Pos()))
					}
				}
				for _, callee := range a.calleesAt(fn, call) {
					for i, how := range a.mutates[callee] {
						if i < len(call.Args) {
							note(call.Args[i], "passed to "+callee.Name()+", which does "+how)
						}
					}
				}
				return true
			})
		}
	}
}

// checkStorageAliasing applies both rules to the query-side functions reachable from roots (within a.pkgs).
func checkStorageAliasing(r *Run, rule string, a *aliasAnalysis, bitmaps *storedSetAnalysis, roots []*types.Func) {
	a.paramMutations()
	reach := a.cg.Reach(roots, func(e cgEdge) bool { return !a.pkgs[a.cg.PkgOf[e.To]] })
	var fns []*types.Func
	for fn := range reach {
		if a.pkgs[a.cg.PkgOf[fn]] {
			fns = append(fns, fn)
		}
	}
	sort.Slice(fns, func(i, j int) bool { return funcFullName(fns[i]) < funcFullName(fns[j]) })
	for _, fn := range fns {
		fd := a.cg.Decl[fn]
		if fd == nil || fd.Body == nil {
			continue
		}
		info := a.infoOf(fn)
		dup := map[string]int{}
		key := func(s string) string {
			if len(s) > 110 {
				s = s[:110]
			}
			dup[s]++
			if dup[s] > 1 {
				return s + "#" + itoa(dup[s])
			}
			return s
		}
		ast.Inspect(fd.Body, func(n ast.Node) bool {
			switch x := n.(type) {
			case *ast.CallExpr:
				// 1. stored bitmap handed to a parameter that the callee mutates
				if bitmaps != nil && bitmaps.p == a.cg.PkgOf[fn] {
					for _, callee := range a.calleesAt(fn, x) {
						for i, how := range a.mutates[callee] {
							if i >= len(x.Args) {
								continue
							}
							construct := key(shortFuncName(fn) + ":" + callee.Name() + "(arg " + itoa(i) + " " + exprString(r.Fset, x.Args[i]) + ")")
							if d := bitmaps.origin(fn, x.Args[i], 0, map[types.Object]bool{}); d != "" {
								r.Fail(rule, construct, x.Pos(), "%s passes a stored bitmap (%s) to %s, which mutates that parameter (%s): the container's own set changes and every later query answers differently", fn.Name(), d, callee.Name(), how)
							} else {
								r.Pass(rule, construct, x.Pos(), "the argument that %s mutates is fresh, cloned or a parameter", callee.Name())
							}
						}
					}
				}
				// 2. append / sort / copy on container-owned slices
				var target ast.Expr
				what := ""
				if id, ok := ast.Unparen(x.Fun).(*ast.Ident); ok {
					if _, builtin := info.Uses[id].(*types.Builtin); builtin && len(x.Args) > 0 {
						switch id.Name {
						case "append":
							target, what = x.Args[0], "append to"
						case "copy":
							target, what = x.Args[0], "copy into"
						}
					}
				}
				if callee := calleeOf(info, x); callee != nil && callee.Pkg() != nil && len(x.Args) > 0 {
					if p := callee.Pkg().Path(); (p == "sort" || p == "slices") && (strings.HasPrefix(callee.Name(), "Sort") || callee.Name() == "Slice" || callee.Name() == "Reverse" || callee.Name() == "Ints" || callee.Name() == "Strings") {
						target, what = x.Args[0], callee.Pkg().Name()+"."+callee.Name()+" on"
					}
				}
				if target != nil && isSliceOfScalars(info.TypeOf(target)) {
					construct := key(shortFuncName(fn) + ":" + what + " " + exprString(r.Fset, target))
					if d := a.sliceOrigin(fn, target, 0, map[types.Object]bool{}); d != "" {
						r.Fail(rule, construct, x.Pos(), "%s does %s a slice that aliases container storage (%s): an append writes past the slice's length into the neighbouring row of the shared array when its capacity allows, a sort or copy rewrites the container in place — later queries see a different graph", fn.Name(), what, d)
					} else {
						r.Pass(rule, construct, x.Pos(), "the slice is built locally")
					}
				}
			case *ast.AssignStmt:
				for _, l := range x.Lhs {
					ix, ok := ast.Unparen(l).(*ast.IndexExpr)
					if !ok || !isSliceOfScalars(info.TypeOf(ix.X)) {
						continue
					}
					if _, isSel := ast.Unparen(ix.X).(*ast.SelectorExpr); isSel {
						continue // direct writes to own fields are the builders' business, judged elsewhere
					}
					construct := key(shortFuncName(fn) + ":element write " + exprString(r.Fset, ix.X))
					if d := a.sliceOrigin(fn, ix.X, 0, map[types.Object]bool{}); d != "" {
						r.Fail(rule, construct, x.Pos(), "%s assigns an element of a slice that aliases container storage (%s)", fn.Name(), d)
					} else {
						r.Pass(rule, construct, x.Pos(), "the slice is built locally")
					}
				}
			}
			return true
		})
	}
	_ = token.NoPos
}

// checkInPlaceReuse: `next := cur[:0]` recycles cur's backing array.  While a loop is still ranging over cur, that is
// only safe for the in-place filter idiom — at most one append to next per element read.  An append from inside a
// callback or a nested loop can run several times per element, overwrite elements of cur that have not been read yet,
// and so drop them from the traversal (nodes never expanded, distances one level too small).
func checkInPlaceReuse(r *Run, rule string, pkgs ...*packages.Package) {
	n := 0
	for _, p := range pkgs {
		info := p.TypesInfo
		for _, f := range p.Syntax {
			for _, d := range f.Decls {
				fd, ok := d.(*ast.FuncDecl)
				if !ok || fd.Body == nil {
					continue
				}
				// y := x[:0]
				type reuse struct {
					y, x types.Object
					pos  token.Pos
				}
				var reuses []reuse
				ast.Inspect(fd.Body, func(m ast.Node) bool {
					as, ok := m.(*ast.AssignStmt)
					if !ok || len(as.Lhs) != 1 || len(as.Rhs) != 1 {
						return true
					}
					se, ok := ast.Unparen(as.Rhs[0]).(*ast.SliceExpr)
					if !ok || se.Slice3 || se.Low != nil || se.High == nil {
						return true
					}
					if tv, has := info.Types[se.High]; !has || tv.Value == nil || tv.Value.ExactString() != "0" {
						return true
					}
					xid, ok1 := ast.Unparen(se.X).(*ast.Ident)
					yid, ok2 := as.Lhs[0].(*ast.Ident)
					if !ok1 || !ok2 {
						return true
					}
					yobj := info.Defs[yid]
					if yobj == nil {
						yobj = info.Uses[yid]
					}
					if xobj := info.Uses[xid]; xobj != nil && yobj != nil && xobj != yobj {
						reuses = append(reuses, reuse{yobj, xobj, as.Pos()})
					}
					return true
				})
				for _, ru := range reuses {
					// a range over x that contains appends to y
					ast.Inspect(fd.Body, func(m ast.Node) bool {
						rs, ok := m.(*ast.RangeStmt)
						if !ok {
							return true
						}
						rid, ok := ast.Unparen(rs.X).(*ast.Ident)
						if !ok || info.Uses[rid] != ru.x {
							return true
						}
						n++
						bad := token.NoPos
						var stack []ast.Node
						ast.Inspect(rs.Body, func(k ast.Node) bool {
							if k == nil {
								stack = stack[:len(stack)-1]
								return true
							}
							stack = append(stack, k)
							call, ok := k.(*ast.CallExpr)
							if !ok {
								return true
							}
							id, ok := ast.Unparen(call.Fun).(*ast.Ident)
							if !ok || id.Name != "append" || len(call.Args) == 0 {
								return true
							}
							if aid, ok := ast.Unparen(call.Args[0]).(*ast.Ident); !ok || info.Uses[aid] != ru.y {
								return true
							}
							for _, anc := range stack {
								switch anc.(type) {
								case *ast.FuncLit, *ast.ForStmt, *ast.RangeStmt:
									bad = call.Pos()
								}
							}
							if len(call.Args) > 2 || call.Ellipsis != token.NoPos {
								bad = call.Pos()
							}
							return true
						})
						construct := funcDeclName(fd) + ":" + ru.y.Name() + ":=" + ru.x.Name() + "[:0]"
						if bad != token.NoPos {
							r.Fail(rule, construct, bad, "%s recycles the backing array of %s while a loop still ranges over %s, and appends to it from a callback or nested loop: more than one append per element read overwrites elements that have not been visited yet", ru.y.Name(), ru.x.Name(), ru.x.Name())
						} else {
							r.Pass(rule, construct, ru.pos, "in-place filter: at most one append per element read")
						}
						return true
					})
				}
			}
		}
	}
	r.Note("%s: %d in-place reuse sites examined", rule, n)
}
