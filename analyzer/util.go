package main

import (
	"go/ast"
	"go/constant"
	"go/printer"
	"go/token"
	"go/types"
	"io"
)

func printerFprint(w io.Writer, fset *token.FileSet, n ast.Node) {
	cfg := printer.Config{Mode: printer.RawFormat}
	cfg.Fprint(w, fset, n)
}

// constStringArg reports whether e is a constant string expression with the given value.
func constStringArg(info *types.Info, e ast.Expr, want string) bool {
	tv, ok := info.Types[e]
	return ok && tv.Value != nil && tv.Value.Kind() == constant.String && constant.StringVal(tv.Value) == want
}

// findDoublingReplace returns a call strings.ReplaceAll(x, q, q+q) inside n (q a one-character quote), or nil.
func findDoublingReplace(info *types.Info, n ast.Node, quote string) *ast.CallExpr {
	var found *ast.CallExpr
	ast.Inspect(n, func(m ast.Node) bool {
		call, ok := m.(*ast.CallExpr)
		if !ok || found != nil || len(call.Args) != 3 {
			return true
		}
		if fn := calleeOf(info, call); fn != nil && funcFullName(fn) == "strings.ReplaceAll" &&
			constStringArg(info, call.Args[1], quote) && constStringArg(info, call.Args[2], quote+quote) {
			found = call
		}
		return true
	})
	return found
}

// comparesWithField returns the position of a comparison `x <op> y` inside n in which one operand is a selection of
// the given struct field (by object, not by name of the base variable).
func comparesWithField(info *types.Info, n ast.Node, field *types.Var, op token.Token) token.Pos {
	pos := token.NoPos
	ast.Inspect(n, func(m ast.Node) bool {
		be, ok := m.(*ast.BinaryExpr)
		if !ok || be.Op != op || pos != token.NoPos {
			return true
		}
		for _, side := range []ast.Expr{be.X, be.Y} {
			if sel, ok := ast.Unparen(side).(*ast.SelectorExpr); ok {
				if s := info.Selections[sel]; s != nil && s.Obj() == field {
					pos = be.Pos()
				}
			}
		}
		return true
	})
	return pos
}
