package main

import (
	"go/ast"
	"go/printer"
	"go/token"
	"io"
)

func printerFprint(w io.Writer, fset *token.FileSet, n ast.Node) {
	cfg := printer.Config{Mode: printer.RawFormat}
	cfg.Fprint(w, fset, n)
}
