package main

// C05-R6 counted-last-element: `n := len(x); … x[n-1]` reads the last element of a list that the function has just
// measured. The translator builds its lists from the query (traversal steps of a pattern part), and a builder-made
// query can leave one empty where the parser never would. Every such read must be under a test of the count: the
// sibling sites that read the same list in the same way all are.

import (
	"strings"

	"go/ast"
	"go/constant"
	"go/token"
	"go/types"
	"golang.org/x/tools/go/packages"
)

func checkCountedLastElement(r *Run, cg *CallGraph, reach map[*types.Func]*cgEdge) {
	const rule = "C05-R6-counted-last-element"
	n := 0
	for fn, fd := range cg.Decl {
		if fd.Body == nil || reach[fn] == nil {
			continue
		}
		p := cg.PkgOf[fn]
		info := p.TypesInfo
		// count variables: n := len(X)
		counted := map[types.Object]string{}
		record := func(lhs ast.Expr, rhs ast.Expr) {
			id, ok := lhs.(*ast.Ident)
			if !ok {
				return
			}
			call, ok := ast.Unparen(rhs).(*ast.CallExpr)
			if !ok || len(call.Args) != 1 {
				return
			}
			if f, ok := call.Fun.(*ast.Ident); ok && f.Name == "len" {
				if _, isBuiltin := info.Uses[f].(*types.Builtin); isBuiltin {
					counted[info.ObjectOf(id)] = exprString(r.Fset, call.Args[0])
				}
			}
		}
		ast.Inspect(fd.Body, func(x ast.Node) bool {
			switch t := x.(type) {
			case *ast.AssignStmt:
				if len(t.Lhs) == len(t.Rhs) {
					for i := range t.Lhs {
						record(t.Lhs[i], t.Rhs[i])
					}
				}
			case *ast.ValueSpec:
				for i, nm := range t.Names {
					if i < len(t.Values) {
						record(nm, t.Values[i])
					}
				}
			}
			return true
		})
		if len(counted) == 0 {
			continue
		}
		ast.Inspect(fd.Body, func(x ast.Node) bool {
			ix, ok := x.(*ast.IndexExpr)
			if !ok {
				return true
			}
			be, ok := ast.Unparen(ix.Index).(*ast.BinaryExpr)
			if !ok || be.Op != token.SUB {
				return true
			}
			id, ok := ast.Unparen(be.X).(*ast.Ident)
			if !ok {
				return true
			}
			of, isCount := counted[info.Uses[id]]
			tv, has := info.Types[be.Y]
			if !isCount || !has || tv.Value == nil || tv.Value.Kind() != constant.Int || of != exprString(r.Fset, ix.X) {
				return true
			}
			c, _ := constant.Int64Val(tv.Value)
			n++
			construct := shortFuncName(fn) + ":" + exprString(r.Fset, ix)
			guarded := lowerBounded(info, controlConds(fd.Body, ix), info.Uses[id], c) || lenGuarded(r, info, fd, ix, of)
			if !guarded {
				// an earlier `if n == 0 { return … }` (or n < c) in the function
				ast.Inspect(fd.Body, func(y ast.Node) bool {
					ifs, ok := y.(*ast.IfStmt)
					if !ok || ifs.End() > ix.Pos() || len(ifs.Body.List) == 0 {
						return true
					}
					if _, leaves := ifs.Body.List[len(ifs.Body.List)-1].(*ast.ReturnStmt); !leaves {
						return true
					}
					if lowerBounded(info, []condLit{{ifs.Cond, true}}, info.Uses[id], c) {
						guarded = true
					}
					return true
				})
			}
			if guarded {
				r.Pass(rule, construct, ix.Pos(), "read under a test of %s", id.Name)
			} else {
				r.Fail(rule, construct, ix.Pos(), "%s is read with %s = len(%s) never tested: when the list is empty (a builder-made query can make it so) translation panics with index out of range [-%d] instead of returning an error", exprString(r.Fset, ix), id.Name, of, c)
			}
			return true
		})
	}
	if n < 3 {
		r.Undecide("C05-R6: fewer than three counted last-element reads on the translation path (%d)", n)
	}
}

// checkValueContainersUnwritten (R3, nested values): NewTranslator copies the top level of the parameter map; the
// values themselves (nested maps and lists) stay the caller's. Containers of untyped values — map[string]any, []any —
// are how those values travel through the translator and the pgsql value conversion; the translator's own tables have
// concrete element types. No function on the translation path may assign an element of, or delete from, a parameter of
// such a type.
func checkValueContainersUnwritten(r *Run, cg *CallGraph, reach map[*types.Func]*cgEdge) {
	const rule = "C05-R3-inputs-unchanged"
	isValueContainer := func(t types.Type) bool {
		isAny := func(e types.Type) bool {
			i, ok := e.Underlying().(*types.Interface)
			return ok && i.NumMethods() == 0
		}
		switch u := t.Underlying().(type) {
		case *types.Map:
			return isAny(u.Elem())
		case *types.Slice:
			return isAny(u.Elem())
		}
		return false
	}
	n := 0
	for fn, fd := range cg.Decl {
		if fd.Body == nil || reach[fn] == nil || fd.Type.Params == nil {
			continue
		}
		info := cg.PkgOf[fn].TypesInfo
		params := map[types.Object]bool{}
		for _, pl := range fd.Type.Params.List {
			for _, nm := range pl.Names {
				if obj := info.Defs[nm]; obj != nil && isValueContainer(obj.Type()) {
					params[obj] = true
				}
			}
		}
		if len(params) == 0 {
			continue
		}
		n++
		var bad token.Pos
		what := ""
		ast.Inspect(fd.Body, func(x ast.Node) bool {
			switch t := x.(type) {
			case *ast.AssignStmt:
				for _, lhs := range t.Lhs {
					if ix, ok := ast.Unparen(lhs).(*ast.IndexExpr); ok {
						if id, ok := ast.Unparen(ix.X).(*ast.Ident); ok && params[info.Uses[id]] && bad == token.NoPos {
							bad, what = t.Pos(), "assigns "+exprString(r.Fset, lhs)
						}
					}
				}
			case *ast.CallExpr:
				if id, ok := t.Fun.(*ast.Ident); ok && id.Name == "delete" && len(t.Args) == 2 {
					if a, ok := ast.Unparen(t.Args[0]).(*ast.Ident); ok && params[info.Uses[a]] && bad == token.NoPos {
						bad, what = t.Pos(), "deletes from "+a.Name
					}
				}
			}
			return true
		})
		// a local that starts as the parameter and is written after a copy was (or was not) made
		if bad == token.NoPos {
			ast.Inspect(fd.Body, func(x ast.Node) bool {
				var lhsList, rhsList []ast.Expr
				switch t := x.(type) {
				case *ast.AssignStmt:
					lhsList, rhsList = t.Lhs, t.Rhs
				case *ast.ValueSpec:
					for _, nm := range t.Names {
						lhsList = append(lhsList, nm)
					}
					rhsList = t.Values
				default:
					return true
				}
				if len(lhsList) != len(rhsList) || bad != token.NoPos {
					return true
				}
				for i, rhs := range rhsList {
					rid, ok := ast.Unparen(rhs).(*ast.Ident)
					if !ok || !params[info.Uses[rid]] {
						continue
					}
					lid, ok := ast.Unparen(lhsList[i]).(*ast.Ident)
					if !ok || lid.Name == "_" {
						continue
					}
					local := info.ObjectOf(lid)
					if local == nil || local == info.Uses[rid] {
						continue
					}
					if ws := cowWrites(info, fd, info.Uses[rid], local); len(ws) > 0 {
						bad, what = ws[0], "writes an element of "+lid.Name+" on a path where it still is "+rid.Name+" (no copy was made on that path)"
					}
				}
				return true
			})
		}
		construct := shortFuncName(fn) + ":value-container"
		if bad != token.NoPos {
			r.Fail(rule, construct, bad, "%s %s, a container of untyped values it was handed: on the translation path that is a nested value of the caller's parameter map (NewTranslator copies the top level only), so translation changes its input and two translations sharing the value write one map concurrently", shortFuncName(fn), what)
		} else {
			r.Pass(rule, construct, fd.Pos(), "never writes the untyped container it is handed")
		}
	}
	if n == 0 {
		r.Undecide("C05-R3: no function on the translation path takes a container of untyped values")
	}
}

// lenGuarded: the read is under `len(X) > 0` (or != 0), or after `if len(X) == 0 { return … }`, for the same X.
func lenGuarded(r *Run, info *types.Info, fd *ast.FuncDecl, at ast.Node, of string) bool {
	isLenOf := func(e ast.Expr) bool {
		call, ok := ast.Unparen(e).(*ast.CallExpr)
		if !ok || len(call.Args) != 1 {
			return false
		}
		f, ok := call.Fun.(*ast.Ident)
		return ok && f.Name == "len" && exprString(r.Fset, call.Args[0]) == of
	}
	positive := func(e ast.Expr, neg bool) bool {
		be, ok := ast.Unparen(e).(*ast.BinaryExpr)
		if !ok || !isLenOf(be.X) {
			return false
		}
		tv, has := info.Types[be.Y]
		if !has || tv.Value == nil || tv.Value.String() != "0" {
			return false
		}
		if neg {
			return be.Op == token.EQL
		}
		return be.Op == token.GTR || be.Op == token.NEQ
	}
	for _, l := range controlConds(fd.Body, at) {
		if positive(l.Expr, l.Neg) {
			return true
		}
	}
	found := false
	ast.Inspect(fd.Body, func(y ast.Node) bool {
		ifs, ok := y.(*ast.IfStmt)
		if !ok || ifs.End() > at.Pos() || len(ifs.Body.List) == 0 {
			return true
		}
		if _, leaves := ifs.Body.List[len(ifs.Body.List)-1].(*ast.ReturnStmt); leaves && positive(ifs.Cond, true) {
			found = true
		}
		return true
	})
	return found
}

// checkConstantIndexGuarded (R7): `x[0]` on a slice reads an element that an empty list does not have. Parameter values
// reach the translator as slices of any length — `where n.name in $names` with names = []any{} is a legitimate call —
// so on the translation path every constant index into a slice that is a parameter of the function must be under a test
// of the slice's length. A nil test does not do: an empty, non-nil slice passes it.
func checkConstantIndexGuarded(r *Run, cg *CallGraph, reach map[*types.Func]*cgEdge) {
	const rule = "C05-R7-constant-index-guarded"
	n := 0
	for fn, fd := range cg.Decl {
		if fd.Body == nil || reach[fn] == nil || fd.Type.Params == nil {
			continue
		}
		info := cg.PkgOf[fn].TypesInfo
		params := map[types.Object]bool{}
		for _, pl := range fd.Type.Params.List {
			for _, nm := range pl.Names {
				if obj := info.Defs[nm]; obj != nil {
					// slices that carry values of the caller: elements of untyped or basic type (the translator's own
					// lists hold pointers to its model types and are built with the right shape)
					if sl, isSlice := obj.Type().Underlying().(*types.Slice); isSlice {
						switch e := sl.Elem().Underlying().(type) {
						case *types.Interface:
							if e.NumMethods() == 0 {
								params[obj] = true
							}
						case *types.Basic:
							if _, named := obj.Type().(*types.Named); !named {
								params[obj] = true
							}
						}
					}
				}
			}
		}
		if len(params) == 0 {
			continue
		}
		ast.Inspect(fd.Body, func(x ast.Node) bool {
			ix, ok := x.(*ast.IndexExpr)
			if !ok {
				return true
			}
			id, ok := ast.Unparen(ix.X).(*ast.Ident)
			if !ok || !params[info.Uses[id]] {
				return true
			}
			tv, has := info.Types[ix.Index]
			if !has || tv.Value == nil || tv.Value.Kind() != constant.Int {
				return true
			}
			c, _ := constant.Int64Val(tv.Value)
			n++
			construct := shortFuncName(fn) + ":" + exprString(r.Fset, ix)
			if lenAtLeast(r, info, fd, ix, id.Name, c+1) {
				r.Pass(rule, construct, ix.Pos(), "read under a test of len(%s)", id.Name)
			} else if callersEnsureLen(r, cg, fn, fd, info.Uses[id], c+1) {
				r.Pass(rule, construct, ix.Pos(), "every caller of the unexported %s calls it under a test of the length of the argument", fn.Name())
			} else {
				r.Fail(rule, construct, ix.Pos(), "%s is read without a test that %s has at least %d element(s) (a nil test lets an empty slice through): an empty list value — `in $names` with names = []any{} — makes translation panic with index out of range instead of returning a result or an error", exprString(r.Fset, ix), id.Name, c+1)
			}
			return true
		})
	}
	if n == 0 {
		r.Undecide("C05-R7: no constant index into a slice parameter on the translation path")
	}
}

// lenAtLeast: the node is under a condition that implies len(name) >= need, or after an if that leaves the function
// (or the loop) when len(name) < need; a switch on len(name) with a matching case counts too.
func lenAtLeast(r *Run, info *types.Info, fd *ast.FuncDecl, at ast.Node, name string, need int64) bool {
	isLen := func(e ast.Expr) bool {
		call, ok := ast.Unparen(e).(*ast.CallExpr)
		if !ok || len(call.Args) != 1 {
			return false
		}
		f, ok := call.Fun.(*ast.Ident)
		return ok && f.Name == "len" && exprString(r.Fset, call.Args[0]) == name
	}
	constOf := func(e ast.Expr) (int64, bool) {
		tv, has := info.Types[e]
		if !has || tv.Value == nil || tv.Value.Kind() != constant.Int {
			return 0, false
		}
		return constant.Int64Val(tv.Value)
	}
	var implies func(e ast.Expr, neg bool) bool
	implies = func(e ast.Expr, neg bool) bool {
		e = ast.Unparen(e)
		switch t := e.(type) {
		case *ast.UnaryExpr:
			if t.Op == token.NOT {
				return implies(t.X, !neg)
			}
		case *ast.BinaryExpr:
			if t.Op == token.LAND && !neg {
				return implies(t.X, false) || implies(t.Y, false)
			}
			if t.Op == token.LOR && neg {
				return implies(t.X, true) || implies(t.Y, true)
			}
			op, x, y := t.Op, t.X, t.Y
			if !isLen(x) && isLen(y) {
				x, y = y, x
				switch op {
				case token.LSS:
					op = token.GTR
				case token.LEQ:
					op = token.GEQ
				case token.GTR:
					op = token.LSS
				case token.GEQ:
					op = token.LEQ
				}
			}
			if !isLen(x) {
				return false
			}
			k, ok := constOf(y)
			if !ok {
				return false
			}
			if neg {
				switch op {
				case token.EQL:
					op = token.NEQ
				case token.NEQ:
					op = token.EQL
				case token.LSS:
					op = token.GEQ
				case token.LEQ:
					op = token.GTR
				case token.GTR:
					op = token.LEQ
				case token.GEQ:
					op = token.LSS
				}
			}
			switch op {
			case token.GTR:
				return k+1 >= need
			case token.GEQ:
				return k >= need
			case token.EQL:
				return k >= need
			case token.NEQ:
				return k == 0 && need == 1
			}
		}
		return false
	}
	for _, l := range controlConds(fd.Body, at) {
		if implies(l.Expr, l.Neg) {
			return true
		}
	}
	// short-circuit order: `len(x) > 0 && x[0] …` and `len(x) == 0 || x[0] …`
	shortCircuit := false
	var stack []ast.Node
	ast.Inspect(fd.Body, func(y ast.Node) bool {
		if y == nil {
			stack = stack[:len(stack)-1]
			return true
		}
		stack = append(stack, y)
		if y == at {
			for _, a := range stack {
				if be, ok := a.(*ast.BinaryExpr); ok && be.Y.Pos() <= at.Pos() && at.End() <= be.Y.End() {
					if (be.Op == token.LAND && implies(be.X, false)) || (be.Op == token.LOR && implies(be.X, true)) {
						shortCircuit = true
					}
				}
			}
		}
		return true
	})
	if shortCircuit {
		return true
	}
	found := false
	ast.Inspect(fd.Body, func(y ast.Node) bool {
		switch t := y.(type) {
		case *ast.IfStmt:
			if t.End() > at.Pos() || len(t.Body.List) == 0 {
				return true
			}
			switch t.Body.List[len(t.Body.List)-1].(type) {
			case *ast.ReturnStmt, *ast.BranchStmt:
				if implies(t.Cond, true) {
					found = true
				}
			}
		case *ast.CaseClause:
			// switch len(x) { case 2: … x[1] … }
			if t.Pos() <= at.Pos() && at.End() <= t.End() {
				for _, e := range t.List {
					if k, ok := constOf(e); ok && k >= need {
						found = true
					}
				}
			}
		}
		return true
	})
	return found
}

// checkLockFreeMappersReadOnly (R8): many translations run against one kind mapper. A mapper type that has no mutex
// can only be shared if its lookup methods (Map…) do not write its state — no field assignment, no map element write,
// directly or through another method of the receiver. A memo or a counter written on the lookup path is a data race,
// and a translation can be handed the kind IDs another translation asked for.
func checkLockFreeMappersReadOnly(r *Run, pkgs ...*packages.Package) {
	const rule = "C05-R8-lock-free-mapper-read-only"
	n := 0
	for _, p := range pkgs {
		if p == nil {
			continue
		}
		info := p.TypesInfo
		for _, name := range p.Types.Scope().Names() {
			tn, ok := p.Types.Scope().Lookup(name).(*types.TypeName)
			if !ok || !strings.Contains(name, "KindMapper") {
				continue
			}
			st, ok := tn.Type().Underlying().(*types.Struct)
			if !ok {
				continue
			}
			hasMutex := false
			for i := 0; i < st.NumFields(); i++ {
				if is, _ := isMutexType(st.Field(i).Type()); is {
					hasMutex = true
				}
			}
			if hasMutex {
				continue
			}
			methods := methodsOfType(p, name)
			// writers: methods that assign a receiver field or an element of a receiver map/slice
			writes := map[string]token.Pos{}
			for mname, fd := range methods {
				recv := recvObj(p, fd)
				ast.Inspect(fd.Body, func(x ast.Node) bool {
					switch t := x.(type) {
					case *ast.AssignStmt:
						for _, lhs := range t.Lhs {
							e := ast.Unparen(lhs)
							if ix, ok := e.(*ast.IndexExpr); ok {
								e = ast.Unparen(ix.X)
							}
							if sel, ok := e.(*ast.SelectorExpr); ok {
								if id, ok := ast.Unparen(sel.X).(*ast.Ident); ok && info.Uses[id] == recv {
									if _, had := writes[mname]; !had {
										writes[mname] = t.Pos()
									}
								}
							}
						}
					case *ast.IncDecStmt:
						if sel, ok := ast.Unparen(t.X).(*ast.SelectorExpr); ok {
							if id, ok := ast.Unparen(sel.X).(*ast.Ident); ok && info.Uses[id] == recv {
								if _, had := writes[mname]; !had {
									writes[mname] = t.Pos()
								}
							}
						}
					}
					return true
				})
			}
			// closure over calls to other methods of the receiver
			for changed := true; changed; {
				changed = false
				for mname, fd := range methods {
					if _, w := writes[mname]; w {
						continue
					}
					recv := recvObj(p, fd)
					ast.Inspect(fd.Body, func(x ast.Node) bool {
						if call, ok := x.(*ast.CallExpr); ok {
							if sel, ok := call.Fun.(*ast.SelectorExpr); ok {
								if id, ok := ast.Unparen(sel.X).(*ast.Ident); ok && info.Uses[id] == recv {
									if pos, w := writes[sel.Sel.Name]; w {
										writes[mname] = pos
										changed = true
									}
								}
							}
						}
						return true
					})
				}
			}
			for mname, fd := range methods {
				if !strings.HasPrefix(mname, "Map") {
					continue
				}
				n++
				construct := name + "." + mname
				if pos, w := writes[mname]; w {
					r.Fail(rule, construct, pos, "%s.%s writes the mapper's state and %s has no lock: translations that share the mapper race on it, and one can be handed the kind IDs another one resolved", name, mname, name)
				} else {
					r.Pass(rule, construct, fd.Pos(), "a lookup that writes nothing")
				}
			}
		}
	}
	if n == 0 {
		r.Undecide("C05-R8: no lock-free kind mapper with Map… methods found")
	}
}

// callersEnsureLen: fn is unexported, and each static call of fn in its package passes, for the parameter param, an
// expression whose length is known to be at least need at the call.
func callersEnsureLen(r *Run, cg *CallGraph, fn *types.Func, fd *ast.FuncDecl, param types.Object, need int64) bool {
	if fn.Exported() {
		return false
	}
	p := cg.PkgOf[fn]
	if p == nil {
		return false
	}
	info := p.TypesInfo
	idx := paramIndexOf(info, fd, param)
	if idx < 0 {
		return false
	}
	callers, all := 0, true
	for _, f := range p.Syntax {
		for _, d := range f.Decls {
			caller, ok := d.(*ast.FuncDecl)
			if !ok || caller.Body == nil {
				continue
			}
			ast.Inspect(caller.Body, func(n ast.Node) bool {
				switch x := n.(type) {
				case *ast.CallExpr:
					if calleeOf(info, x) != fn || idx >= len(x.Args) {
						return true
					}
					callers++
					if !lenAtLeast(r, info, caller, x, exprString(r.Fset, x.Args[idx]), need) {
						all = false
					}
				case *ast.Ident:
					// the function used as a value: its callers are not known
					if info.Uses[x] == fn {
						if !isCallFun(caller.Body, x) {
							all = false
						}
					}
				}
				return true
			})
		}
	}
	return callers > 0 && all
}

// isCallFun: id is the function position of a call expression in body.
func isCallFun(body ast.Node, id *ast.Ident) bool {
	found := false
	ast.Inspect(body, func(n ast.Node) bool {
		if call, ok := n.(*ast.CallExpr); ok {
			switch f := ast.Unparen(call.Fun).(type) {
			case *ast.Ident:
				if f == id {
					found = true
				}
			case *ast.SelectorExpr:
				if f.Sel == id {
					found = true
				}
			}
		}
		return !found
	})
	return found
}
