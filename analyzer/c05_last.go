package main

// C05-R6 counted-last-element: `n := len(x); … x[n-1]` reads the last element of a list that the function has just
// measured. The translator builds its lists from the query (traversal steps of a pattern part), and a builder-made
// query can leave one empty where the parser never would. Every such read must be under a test of the count: the
// sibling sites that read the same list in the same way all are.

import (
	"go/ast"
	"go/constant"
	"go/token"
	"go/types"
)

func checkCountedLastElement(r *Run, cg *CallGraph, reach map[*types.Func]*cgEdge) {
	const rule = "C05-R6-counted-last-element"
	n := 0
	for fn, fd := range cg.Decl {
		if fd.Body == nil || reach[fn] == nil {
			continue
		}
		p := cg.PkgOf[fn]
		info := p.TypesInfo
		// count variables: n := len(X)
		counted := map[types.Object]string{}
		record := func(lhs ast.Expr, rhs ast.Expr) {
			id, ok := lhs.(*ast.Ident)
			if !ok {
				return
			}
			call, ok := ast.Unparen(rhs).(*ast.CallExpr)
			if !ok || len(call.Args) != 1 {
				return
			}
			if f, ok := call.Fun.(*ast.Ident); ok && f.Name == "len" {
				if _, isBuiltin := info.Uses[f].(*types.Builtin); isBuiltin {
					counted[info.ObjectOf(id)] = exprString(r.Fset, call.Args[0])
				}
			}
		}
		ast.Inspect(fd.Body, func(x ast.Node) bool {
			switch t := x.(type) {
			case *ast.AssignStmt:
				if len(t.Lhs) == len(t.Rhs) {
					for i := range t.Lhs {
						record(t.Lhs[i], t.Rhs[i])
					}
				}
			case *ast.ValueSpec:
				for i, nm := range t.Names {
					if i < len(t.Values) {
						record(nm, t.Values[i])
					}
				}
			}
			return true
		})
		if len(counted) == 0 {
			continue
		}
		ast.Inspect(fd.Body, func(x ast.Node) bool {
			ix, ok := x.(*ast.IndexExpr)
			if !ok {
				return true
			}
			be, ok := ast.Unparen(ix.Index).(*ast.BinaryExpr)
			if !ok || be.Op != token.SUB {
				return true
			}
			id, ok := ast.Unparen(be.X).(*ast.Ident)
			if !ok {
				return true
			}
			of, isCount := counted[info.Uses[id]]
			tv, has := info.Types[be.Y]
			if !isCount || !has || tv.Value == nil || tv.Value.Kind() != constant.Int || of != exprString(r.Fset, ix.X) {
				return true
			}
			c, _ := constant.Int64Val(tv.Value)
			n++
			construct := shortFuncName(fn) + ":" + exprString(r.Fset, ix)
			guarded := lowerBounded(info, pathConditions(fd.Body, ix), info.Uses[id], c) || lenGuarded(r, info, fd, ix, of)
			if !guarded {
				// an earlier `if n == 0 { return … }` (or n < c) in the function
				ast.Inspect(fd.Body, func(y ast.Node) bool {
					ifs, ok := y.(*ast.IfStmt)
					if !ok || ifs.End() > ix.Pos() || len(ifs.Body.List) == 0 {
						return true
					}
					if _, leaves := ifs.Body.List[len(ifs.Body.List)-1].(*ast.ReturnStmt); !leaves {
						return true
					}
					if lowerBounded(info, []condLit{{ifs.Cond, true}}, info.Uses[id], c) {
						guarded = true
					}
					return true
				})
			}
			if guarded {
				r.Pass(rule, construct, ix.Pos(), "read under a test of %s", id.Name)
			} else {
				r.Fail(rule, construct, ix.Pos(), "%s is read with %s = len(%s) never tested: when the list is empty (a builder-made query can make it so) translation panics with index out of range [-%d] instead of returning an error", exprString(r.Fset, ix), id.Name, of, c)
			}
			return true
		})
	}
	if n < 3 {
		r.Undecide("C05-R6: fewer than three counted last-element reads on the translation path (%d)", n)
	}
}

// checkValueContainersUnwritten (R3, nested values): NewTranslator copies the top level of the parameter map; the
// values themselves (nested maps and lists) stay the caller's. Containers of untyped values — map[string]any, []any —
// are how those values travel through the translator and the pgsql value conversion; the translator's own tables have
// concrete element types. No function on the translation path may assign an element of, or delete from, a parameter of
// such a type.
func checkValueContainersUnwritten(r *Run, cg *CallGraph, reach map[*types.Func]*cgEdge) {
	const rule = "C05-R3-inputs-unchanged"
	isValueContainer := func(t types.Type) bool {
		isAny := func(e types.Type) bool {
			i, ok := e.Underlying().(*types.Interface)
			return ok && i.NumMethods() == 0
		}
		switch u := t.Underlying().(type) {
		case *types.Map:
			return isAny(u.Elem())
		case *types.Slice:
			return isAny(u.Elem())
		}
		return false
	}
	n := 0
	for fn, fd := range cg.Decl {
		if fd.Body == nil || reach[fn] == nil || fd.Type.Params == nil {
			continue
		}
		info := cg.PkgOf[fn].TypesInfo
		params := map[types.Object]bool{}
		for _, pl := range fd.Type.Params.List {
			for _, nm := range pl.Names {
				if obj := info.Defs[nm]; obj != nil && isValueContainer(obj.Type()) {
					params[obj] = true
				}
			}
		}
		if len(params) == 0 {
			continue
		}
		n++
		var bad token.Pos
		what := ""
		ast.Inspect(fd.Body, func(x ast.Node) bool {
			switch t := x.(type) {
			case *ast.AssignStmt:
				for _, lhs := range t.Lhs {
					if ix, ok := ast.Unparen(lhs).(*ast.IndexExpr); ok {
						if id, ok := ast.Unparen(ix.X).(*ast.Ident); ok && params[info.Uses[id]] && bad == token.NoPos {
							bad, what = t.Pos(), "assigns "+exprString(r.Fset, lhs)
						}
					}
				}
			case *ast.CallExpr:
				if id, ok := t.Fun.(*ast.Ident); ok && id.Name == "delete" && len(t.Args) == 2 {
					if a, ok := ast.Unparen(t.Args[0]).(*ast.Ident); ok && params[info.Uses[a]] && bad == token.NoPos {
						bad, what = t.Pos(), "deletes from "+a.Name
					}
				}
			}
			return true
		})
		construct := shortFuncName(fn) + ":value-container"
		if bad != token.NoPos {
			r.Fail(rule, construct, bad, "%s %s, a container of untyped values it was handed: on the translation path that is a nested value of the caller's parameter map (NewTranslator copies the top level only), so translation changes its input and two translations sharing the value write one map concurrently", shortFuncName(fn), what)
		} else {
			r.Pass(rule, construct, fd.Pos(), "never writes the untyped container it is handed")
		}
	}
	if n == 0 {
		r.Undecide("C05-R3: no function on the translation path takes a container of untyped values")
	}
}

// lenGuarded: the read is under `len(X) > 0` (or != 0), or after `if len(X) == 0 { return … }`, for the same X.
func lenGuarded(r *Run, info *types.Info, fd *ast.FuncDecl, at ast.Node, of string) bool {
	isLenOf := func(e ast.Expr) bool {
		call, ok := ast.Unparen(e).(*ast.CallExpr)
		if !ok || len(call.Args) != 1 {
			return false
		}
		f, ok := call.Fun.(*ast.Ident)
		return ok && f.Name == "len" && exprString(r.Fset, call.Args[0]) == of
	}
	positive := func(e ast.Expr, neg bool) bool {
		be, ok := ast.Unparen(e).(*ast.BinaryExpr)
		if !ok || !isLenOf(be.X) {
			return false
		}
		tv, has := info.Types[be.Y]
		if !has || tv.Value == nil || tv.Value.String() != "0" {
			return false
		}
		if neg {
			return be.Op == token.EQL
		}
		return be.Op == token.GTR || be.Op == token.NEQ
	}
	for _, l := range pathConditions(fd.Body, at) {
		if positive(l.Expr, l.Neg) {
			return true
		}
	}
	found := false
	ast.Inspect(fd.Body, func(y ast.Node) bool {
		ifs, ok := y.(*ast.IfStmt)
		if !ok || ifs.End() > at.Pos() || len(ifs.Body.List) == 0 {
			return true
		}
		if _, leaves := ifs.Body.List[len(ifs.Body.List)-1].(*ast.ReturnStmt); leaves && positive(ifs.Cond, true) {
			found = true
		}
		return true
	})
	return found
}
