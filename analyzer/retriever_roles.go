package main

// The retriever's private functions that the C18–C20 rules speak about, found by what they do — the file names they
// handle (constant *values*, which are behaviour: "manifest.json", ".retriever-checkpoint.json"), the standard-library
// calls they make, the exported types in their signatures — so that a rename does not lose them. roleName(today's
// name) returns the name the function has in the tree being analysed; when a role cannot be resolved to exactly one
// function the name is returned unchanged and the rules behave as before.

import (
	"fmt"
	"go/ast"
	"go/types"
	"os"
	"strings"

	"golang.org/x/tools/go/packages"
)

type retrieverRoles struct {
	p     *packages.Package
	names map[string]string
}

var retrieverRolesCache = map[*packages.Package]*retrieverRoles{}

func rolesOfRetriever(p *packages.Package) *retrieverRoles {
	if rr, ok := retrieverRolesCache[p]; ok {
		return rr
	}
	rr := &retrieverRoles{p: p, names: map[string]string{}}
	retrieverRolesCache[p] = rr
	info := p.TypesInfo
	const manifestFile, checkpointFile = "manifest.json", ".retriever-checkpoint.json"
	callsStd := func(n ast.Node, fulls ...string) bool {
		found := false
		ast.Inspect(n, func(m ast.Node) bool {
			if c, ok := m.(*ast.CallExpr); ok {
				if f := calleeOf(info, c); f != nil && f.Pkg() != nil && f.Pkg() != p.Types {
					full := funcFullName(f)
					for _, want := range fulls {
						if full == want {
							found = true
						}
					}
				}
			}
			return !found
		})
		return found
	}
	sigOf := func(fd *ast.FuncDecl) *types.Signature {
		if fn, ok := info.Defs[fd.Name].(*types.Func); ok {
			return fn.Type().(*types.Signature)
		}
		return nil
	}
	resultNamed := func(fd *ast.FuncDecl, i int) string {
		sig := sigOf(fd)
		if sig == nil || sig.Results().Len() <= i {
			return ""
		}
		return namedName(sig.Results().At(i).Type())
	}
	paramNamed := func(fd *ast.FuncDecl, name string) bool {
		sig := sigOf(fd)
		if sig == nil {
			return false
		}
		for i := 0; i < sig.Params().Len(); i++ {
			if namedName(sig.Params().At(i).Type()) == name {
				return true
			}
		}
		return false
	}
	onlyErrorResult := func(fd *ast.FuncDecl) bool {
		sig := sigOf(fd)
		return sig != nil && sig.Results().Len() == 1 && types.Identical(sig.Results().At(0).Type(), types.Universe.Lookup("error").Type())
	}
	resolve := func(today string, pred func(fd *ast.FuncDecl) bool) {
		cands := declsWhere(p, func(fd *ast.FuncDecl) bool { return fd.Recv == nil && pred(fd) })
		if len(cands) == 1 {
			rr.names[today] = cands[0].Name.Name
		}
	}
	// checkpoint struct type: first result of the function that reads the checkpoint file
	resolve("writeManifest", func(fd *ast.FuncDecl) bool {
		return hasStringConst(info, fd.Body, manifestFile) && callsStd(fd.Body, "os.Rename") && onlyErrorResult(fd)
	})
	resolve("writeDumpCheckpoint", func(fd *ast.FuncDecl) bool {
		if !onlyErrorResult(fd) {
			return false
		}
		mentions, renames := false, false
		for _, b := range bodyWithHelpers(p, fd) {
			if hasStringConst(info, b, checkpointFile) {
				mentions = true
			}
			if callsStd(b, "os.Rename") {
				renames = true
			}
		}
		// the writer is the one that is handed the checkpoint value (a struct of the package), not a path-only helper
		sig := sigOf(fd)
		takesStruct := false
		for i := 0; sig != nil && i < sig.Params().Len(); i++ {
			if n := namedOf(sig.Params().At(i).Type()); n != nil && n.Obj().Pkg() == p.Types {
				if _, ok := n.Underlying().(*types.Struct); ok {
					takesStruct = true
				}
			}
		}
		return mentions && renames && takesStruct
	})
	resolve("removeDumpCheckpoint", func(fd *ast.FuncDecl) bool {
		sig := sigOf(fd)
		hasLoop := false
		ast.Inspect(fd.Body, func(n ast.Node) bool {
			switch n.(type) {
			case *ast.RangeStmt, *ast.ForStmt:
				hasLoop = true
			}
			return true
		})
		return onlyErrorResult(fd) && sig.Params().Len() == 1 && !hasLoop && hasStringConst(info, fd.Body, checkpointFile) && callsStd(fd.Body, "os.Remove") && !callsStd(fd.Body, "os.Rename", "os.WriteFile", "os.ReadFile", "os.Open")
	})
	resolve("readDumpCheckpoint", func(fd *ast.FuncDecl) bool {
		sig := sigOf(fd)
		if sig == nil || sig.Results().Len() != 2 || sig.Params().Len() != 1 {
			return false
		}
		return hasStringConst(info, fd.Body, checkpointFile) && callsStd(fd.Body, "os.ReadFile", "os.Open")
	})
	if reader := rr.decl("readDumpCheckpoint"); reader != nil {
		readerFn, _ := info.Defs[reader.Name].(*types.Func)
		resolve("loadCompatibleDumpCheckpoint", func(fd *ast.FuncDecl) bool {
			if fd == reader || resultNamed(fd, 0) != resultNamed(reader, 0) {
				return false
			}
			calls := false
			ast.Inspect(fd.Body, func(n ast.Node) bool {
				if c, ok := n.(*ast.CallExpr); ok {
					if f := calleeOf(info, c); f != nil && f.Origin() == readerFn {
						calls = true
					}
				}
				return !calls
			})
			return calls
		})
	}
	resolve("closeFragmentWriter", func(fd *ast.FuncDecl) bool {
		sig := sigOf(fd)
		if sig == nil || sig.Results().Len() != 2 || resultNamed(fd, 0) != "FileManifest" || sig.Params().Len() == 0 {
			return false
		}
		_, isPtr := sig.Params().At(0).Type().(*types.Pointer)
		return isPtr && paramNamed(fd, "Phase")
	})
	resolve("dumpGraph", func(fd *ast.FuncDecl) bool {
		return resultNamed(fd, 0) == "GraphManifest" && paramNamed(fd, "GraphTarget") && paramNamed(fd, "DumpOptions")
	})
	resolve("newDumpCheckpointIdentity", func(fd *ast.FuncDecl) bool {
		sig := sigOf(fd)
		return sig != nil && sig.Results().Len() == 2 && paramNamed(fd, "DumpOptions") && paramNamed(fd, "GraphTarget") == false && strings.Contains(sig.Params().String(), "[]") && resultNamed(fd, 0) != "" && !ast.IsExported(resultNamed(fd, 0)) && callsStd(fd.Body, "encoding/json.Marshal", "crypto/sha256.Sum256") || false
	})
	resolve("sanitizeArchivePath", func(fd *ast.FuncDecl) bool {
		sig := sigOf(fd)
		if sig == nil || sig.Params().Len() != 1 || sig.Results().Len() != 2 {
			return false
		}
		if b, ok := sig.Params().At(0).Type().Underlying().(*types.Basic); !ok || b.Kind() != types.String {
			return false
		}
		return callsStd(fd.Body, "path.Clean") && hasStringConst(info, fd.Body, "..")
	})
	resolve("unpackTarFileTracked", func(fd *ast.FuncDecl) bool {
		sig := sigOf(fd)
		if sig == nil || sig.Params().Len() == 0 || sig.Results().Len() != 2 {
			return false
		}
		if n := namedOf(sig.Params().At(0).Type()); n == nil || n.Obj().Name() != "Reader" || n.Obj().Pkg() == nil || n.Obj().Pkg().Path() != "io" {
			return false
		}
		return callsStd(fd.Body, "os.OpenFile") && callsStd(fd.Body, "os.MkdirAll")
	})
	resolve("unpackTarWithOptions", func(fd *ast.FuncDecl) bool {
		return callsStd(fd.Body, "archive/tar.NewReader") && paramNamed(fd, "ArchiveOptions")
	})
	resolve("validateExtractedCollection", func(fd *ast.FuncDecl) bool {
		sig := sigOf(fd)
		if sig == nil || sig.Results().Len() != 2 || resultNamed(fd, 0) != "Manifest" || sig.Params().Len() != 2 {
			return false
		}
		_, isMap := sig.Params().At(1).Type().Underlying().(*types.Map)
		return isMap
	})
	resolve("unpackCollectionTarWithOptions", func(fd *ast.FuncDecl) bool {
		// the function that unpacks into a staging area and then validates what was extracted: it is handed a reader and
		// the archive options and calls the collection validator
		if !onlyErrorResult(fd) || !paramNamed(fd, "ArchiveOptions") {
			return false
		}
		validator := rr.name("validateExtractedCollection")
		calls := false
		ast.Inspect(fd.Body, func(n ast.Node) bool {
			if c, ok := n.(*ast.CallExpr); ok {
				if f := calleeOf(info, c); f != nil && f.Pkg() == p.Types && f.Name() == validator {
					calls = true
				}
			}
			return !calls
		})
		return calls
	})
	resolve("verifyCollectionFragments", func(fd *ast.FuncDecl) bool {
		sig := sigOf(fd)
		if !onlyErrorResult(fd) || sig.Params().Len() != 2 || !paramNamed(fd, "Manifest") {
			return false
		}
		// walks the manifest's files decoding each fragment with verification on: passes the literal true to a decoder
		passesTrue := false
		ast.Inspect(fd.Body, func(n ast.Node) bool {
			if c, ok := n.(*ast.CallExpr); ok {
				for _, a := range c.Args {
					if tv, has := info.Types[a]; has && tv.Value != nil && tv.Value.ExactString() == "true" {
						if f := calleeOf(info, c); f != nil && f.Pkg() == p.Types {
							passesTrue = true
						}
					}
				}
			}
			return true
		})
		return passesTrue
	})
	resolve("graphDirectoryName", func(fd *ast.FuncDecl) bool {
		return callsStd(fd.Body, "net/url.PathEscape")
	})
	resolve("archiveFrameAAD", func(fd *ast.FuncDecl) bool {
		sig := sigOf(fd)
		if sig == nil || sig.Results().Len() != 1 || sig.Params().Len() != 3 {
			return false
		}
		_, isArr := sig.Params().At(0).Type().Underlying().(*types.Array)
		_, isSlice := sig.Results().At(0).Type().Underlying().(*types.Slice)
		return isArr && isSlice
	})
	resolve("collectDatabaseMetrics", func(fd *ast.FuncDecl) bool {
		return resultNamed(fd, 0) == "MetricsManifest" && resultNamed(fd, 1) == "VerifyResult"
	})
	if os.Getenv("DAWGSVET_ROLES") != "" {
		for _, k := range []string{"writeManifest", "writeDumpCheckpoint", "removeDumpCheckpoint", "readDumpCheckpoint", "loadCompatibleDumpCheckpoint", "closeFragmentWriter", "dumpGraph", "newDumpCheckpointIdentity", "sanitizeArchivePath", "unpackTarFileTracked", "unpackTarWithOptions", "validateExtractedCollection", "unpackCollectionTarWithOptions", "verifyCollectionFragments", "graphDirectoryName", "archiveFrameAAD", "collectDatabaseMetrics"} {
			fmt.Printf("ROLE %s -> %q\n", k, rr.names[k])
		}
	}
	return rr
}

// name returns the current name of the function that plays the role known by today's name.
func (rr *retrieverRoles) name(today string) string {
	if n, ok := rr.names[today]; ok {
		return n
	}
	return today
}

func (rr *retrieverRoles) decl(today string) *ast.FuncDecl {
	return FuncDecls(rr.p)[rr.name(today)]
}

// is reports whether fn is the function playing the role.
func (rr *retrieverRoles) is(fn *types.Func, today string) bool {
	return fn != nil && fn.Pkg() == rr.p.Types && fn.Name() == rr.name(today)
}

// retrieverPkg is set by the C18–C20 checks before their rules run; rn maps today's private name of a retriever
// function to the name of the function that plays that role in the tree being analysed.
var retrieverPkg *packages.Package

func roleName(today string) string {
	if retrieverPkg == nil {
		return today
	}
	return rolesOfRetriever(retrieverPkg).name(today)
}
