package main

// Two spellings of "does this rule context have a child of a certain kind" must be recognised as the same condition by
// the visitor-stack rule: a handler that pushes under one and pops under the other is balanced only if they agree. The
// front end spells it (a) as a function that scans the children and returns true at the first match, and (b) as a
// constructor that collects the matching children into a slice, followed by a method of the constructed value that
// says whether the slice is non-empty. Both are summarised by the canonical text of the conditions under which the scan
// acts (returns true / appends) — locals are replaced by what defines them, the context parameter and the loop index by
// placeholders — so two scans with the same conditions get the same key whatever they are called.

import (
	"go/ast"
	"go/token"
	"go/types"
	"sort"
	"strings"
)

type scanSummary struct {
	key       string
	collected types.Object // (b): the local slice the matches are appended to
}

// childScanSummary summarises fd when its body scans the children of its (single) context parameter in one for loop.
func (vm *VisitorModel) childScanSummary(fd *ast.FuncDecl) *scanSummary {
	if fd == nil || fd.Body == nil || fd.Type.Params == nil {
		return nil
	}
	info := vm.pkg.TypesInfo
	var ctxParam types.Object
	for _, p := range fd.Type.Params.List {
		for _, n := range p.Names {
			if o := info.Defs[n]; o != nil && vm.isRuleCtxType(o.Type()) {
				if ctxParam != nil {
					return nil
				}
				ctxParam = o
			}
		}
	}
	if ctxParam == nil {
		return nil
	}
	var loop *ast.ForStmt
	loops := 0
	ast.Inspect(fd.Body, func(n ast.Node) bool {
		switch x := n.(type) {
		case *ast.FuncLit:
			return false
		case *ast.ForStmt:
			loops++
			loop = x
			return false
		case *ast.RangeStmt:
			loops++
			return false
		}
		return true
	})
	if loops != 1 || loop == nil {
		return nil
	}
	// for i := 0; i < ctx.GetChildCount(); i++
	var idxVar types.Object
	if init, ok := loop.Init.(*ast.AssignStmt); ok && len(init.Lhs) == 1 {
		if id, ok := init.Lhs[0].(*ast.Ident); ok {
			idxVar = info.Defs[id]
		}
	}
	cond, ok := loop.Cond.(*ast.BinaryExpr)
	if idxVar == nil || !ok || cond.Op != token.LSS {
		return nil
	}
	if call, ok := ast.Unparen(cond.Y).(*ast.CallExpr); !ok {
		return nil
	} else if sel, ok := call.Fun.(*ast.SelectorExpr); !ok || sel.Sel.Name != "GetChildCount" {
		return nil
	} else if id, ok := ast.Unparen(sel.X).(*ast.Ident); !ok || info.Uses[id] != ctxParam {
		return nil
	}
	// the action: `return true` or `x = append(x, …)` inside the loop
	var action ast.Node
	var collected types.Object
	actions := 0
	ast.Inspect(loop.Body, func(n ast.Node) bool {
		switch x := n.(type) {
		case *ast.FuncLit:
			return false
		case *ast.ReturnStmt:
			if len(x.Results) == 1 {
				if tv, has := info.Types[x.Results[0]]; has && tv.Value != nil && tv.Value.String() == "true" {
					actions++
					action = x
				}
			}
		case *ast.AssignStmt:
			if len(x.Lhs) == 1 && len(x.Rhs) == 1 {
				if call, ok := ast.Unparen(x.Rhs[0]).(*ast.CallExpr); ok {
					if f, ok := ast.Unparen(call.Fun).(*ast.Ident); ok && f.Name == "append" && len(call.Args) >= 2 {
						if l, ok := x.Lhs[0].(*ast.Ident); ok {
							if a0, ok := ast.Unparen(call.Args[0]).(*ast.Ident); ok && info.ObjectOf(l) == info.Uses[a0] {
								actions++
								action = x
								collected = info.ObjectOf(l)
							}
						}
					}
				}
			}
		}
		return true
	})
	if actions != 1 {
		return nil
	}
	// definitions of the loop's locals
	type def struct {
		e   ast.Expr
		idx int // position among the results of a two-value definition, -1 for a plain one
	}
	defs := map[types.Object]def{}
	writes := map[types.Object]int{}
	ast.Inspect(loop.Body, func(n ast.Node) bool {
		as, ok := n.(*ast.AssignStmt)
		if !ok {
			return true
		}
		for i, l := range as.Lhs {
			id, ok := l.(*ast.Ident)
			if !ok || id.Name == "_" {
				continue
			}
			o := info.ObjectOf(id)
			if o == nil || o == collected {
				continue
			}
			writes[o]++
			switch {
			case len(as.Lhs) == len(as.Rhs):
				defs[o] = def{as.Rhs[i], -1}
			case len(as.Rhs) == 1:
				defs[o] = def{as.Rhs[0], i}
			}
		}
		return true
	})
	var canon func(e ast.Expr, depth int) string
	canon = func(e ast.Expr, depth int) string {
		if depth > 8 {
			return "…"
		}
		switch x := ast.Unparen(e).(type) {
		case *ast.Ident:
			o := info.ObjectOf(x)
			switch {
			case o == ctxParam:
				return "$ctx"
			case o == idxVar:
				return "$i"
			}
			if d, has := defs[o]; has && writes[o] == 1 {
				if d.idx >= 0 {
					return "#" + itoa(d.idx) + "(" + canon(d.e, depth+1) + ")"
				}
				return canon(d.e, depth+1)
			}
			if tv, has := info.Types[x]; has && tv.Value != nil {
				return tv.Value.ExactString()
			}
			if o != nil && o.Pkg() != nil && o.Parent() == o.Pkg().Scope() {
				return o.Pkg().Name() + "." + o.Name()
			}
			return x.Name
		case *ast.SelectorExpr:
			if o := info.Uses[x.Sel]; o != nil && o.Pkg() != nil && o.Parent() == o.Pkg().Scope() {
				return o.Pkg().Name() + "." + o.Name()
			}
			return canon(x.X, depth+1) + "." + x.Sel.Name
		case *ast.CallExpr:
			var args []string
			for _, a := range x.Args {
				args = append(args, canon(a, depth+1))
			}
			return canon(x.Fun, depth+1) + "(" + strings.Join(args, ",") + ")"
		case *ast.TypeAssertExpr:
			return "assert(" + canon(x.X, depth+1) + "," + types.ExprString(x.Type) + ")"
		case *ast.BinaryExpr:
			return "(" + canon(x.X, depth+1) + x.Op.String() + canon(x.Y, depth+1) + ")"
		case *ast.UnaryExpr:
			return x.Op.String() + canon(x.X, depth+1)
		case *ast.StarExpr:
			return "*" + canon(x.X, depth+1)
		case *ast.BasicLit:
			return x.Value
		}
		return types.ExprString(e)
	}
	var parts []string
	for _, l := range controlConds(loop.Body, action) {
		s := canon(l.Expr, 0)
		if l.Neg {
			s = "!" + s
		}
		parts = append(parts, s)
	}
	if len(parts) == 0 {
		return nil
	}
	sort.Strings(parts)
	return &scanSummary{key: strings.Join(parts, " && "), collected: collected}
}

// scanAtom: the presence atom of a condition that is one of the two spellings, or "".
func (w *hwalk) scanAtom(x *ast.CallExpr) string {
	info := w.vm.pkg.TypesInfo
	fn := calleeOf(info, x)
	if fn == nil || fn.Pkg() != w.vm.pkg.Types {
		return ""
	}
	fd := w.vm.decls[fn]
	if fd == nil {
		return ""
	}
	sig, _ := fn.Type().(*types.Signature)
	// (a) f(ctx) bool that returns true at the first match and false after the loop
	if sig != nil && sig.Recv() == nil && len(x.Args) == 1 && w.isCtxExpr(x.Args[0]) {
		if sum := w.vm.childScanSummary(fd); sum != nil && sum.collected == nil && endsWithReturnFalse(info, fd) {
			return "scan:" + sum.key
		}
		return ""
	}
	// (b) ctor(ctx).nonEmpty()
	sel, ok := ast.Unparen(x.Fun).(*ast.SelectorExpr)
	if !ok || sig == nil || sig.Recv() == nil || len(x.Args) != 0 {
		return ""
	}
	recv := w.resolve(sel.X)
	c2, ok := recv.(*ast.CallExpr)
	if !ok || len(c2.Args) != 1 || !w.isCtxExpr(c2.Args[0]) {
		return ""
	}
	ctorFn := calleeOf(info, c2)
	if ctorFn == nil || ctorFn.Pkg() != w.vm.pkg.Types {
		return ""
	}
	ctor := w.vm.decls[ctorFn]
	sum := w.vm.childScanSummary(ctor)
	if sum == nil || sum.collected == nil {
		return ""
	}
	// the constructor returns a literal whose field F holds the collected slice and sets no other field
	var field *types.Var
	okCtor := true
	ast.Inspect(ctor.Body, func(n ast.Node) bool {
		rs, isRet := n.(*ast.ReturnStmt)
		if !isRet || len(rs.Results) != 1 {
			return true
		}
		e := ast.Unparen(rs.Results[0])
		if u, isAddr := e.(*ast.UnaryExpr); isAddr && u.Op == token.AND {
			e = ast.Unparen(u.X)
		}
		cl, isLit := e.(*ast.CompositeLit)
		if !isLit {
			okCtor = false
			return true
		}
		for _, el := range cl.Elts {
			kv, isKV := el.(*ast.KeyValueExpr)
			if !isKV {
				okCtor = false
				return true
			}
			kid, isKey := kv.Key.(*ast.Ident)
			if !isKey {
				okCtor = false
				return true
			}
			if vid, isID := ast.Unparen(kv.Value).(*ast.Ident); isID && info.Uses[vid] == sum.collected {
				field, _ = info.Uses[kid].(*types.Var)
				continue
			}
			// every other field is left at (or set to) its zero value
			tv, has := info.Types[kv.Value]
			if !has || tv.Value == nil || !(tv.Value.String() == "0" || tv.Value.String() == "false" || tv.Value.String() == `""`) {
				okCtor = false
			}
		}
		return true
	})
	if !okCtor || field == nil {
		return ""
	}
	// the method says "F is not empty" for a freshly constructed value: evaluated with every other field at zero, once
	// for len(F) == 0 (must be false) and once for len(F) > 0 (must be true)
	if fd.Body == nil {
		return ""
	}
	locals := map[types.Object]ast.Expr{}
	var ret ast.Expr
	for _, st := range fd.Body.List {
		switch t := st.(type) {
		case *ast.AssignStmt:
			if t.Tok != token.DEFINE || len(t.Lhs) != len(t.Rhs) {
				return ""
			}
			for i, l := range t.Lhs {
				if id, ok := l.(*ast.Ident); ok {
					locals[info.Defs[id]] = t.Rhs[i]
				}
			}
		case *ast.ReturnStmt:
			if len(t.Results) != 1 || ret != nil {
				return ""
			}
			ret = t.Results[0]
		default:
			return ""
		}
	}
	if ret == nil {
		return ""
	}
	// values: 0 = zero, 1 = a positive length, -1 = unknown
	var num func(e ast.Expr, positive bool) int
	num = func(e ast.Expr, positive bool) int {
		e = ast.Unparen(e)
		if tv, has := info.Types[e]; has && tv.Value != nil {
			switch tv.Value.String() {
			case "0":
				return 0
			case "1":
				return 2 // the constant one: compared specially below
			}
			return -1
		}
		switch t := e.(type) {
		case *ast.Ident:
			if d, has := locals[info.Uses[t]]; has {
				return num(d, positive)
			}
		case *ast.SelectorExpr:
			if fv, ok := info.Uses[t.Sel].(*types.Var); ok && fv.IsField() && fv != field {
				return 0
			}
		case *ast.CallExpr:
			if f, ok := ast.Unparen(t.Fun).(*ast.Ident); ok && f.Name == "len" && len(t.Args) == 1 {
				if sel, ok := ast.Unparen(t.Args[0]).(*ast.SelectorExpr); ok && info.Uses[sel.Sel] == field {
					if positive {
						return 1
					}
					return 0
				}
			}
		}
		return -1
	}
	// truth: 1 true, 0 false, -1 unknown
	var truth func(e ast.Expr, positive bool) int
	truth = func(e ast.Expr, positive bool) int {
		e = ast.Unparen(e)
		be, ok := e.(*ast.BinaryExpr)
		if !ok {
			if u, isNot := e.(*ast.UnaryExpr); isNot && u.Op == token.NOT {
				if v := truth(u.X, positive); v >= 0 {
					return 1 - v
				}
			}
			return -1
		}
		switch be.Op {
		case token.LAND:
			a, b := truth(be.X, positive), truth(be.Y, positive)
			if a == 0 || b == 0 {
				return 0
			}
			if a == 1 && b == 1 {
				return 1
			}
			return -1
		case token.LOR:
			a, b := truth(be.X, positive), truth(be.Y, positive)
			if a == 1 || b == 1 {
				return 1
			}
			if a == 0 && b == 0 {
				return 0
			}
			return -1
		}
		x, y := num(be.X, positive), num(be.Y, positive)
		if x < 0 || y < 0 {
			return -1
		}
		// 0 = zero, 1 = some positive length (>= 1), 2 = the constant 1
		lo := func(v int) int { // smallest value it can be
			if v == 0 {
				return 0
			}
			return 1
		}
		exact := func(v int) bool { return v == 0 || v == 2 }
		b2i := func(b bool) int {
			if b {
				return 1
			}
			return 0
		}
		switch be.Op {
		case token.GTR:
			if exact(y) && lo(x) > lo(y) {
				return 1
			}
			if exact(x) && exact(y) {
				return b2i(lo(x) > lo(y))
			}
			if x == 0 {
				return 0
			}
		case token.LSS:
			if exact(x) && lo(y) > lo(x) {
				return 1
			}
			if exact(x) && exact(y) {
				return b2i(lo(x) < lo(y))
			}
			if y == 0 {
				return 0
			}
		case token.NEQ:
			if x == 0 && y == 0 {
				return 0
			}
			if (x == 0) != (y == 0) {
				return 1
			}
		case token.GEQ:
			if y == 0 {
				return 1
			}
			if x == 0 && y != 0 {
				return 0
			}
			if y == 2 && x != 0 {
				return 1
			}
		}
		return -1
	}
	if truth(ret, false) == 0 && truth(ret, true) == 1 {
		return "scan:" + sum.key
	}
	return ""
}

func endsWithReturnFalse(info *types.Info, fd *ast.FuncDecl) bool {
	if len(fd.Body.List) == 0 {
		return false
	}
	rs, ok := fd.Body.List[len(fd.Body.List)-1].(*ast.ReturnStmt)
	if !ok || len(rs.Results) != 1 {
		return false
	}
	tv, has := info.Types[rs.Results[0]]
	return has && tv.Value != nil && tv.Value.String() == "false"
}
