package main

// DML-origin rule shared by C03-(b) and C09-O6: data-modifying SQL nodes on persistent
// tables are constructed only under the translator's updating-clause dispatch.

import (
	"go/ast"
	"go/token"
	"go/types"
	"os"
	"path/filepath"
	"regexp"
	"strings"

	"golang.org/x/tools/go/packages"
)

var dmlTypeNames = []string{"Insert", "Update", "Delete", "Merge"}

type schemaTables struct {
	persistent map[string]bool
	temp       map[string]bool
}

func readSchemaTables(r *Run) schemaTables {
	st := schemaTables{persistent: map[string]bool{}, temp: map[string]bool{}}
	b, err := os.ReadFile(filepath.Join(r.RepoDir, "drivers/pg/query/sql/schema_up.sql"))
	if err != nil {
		r.Fatal("schema_up.sql: %v", err)
	}
	re := regexp.MustCompile(`(?i)create\s+((?:global\s+|local\s+)?(?:temporary|temp)\s+|unlogged\s+)?table\s+(?:if\s+not\s+exists\s+)?([a-z_][a-z0-9_]*)`)
	for _, m := range re.FindAllStringSubmatch(string(b), -1) {
		kind := strings.ToLower(strings.TrimSpace(m[1]))
		if strings.Contains(kind, "temp") {
			st.temp[strings.ToLower(m[2])] = true
		} else {
			st.persistent[strings.ToLower(m[2])] = true
		}
	}
	if len(st.persistent) == 0 {
		r.Fatal("schema_up.sql: no persistent tables found")
	}
	return st
}

// constResolver resolves identifier-valued expressions to the set of string constants they can hold.
type constResolver struct {
	r  *Run
	cg *CallGraph
}

func (cr *constResolver) resolve(pinfo *types.Info, e ast.Expr, depth int) (vals []string, ok bool) {
	if depth > 4 || e == nil {
		return nil, false
	}
	e = ast.Unparen(e)
	if tv, has := pinfo.Types[e]; has && tv.Value != nil {
		s := tv.Value.ExactString()
		return []string{strings.Trim(s, "\"")}, true
	}
	switch x := e.(type) {
	case *ast.CallExpr:
		if sel, isSel := ast.Unparen(x.Fun).(*ast.SelectorExpr); isSel && sel.Sel.Name == "AsCompoundIdentifier" && len(x.Args) == 0 {
			return cr.resolve(pinfo, sel.X, depth+1)
		}
		// conversion pgsql.Identifier("x")
		if len(x.Args) == 1 {
			if tv, has := pinfo.Types[x.Fun]; has && tv.IsType() {
				return cr.resolve(pinfo, x.Args[0], depth+1)
			}
		}
	case *ast.CompositeLit:
		if len(x.Elts) == 1 {
			if tv, has := pinfo.Types[x]; has && namedName(tv.Type) == "CompoundIdentifier" {
				return cr.resolve(pinfo, x.Elts[0], depth+1)
			}
		}
	case *ast.SelectorExpr:
		// a field of a module struct: every value stored under that field (literal keys and assignments, wherever they
		// are) must resolve
		if s := pinfo.Selections[x]; s != nil && s.Kind() == types.FieldVal {
			field, _ := s.Obj().(*types.Var)
			if field == nil || field.Pkg() == nil || !strings.HasPrefix(field.Pkg().Path(), modPath) {
				return nil, false
			}
			field = field.Origin()
			var all []string
			okAll, stores := true, 0
			for fn, fd := range cr.cg.Decl {
				if fd.Body == nil {
					continue
				}
				finfo := cr.cg.PkgOf[fn].TypesInfo
				ast.Inspect(fd.Body, func(n ast.Node) bool {
					var val ast.Expr
					switch st := n.(type) {
					case *ast.KeyValueExpr:
						if k, ok := st.Key.(*ast.Ident); ok {
							if kv, ok := finfo.Uses[k].(*types.Var); ok && kv.Origin() == field {
								val = st.Value
							}
						}
					case *ast.AssignStmt:
						if len(st.Lhs) == len(st.Rhs) {
							for i, l := range st.Lhs {
								if ls, ok := ast.Unparen(l).(*ast.SelectorExpr); ok {
									if sl := finfo.Selections[ls]; sl != nil {
										if fv, ok := sl.Obj().(*types.Var); ok && fv.Origin() == field {
											val = st.Rhs[i]
										}
									}
								}
							}
						}
					}
					if val != nil {
						stores++
						vs, ok := cr.resolve(finfo, val, depth+1)
						if !ok {
							okAll = false
						}
						all = append(all, vs...)
					}
					return true
				})
			}
			if stores > 0 && okAll {
				return all, true
			}
			return nil, false
		}
	case *ast.Ident:
		obj := pinfo.Uses[x]
		if v, isVar := obj.(*types.Var); isVar && v.Pkg() != nil && v.Parent() == v.Pkg().Scope() {
			// package-level variable with a constant initialiser that is never reassigned
			if p := cr.r.ByPath[v.Pkg().Path()]; p != nil {
				if init := pkgVarInit(p, v); init != nil && !pkgVarReassigned(cr.r, v) {
					return cr.resolve(p.TypesInfo, init, depth+1)
				}
			}
			return nil, false
		}
		if v, isVar := obj.(*types.Var); isVar {
			// parameter of an enclosing declared function: resolve at all static call sites
			for fn, fd := range cr.cg.Decl {
				if fd.Body == nil || v.Pos() < fd.Pos() || v.Pos() > fd.End() || fd.Type.Params == nil {
					continue
				}
				idx := 0
				pidx := -1
				for _, p := range fd.Type.Params.List {
					for _, n := range p.Names {
						if cr.cg.PkgOf[fn].TypesInfo.Defs[n] == v {
							pidx = idx
						}
						idx++
					}
				}
				if pidx < 0 {
					continue
				}
				callers := cr.cg.In[fn]
				if len(callers) == 0 {
					return nil, false
				}
				var all []string
				for _, e := range callers {
					if e.Kind != "static" {
						return nil, false
					}
					cp := cr.cg.PkgOf[e.From]
					call := findCallAt(cr.cg.Decl[e.From], e.Pos)
					if call == nil || pidx >= len(call.Args) {
						return nil, false
					}
					vs, ok := cr.resolve(cp.TypesInfo, call.Args[pidx], depth+1)
					if !ok {
						return nil, false
					}
					all = append(all, vs...)
				}
				return all, true
			}
		}
	}
	return nil, false
}

func findCallAt(fd *ast.FuncDecl, pos token.Pos) *ast.CallExpr {
	var out *ast.CallExpr
	ast.Inspect(fd, func(n ast.Node) bool {
		if c, ok := n.(*ast.CallExpr); ok && c.Pos() == pos {
			out = c
		}
		return out == nil
	})
	return out
}

func checkDMLOrigin(r *Run, rule string) {
	tp := r.MustPkg("cypher/models/pgsql/translate")
	info := tp.TypesInfo
	schema := readSchemaTables(r)
	r.Extra["schema_persistent_tables"] = sortedKeys(schema.persistent)
	r.Extra["schema_temp_tables"] = len(schema.temp)
	cg := BuildCallGraph(r, func(p string) bool { return strings.Contains(p, "/cypher/") })
	cr := &constResolver{r: r, cg: cg}

	// gates: case clauses of Translator.Enter/Exit whose every listed type is an updating model type
	type rng struct{ lo, hi token.Pos }
	var gates []rng
	var gateNames []string
	var roots []*types.Func
	trT, _ := tp.Types.Scope().Lookup("Translator").(*types.TypeName)
	if trT == nil {
		r.Fatal("translate.Translator not found")
	}
	for fn, fd := range cg.Decl {
		if cg.PkgOf[fn] != tp {
			continue
		}
		sig := fn.Type().(*types.Signature)
		if sig.Recv() != nil && namedOf(sig.Recv().Type()) != nil && namedOf(sig.Recv().Type()).Obj() == trT && fn.Exported() {
			roots = append(roots, fn)
			if fn.Name() == "Enter" || fn.Name() == "Exit" || fn.Name() == "Visit" {
				ast.Inspect(fd.Body, func(n ast.Node) bool {
					ts, ok := n.(*ast.TypeSwitchStmt)
					if !ok {
						return true
					}
					for _, c := range ts.Body.List {
						cc := c.(*ast.CaseClause)
						if len(cc.List) == 0 {
							continue
						}
						all := true
						var names []string
						for _, te := range cc.List {
							tv, ok := info.Types[te]
							if !ok || isUpdatingType(tv.Type) == "" {
								all = false
							} else {
								names = append(names, isUpdatingType(tv.Type))
							}
						}
						if all {
							gates = append(gates, rng{cc.Colon, cc.End()})
							gateNames = append(gateNames, fn.Name()+":"+strings.Join(names, ","))
						}
					}
					return true
				})
			}
		}
		if sig.Recv() == nil && fn.Exported() {
			roots = append(roots, fn)
		}
	}
	if len(gates) < 4 {
		r.Undecide("%s: only %d updating-clause case clauses found in Translator.Enter/Exit (expected ≥ 4); dispatch shape changed", rule, len(gates))
		return
	}
	inGate := func(pos token.Pos) bool {
		for _, g := range gates {
			if g.lo <= pos && pos <= g.hi {
				return true
			}
		}
		return false
	}
	ungated := cg.Reach(roots, func(e cgEdge) bool { return inGate(e.Pos) })
	all := cg.Reach(roots, nil)
	r.Extra["dml_gate_cases"] = gateNames

	// DML construction sites in translate
	dml := map[*types.TypeName]bool{}
	pg := r.MustPkg("cypher/models/pgsql")
	for _, n := range dmlTypeNames {
		tn, ok := pg.Types.Scope().Lookup(n).(*types.TypeName)
		if !ok {
			r.Fatal("pgsql.%s not found", n)
		}
		dml[tn] = true
	}
	nsites := 0
	for _, pkgRel := range []string{"cypher/models/pgsql/translate", "cypher/models/pgsql/optimize"} {
		p := r.Pkg(pkgRel)
		if p == nil {
			continue
		}
		for _, f := range p.Syntax {
			for _, d := range f.Decls {
				fd, ok := d.(*ast.FuncDecl)
				if !ok || fd.Body == nil {
					continue
				}
				fn, _ := p.TypesInfo.Defs[fd.Name].(*types.Func)
				var stack []ast.Node
				ast.Inspect(fd.Body, func(n ast.Node) bool {
					if n == nil {
						stack = stack[:len(stack)-1]
						return true
					}
					stack = append(stack, n)
					cl, ok := n.(*ast.CompositeLit)
					if !ok {
						return true
					}
					tv, ok := p.TypesInfo.Types[cl]
					if !ok {
						return true
					}
					nt := namedOf(tv.Type)
					if nt == nil || !dml[nt.Obj()] {
						return true
					}
					if len(cl.Elts) == 0 {
						return true // zero value placeholder (returned together with ok=false)
					}
					nsites++
					construct := funcDeclName(fd) + ":" + nt.Obj().Name()
					// classify target
					target := "persistent-or-unknown"
					var names []string
					if nt.Obj().Name() == "Insert" {
						for _, el := range cl.Elts {
							kv, ok := el.(*ast.KeyValueExpr)
							if !ok {
								continue
							}
							if k, ok := kv.Key.(*ast.Ident); ok && k.Name == "Table" {
								if tl, ok := ast.Unparen(kv.Value).(*ast.CompositeLit); ok {
									for _, e2 := range tl.Elts {
										if kv2, ok := e2.(*ast.KeyValueExpr); ok {
											if k2, ok := kv2.Key.(*ast.Ident); ok && k2.Name == "Name" {
												if vs, ok := cr.resolve(p.TypesInfo, kv2.Value, 0); ok && len(vs) > 0 {
													names = vs
													allTemp := true
													for _, v := range vs {
														if !schema.temp[strings.ToLower(v)] || schema.persistent[strings.ToLower(v)] {
															allTemp = false
														}
													}
													if allTemp {
														target = "session-temp"
													}
												}
											}
										}
									}
								}
							}
						}
					}
					if target == "session-temp" {
						r.Pass(rule, construct+"@"+strings.Join(uniqStrings(names), ","), cl.Pos(), "INSERT into session temp table(s) %v of the traversal harness (allowed on read paths)", uniqStrings(names))
						return true
					}
					// must be control-gated or data-gated
					if fn == nil {
						return true
					}
					if _, reach := all[fn]; !reach {
						r.Pass(rule, construct, cl.Pos(), "not reachable from the translator's entry points")
						return true
					}
					if _, un := ungated[fn]; !un {
						r.Pass(rule, construct, cl.Pos(), "reachable only through updating-clause dispatch (%s)", cg.PathTo(all, fn))
						return true
					}
					// data gate: innermost enclosing range over a struct field whose writers are all gated
					if field, loopPos := enclosingFieldRange(p.TypesInfo, stack); field != nil {
						writers := collectionWriters(r, field)
						bad := ""
						for _, w := range writers {
							if wf := w.fnObj; wf != nil {
								if _, un := ungated[wf]; un {
									bad = shortFuncName(wf) + " (" + cg.PathTo(ungated, wf) + ")"
								}
							}
						}
						if len(writers) > 0 && bad == "" {
							r.Pass(rule, construct, cl.Pos(), "constructed per element of %s (loop at %s), which is filled only under updating-clause dispatch (%d writer site(s))", field.Name(), r.Pos(loopPos), len(writers))
							return true
						}
						r.Fail(rule, construct, cl.Pos(), "DML node on a persistent table is built per element of %s, which can be filled on a read path: %s", field.Name(), bad)
						return true
					}
					r.Fail(rule, construct, cl.Pos(), "DML node (target %v) constructible on a path that passes no updating-clause case: %s", names, cg.PathTo(ungated, fn))
					return true
				})
			}
		}
	}
	r.Counts[rule+"-sites"] = nsites
}

func uniqStrings(in []string) []string {
	set := map[string]bool{}
	for _, s := range in {
		set[s] = true
	}
	return sortedKeys(set)
}

// enclosingFieldRange: innermost enclosing `for range <expr>` whose operand mentions a struct field of a
// module-declared struct; returns that field.
func enclosingFieldRange(info *types.Info, stack []ast.Node) (*types.Var, token.Pos) {
	for i := len(stack) - 1; i >= 0; i-- {
		rs, ok := stack[i].(*ast.RangeStmt)
		if !ok {
			continue
		}
		var field *types.Var
		ast.Inspect(rs.X, func(n ast.Node) bool {
			if sel, ok := n.(*ast.SelectorExpr); ok {
				if s := info.Selections[sel]; s != nil && s.Kind() == types.FieldVal {
					if v, ok := s.Obj().(*types.Var); ok && v.Pkg() != nil && strings.HasPrefix(v.Pkg().Path(), modPath) {
						// keep the last (outermost in the selector chain = closest to the collection)
						if field == nil || sel.End() > field.Pos() {
							field = v
						}
					}
				}
			}
			return true
		})
		if field != nil {
			// choose the field nearest to the ranged value: the selector whose End is largest
			var best *types.Var
			var bestEnd token.Pos
			ast.Inspect(rs.X, func(n ast.Node) bool {
				if sel, ok := n.(*ast.SelectorExpr); ok {
					if s := info.Selections[sel]; s != nil && s.Kind() == types.FieldVal {
						if sel.End() > bestEnd {
							bestEnd = sel.End()
							best = s.Obj().(*types.Var)
						}
					}
				}
				return true
			})
			return best, rs.Pos()
		}
	}
	return nil, token.NoPos
}

type collWriter struct {
	fnObj *types.Func
	pos   token.Pos
}

var readOnlyCollMethods = map[string]bool{"Values": true, "Len": true, "Get": true, "Has": true, "Keys": true, "Each": true, "Contains": true,
	"GetOr": true, "CheckedGet": true, "Slice": true, "Copy": true, "Clone": true, "IsEmpty": true}

// collectionWriters: sites that may add to the collection held in `field`: method calls on it whose name is not
// read-only, assignments to it or its elements. Composite-literal initialisation is not a writer.
func collectionWriters(r *Run, field *types.Var) []collWriter {
	var out []collWriter
	for path, p := range r.ByPath {
		if !strings.HasPrefix(path, modPath) {
			continue
		}
		for _, f := range p.Syntax {
			for _, d := range f.Decls {
				fd, ok := d.(*ast.FuncDecl)
				if !ok || fd.Body == nil {
					continue
				}
				fn, _ := p.TypesInfo.Defs[fd.Name].(*types.Func)
				isField := func(e ast.Expr) bool {
					sel, ok := ast.Unparen(e).(*ast.SelectorExpr)
					if !ok {
						return false
					}
					s := p.TypesInfo.Selections[sel]
					return s != nil && s.Obj() == field
				}
				ast.Inspect(fd.Body, func(n ast.Node) bool {
					switch x := n.(type) {
					case *ast.CallExpr:
						if sel, ok := ast.Unparen(x.Fun).(*ast.SelectorExpr); ok && isField(sel.X) && !readOnlyCollMethods[sel.Sel.Name] {
							out = append(out, collWriter{fn, x.Pos()})
						}
						// the field passed as an argument escapes: treat as writer
						for _, a := range x.Args {
							if isField(a) {
								out = append(out, collWriter{fn, x.Pos()})
							}
						}
					case *ast.AssignStmt:
						for _, l := range x.Lhs {
							l = ast.Unparen(l)
							if ix, ok := l.(*ast.IndexExpr); ok {
								l = ix.X
							}
							if isField(l) {
								out = append(out, collWriter{fn, x.Pos()})
							}
						}
					}
					return true
				})
			}
		}
	}
	return out
}

func pkgVarInit(p *packages.Package, v *types.Var) ast.Expr {
	for _, f := range p.Syntax {
		for _, d := range f.Decls {
			gd, ok := d.(*ast.GenDecl)
			if !ok || gd.Tok != token.VAR {
				continue
			}
			for _, sp := range gd.Specs {
				vs := sp.(*ast.ValueSpec)
				for i, n := range vs.Names {
					if p.TypesInfo.Defs[n] == v && i < len(vs.Values) && len(vs.Values) == len(vs.Names) {
						return vs.Values[i]
					}
				}
			}
		}
	}
	return nil
}

// pkgVarReassigned: any assignment to, or address-of, the package-level variable in the module.
func pkgVarReassigned(r *Run, v *types.Var) bool {
	found := false
	for path, p := range r.ByPath {
		if !strings.HasPrefix(path, modPath) {
			continue
		}
		for _, f := range p.Syntax {
			ast.Inspect(f, func(n ast.Node) bool {
				chk := func(e ast.Expr) {
					e = ast.Unparen(e)
					switch x := e.(type) {
					case *ast.Ident:
						if p.TypesInfo.Uses[x] == v {
							found = true
						}
					case *ast.SelectorExpr:
						if p.TypesInfo.Uses[x.Sel] == v {
							found = true
						}
					}
				}
				switch x := n.(type) {
				case *ast.AssignStmt:
					for _, l := range x.Lhs {
						chk(l)
					}
				case *ast.IncDecStmt:
					chk(x.X)
				case *ast.UnaryExpr:
					if x.Op == token.AND {
						chk(x.X)
					}
				}
				return !found
			})
		}
	}
	return found
}
