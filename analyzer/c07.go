package main

// C07 — the parser is faithful (grammar × visitor exhaustiveness, emitter field coverage,
// range-literal mini-parser exhaustiveness).  C08 reuses the activity relation.

import (
	"fmt"
	"go/ast"
	"go/token"
	"go/types"
	"sort"
	"strings"
)

func init() { register("C07", checkC07) }

type pairClass struct {
	V, R   string
	Class  string // handled, rejected, transparent-ok, transparent-table, dropped
	Via    string
	Detail string
	Pos    token.Pos
}

// Activity computes, from the root visitor at oC_Cypher, every (visitor, rule) pair such that the
// visitor is top of the stack when the rule is entered, classifying each pair.  Descent stops
// below rejected rules, below dropped rules (frontier) and below rules whose handler captures the
// whole subtree text.
type Activity struct {
	Pairs  map[string]*pairClass
	order  []string
	pushes int
}

func (vm *VisitorModel) rootVisitor(r *Run) string {
	pc := frontendParseFunc(vm.pkg)
	if pc == nil {
		r.Fatal("parseCypher not found")
	}
	root := ""
	ast.Inspect(inlineFunc(vm.pkg, pc, 2).Body, func(n ast.Node) bool {
		if call, ok := n.(*ast.CallExpr); ok && calleeOf(vm.pkg.TypesInfo, call) == vm.ctxEnter && len(call.Args) == 1 {
			// argument is a local initialised with &QueryVisitor{}
			arg := call.Args[0]
			if id, ok := arg.(*ast.Ident); ok {
				if tv, ok := vm.pkg.TypesInfo.Types[id]; ok {
					root = namedName(tv.Type)
				}
			} else {
				root = vm.visitorTypeOfExpr(arg, 0)
			}
		}
		return true
	})
	if root == "" || vm.Types[root] == nil {
		r.Fatal("root visitor pushed by parseCypher not identified")
	}
	return root
}

// pushOutcome evaluates the Enter handler of (V,R) on derivation d: returns the set of visitor
// types that may be on top for d's children ("" = V stays), whether the whole subtree text is
// captured, and whether evaluation hit an unknown guard.
func pushOutcome(h *handlerInfo, d []string) (tops []string, captured bool, unknown bool) {
	if h == nil {
		return []string{""}, false, false
	}
	for _, c := range h.Captures {
		if c.Kind == "text" {
			switch c.Guard.evalDeriv(d) {
			case 1:
				captured = true
			case -1:
				// conditional on something we cannot evaluate: do not assume capture
			}
		}
	}
	cur := []string{""}
	for _, e := range h.Events {
		if !e.Push {
			continue
		}
		switch e.Guard.evalDeriv(d) {
		case 1:
			cur = []string{e.Type}
		case -1:
			unknown = true
			cur = append(cur, e.Type)
		}
	}
	return cur, captured, unknown
}

func (vm *VisitorModel) ComputeActivity(r *Run, g *Grammar, transparentTable Table) *Activity {
	act := &Activity{Pairs: map[string]*pairClass{}}
	root := vm.rootVisitor(r)
	vm.Root = root
	type item struct {
		V, R, via string
		facts     map[string]bool // receiver fields the handlers above, run by the same visitor, have set to non-nil values
	}
	factKey := func(f map[string]bool) string { return strings.Join(sortedKeys(f), ",") }
	queue := []item{{root, "oC_Cypher", root + "@oC_Cypher", nil}}
	seen := map[string]bool{}
	for len(queue) > 0 {
		it := queue[0]
		queue = queue[1:]
		key := it.V + "×" + it.R
		if seen[key+"|"+factKey(it.facts)] {
			continue
		}
		seen[key+"|"+factKey(it.facts)] = true
		pc := &pairClass{V: it.V, R: it.R, Via: it.via}
		if prev := act.Pairs[key]; prev != nil {
			// reached again with other facts: explore, keep the first classification unless this one is worse
			pc = &pairClass{V: it.V, R: it.R, Via: it.via}
			defer func(prev, pc *pairClass) {
				if prev.Class != "dropped" && pc.Class == "dropped" {
					*prev = *pc
				}
			}(prev, pc)
		} else {
			act.Pairs[key] = pc
			act.order = append(act.order, key)
		}
		vt := vm.Types[it.V]
		if vt == nil {
			pc.Class = "unknown-visitor"
			continue
		}
		enter, exit := vt.Enter[it.R], vt.Exit[it.R]
		if enter == nil && exit == nil {
			switch vm.BaseKind["Enter:"+it.R] {
			case "unsupported":
				pc.Class = "rejected"
				continue
			case "empty":
				if vm.BaseKind["Exit:"+it.R] != "empty" && vm.BaseKind["Exit:"+it.R] != "" {
					pc.Class = "unknown-base"
					continue
				}
				terms := false
				for _, d := range g.Derivations(it.R) {
					for _, s := range d {
						if !strings.HasPrefix(s, "R:") {
							terms = true
						}
					}
				}
				if !terms {
					pc.Class = "transparent-ok"
				} else if reason, ok := r.InTable(transparentTable, "c07_transparent", key); ok {
					pc.Class = "transparent-table"
					pc.Detail = reason
				} else {
					pc.Class = "dropped"
					named, lits := g.Tokens(it.R)
					pc.Detail = fmt.Sprintf("no handler and BaseVisitor's method is an empty stub; own terminals %v %v and child rules %v are lost or re-attributed to %s", named, quoteAll(lits), g.Children(it.R), it.V)
					continue // frontier: do not descend
				}
			default:
				pc.Class = "unknown-base"
				continue
			}
			for _, c := range g.Children(it.R) {
				queue = append(queue, item{it.V, c, it.via + " > " + it.V + "@" + c, it.facts})
			}
			continue
		}
		pc.Class = "handled"
		if enter != nil {
			pc.Pos = enter.Decl.Pos()
		} else {
			pc.Pos = exit.Decl.Pos()
		}
		// an Exit-only handler may also capture the text
		below := it.facts
		if enter != nil && len(enter.Establishes) > 0 {
			below = map[string]bool{}
			for f := range it.facts {
				below[f] = true
			}
			for _, f := range enter.Establishes {
				below[f] = true
			}
		}
		enter, exit = enter.withFacts(it.facts), exit.withFacts(it.facts)
		for _, d := range g.Derivations(it.R) {
			tops, captured, _ := pushOutcome(enter, d)
			if !captured && exit != nil {
				_, c2, _ := pushOutcome(&handlerInfo{Captures: exit.Captures}, d)
				captured = c2
			}
			if captured {
				continue
			}
			childText := map[string]bool{}
			for _, h := range []*handlerInfo{enter, exit} {
				if h != nil {
					for _, c := range h.Captures {
						if strings.HasPrefix(c.Kind, "childtext:") {
							childText[c.Kind[len("childtext:"):]] = true
						}
					}
				}
			}
			for _, s := range d {
				if !strings.HasPrefix(s, "R:") || childText[s[2:]] {
					continue
				}
				for _, t := range tops {
					v := t
					facts := below
					if v == "" {
						v = it.V
					} else {
						act.pushes++
						facts = nil
					}
					queue = append(queue, item{v, s[2:], it.via + " > " + v + "@" + s[2:], facts})
				}
			}
		}
	}
	return act
}

func quoteAll(in []string) []string {
	out := make([]string, len(in))
	for i, s := range in {
		out[i] = "'" + s + "'"
	}
	return out
}

// observation of information terminals by a handler pair.
func observes(hs []*handlerInfo, sym string, needCount bool) (bool, string) {
	for _, h := range hs {
		if h == nil {
			continue
		}
		for _, c := range h.Captures {
			switch {
			case c.Kind == "text", c.Kind == "children":
				return true, c.Kind
			case c.Kind == "count:"+sym:
				return true, "count accessor"
			case c.Kind == "token:"+sym && !needCount:
				return true, "token accessor"
			}
		}
	}
	return false, ""
}

// countSignificant: terminal occurs with two different positive counts in derivations that share the child-rule projection.
func countSignificant(g *Grammar, rule, sym string) bool {
	by := map[string]map[int]bool{}
	for _, d := range g.Derivations(rule) {
		n := 0
		for _, s := range d {
			if s == sym {
				n++
			}
		}
		p := projectRules(d)
		if by[p] == nil {
			by[p] = map[int]bool{}
		}
		by[p][n] = true
	}
	for _, set := range by {
		pos := 0
		for n := range set {
			if n > 0 {
				pos++
			}
		}
		if pos >= 2 {
			return true
		}
	}
	return false
}

// countUsedOnlyAsPresence: every use of len(ctx.AllX()) in the handlers is a comparison against 0/1 (presence test).
func (vm *VisitorModel) countUsedOnlyAsPresence(hs []*handlerInfo, tok string) bool {
	only := true
	any := false
	for _, h := range hs {
		if h == nil {
			continue
		}
		var stack []ast.Node
		ast.Inspect(h.Decl.Body, func(n ast.Node) bool {
			if n == nil {
				stack = stack[:len(stack)-1]
				return true
			}
			stack = append(stack, n)
			call, ok := n.(*ast.CallExpr)
			if !ok {
				return true
			}
			sel, ok := call.Fun.(*ast.SelectorExpr)
			if !ok || sel.Sel.Name != "All"+tok {
				return true
			}
			any = true
			// parent must be len(...) and grandparent a comparison with literal 0
			okUse := false
			if len(stack) >= 3 {
				if lc, ok := stack[len(stack)-2].(*ast.CallExpr); ok {
					if id, ok := lc.Fun.(*ast.Ident); ok && id.Name == "len" {
						if be, ok := stack[len(stack)-3].(*ast.BinaryExpr); ok {
							if bl, ok := be.Y.(*ast.BasicLit); ok && (bl.Value == "0") && (be.Op == token.GTR || be.Op == token.NEQ || be.Op == token.EQL) {
								okUse = true
							}
						}
					}
				}
			}
			if !okUse {
				only = false
			}
			return true
		})
	}
	return any && only
}

func checkC07(r *Run) propMeta {
	meta := propMeta{Level: "other",
		Explanation: "Decides the structural clause of parser faithfulness: (R1) for every (visitor, grammar rule) pair that can be active — computed from the root visitor through every push, with push guards evaluated on every own-level derivation of Cypher.g4 — the rule is handled, rejected with an error, captured as text by a handled ancestor, or is a terminal-free pass-through; otherwise the construct is silently dropped or re-attributed and is reported at the frontier. Handled rules must observe each information terminal (a terminal not determined by the child-rule sequence), by count where the grammar makes the count significant. (R2) the Cypher emitter reads every non-payload field of every model type it handles. (R3) the range-literal token switch covers every terminal the grammar allows there. (R4) the emitter's float formatting stays inside the grammar's real-literal language: strconv.FormatFloat in the emitter uses the 'f' format, or an exponent format only if ExponentDecimalReal accepts the '+' that Go writes. (R5) functions that read the text of terminal children tell them apart by token type (SP also matches comments). NOT decided: value-level round-trip equality (escape decoding, numeric values), which needs execution.",
		Assumptions: []string{"ANTLR walker contract", "generated parser implements Cypher.g4 (rule-reference and named-token sets cross-checked on every run)", "derivations are unrolled to two repetitions"},
		TrustedBase: []string{"go/types", "this analyser"}}
	if err := r.Load("./..."); err != nil {
		r.Fatal("load: %v", err)
	}
	g := loadGrammar(r)
	vm := BuildVisitorModel(r)
	tbl := r.LoadTable("c07_transparent")
	act := vm.ComputeActivity(r, g, tbl)
	reportActivity(r, vm, g, act, "C07-R1")
	checkEmitterCoverage(r, "C07-R2-emitter-field")
	checkRangeLiteral(r, vm, g)
	checkNumberLanguage(r, g)
	checkTerminalsByType(r, vm)
	checkBareKeyKeywords(r, g)
	checkKeyedStores(r)
	checkTokenMultiplicity(r, vm)
	checkTokenOrderByColumn(r, vm.pkg)
	checkEmitterPackageState(r, "C07-R9-emitter-stateless")
	checkNameCodecSymmetry(r)
	checkParsedNumbersUnconverted(r)
	checkIdentifierClasses(r, g)
	r.Floor("C07-R6-bare-key-keywords", 1)
	r.Floor("C07-R1-pair", 150)
	r.Floor("C07-R1-info-terminal", 10)
	r.Floor("C07-R2-emitter-field", 60)
	return meta
}

func reportActivity(r *Run, vm *VisitorModel, g *Grammar, act *Activity, prefix string) {
	infoTable := r.LoadTable("c07_info_terminals")
	classes := map[string]int{}
	keys := append([]string(nil), act.order...)
	sort.Strings(keys)
	for _, k := range keys {
		pc := act.Pairs[k]
		classes[pc.Class]++
		switch pc.Class {
		case "handled":
			r.Pass(prefix+"-pair", k, pc.Pos, "handled")
			// information terminals must be observed
			vt := vm.Types[pc.V]
			hs := []*handlerInfo{vt.Enter[pc.R], vt.Exit[pc.R]}
			info := g.InfoTerminals(pc.R)
			for _, sym := range sortedKeys(info) {
				cs := countSignificant(g, pc.R, sym)
				ok, how := observes(hs, sym, false)
				construct := k + ":" + sym
				if !ok {
					if reason, inTable := r.InTable(infoTable, "c07_info_terminals", construct); inTable {
						r.Pass(prefix+"-info-terminal", construct, pc.Pos, "table c07_info_terminals: %s", reason)
						continue
					}
					if reason, inTable := r.InTable(infoTable, "c07_info_terminals", k+":*"); inTable {
						r.Pass(prefix+"-info-terminal", construct, pc.Pos, "table c07_info_terminals: %s", reason)
						continue
					}
				}
				if !ok {
					r.Fail(prefix+"-info-terminal", construct, pc.Pos, "handler of %s under %s never observes terminal %s (%s): input text that differs only there yields the same model", pc.R, pc.V, sym, info[sym])
					continue
				}
				if cs && how != "text" && how != "children" {
					tok := strings.TrimPrefix(sym, "T:")
					if vm.countUsedOnlyAsPresence(hs, tok) {
						r.Fail(prefix+"-info-terminal", construct, pc.Pos, "the grammar allows %s to repeat in %s and the count changes the meaning, but the handler only tests its presence (len(All%s()) compared with 0)", sym, pc.R, tok)
						continue
					}
				}
				r.Pass(prefix+"-info-terminal", construct, pc.Pos, "observed via %s", how)
			}
		case "rejected":
			r.Pass(prefix+"-pair", k, token.NoPos, "rejected by BaseVisitor's unsupported-rule reporter")
		case "transparent-ok":
			r.Pass(prefix+"-pair", k, token.NoPos, "terminal-free pass-through; children judged under %s", pc.V)
		case "transparent-table":
			r.Pass(prefix+"-pair", k, token.NoPos, "table c07_transparent: %s", pc.Detail)
		case "dropped":
			r.Fail(prefix+"-pair", k, token.NoPos, "%s sees %s (via %s) and drops it: %s", pc.V, pc.R, pc.Via, pc.Detail)
		default:
			r.Undecide("%s: pair %s could not be classified (%s)", prefix, k, pc.Class)
		}
	}
	r.Extra["pair_classes"] = classes
	r.Extra["visitor_types"] = len(vm.Types)
	r.Extra["grammar_rules"] = len(g.RuleOrder)
}

// ---- R3 range literal -----------------------------------------------------------------

func checkRangeLiteral(r *Run, vm *VisitorModel, g *Grammar) {
	// find the handler(s) of oC_RangeLiteral that switch over terminal tokens
	named, lits := g.Tokens("oC_RangeLiteral")
	_ = named
	for v, vt := range vm.Types {
		h := vt.Enter["oC_RangeLiteral"]
		if h == nil {
			continue
		}
		// the handler iterates children; collect string/const case labels and require a reporting default
		labels := map[string]bool{}
		hasDefaultErr := false
		ast.Inspect(h.Decl.Body, func(n ast.Node) bool {
			sw, ok := n.(*ast.SwitchStmt)
			if !ok {
				return true
			}
			for _, c := range sw.Body.List {
				cc := c.(*ast.CaseClause)
				if cc.List == nil {
					ast.Inspect(cc, func(m ast.Node) bool {
						if call, ok := m.(*ast.CallExpr); ok && calleeOf(vm.pkg.TypesInfo, call) == vm.ctxAddErrs {
							hasDefaultErr = true
						}
						return true
					})
				}
				for _, e := range cc.List {
					if tv, ok := vm.pkg.TypesInfo.Types[e]; ok && tv.Value != nil {
						labels[strings.Trim(tv.Value.ExactString(), "\"")] = true
					} else if id, ok := e.(*ast.Ident); ok {
						if vv, ok := vm.pkg.TypesInfo.Uses[id].(*types.Var); ok {
							if strings.HasPrefix(vv.Name(), "TokenType") {
								labels[vm.tokenTypeLiteral(vv)] = true
							} else if strings.HasPrefix(vv.Name(), "TokenLiteral") {
								labels[vm.tokenLiteralValue(vv)] = true
							}
						}
					} else if sel, ok := e.(*ast.SelectorExpr); ok {
						if c, ok := vm.pkg.TypesInfo.Uses[sel.Sel].(*types.Const); ok {
							labels["const:"+strings.TrimPrefix(strings.TrimPrefix(c.Name(), "CypherLexer"), "CypherParser")] = true
						}
					}
				}
			}
			return true
		})
		if len(labels) == 0 {
			continue
		}
		for _, l := range lits {
			construct := v + ".EnterOC_RangeLiteral:'" + l + "'"
			if labels[l] || hasDefaultErr {
				how := "explicit case"
				if !labels[l] {
					how = "reporting default"
				}
				r.Pass("C07-R3-range-literal", construct, h.Decl.Pos(), "%s", how)
			} else {
				r.Fail("C07-R3-range-literal", construct, h.Decl.Pos(), "terminal '%s' of oC_RangeLiteral has no case and the switch has no error-reporting default", l)
			}
		}
		// '*N' and '*N..' have the same children and differ only in the '..' terminal: the first is an exact hop count,
		// the second an open range. The model has only (StartIndex, EndIndex), so the handler must give EndIndex a value
		// somewhere other than in the branch that is reached after '..' — otherwise both texts produce the same model.
		{
			info := vm.pkg.TypesInfo
			outside, inside := 0, 0
			var stack []ast.Node
			ast.Inspect(h.Decl.Body, func(n ast.Node) bool {
				if n == nil {
					stack = stack[:len(stack)-1]
					return true
				}
				stack = append(stack, n)
				as, ok := n.(*ast.AssignStmt)
				if !ok {
					return true
				}
				for _, l := range as.Lhs {
					sel, ok := ast.Unparen(l).(*ast.SelectorExpr)
					if !ok || sel.Sel.Name != "EndIndex" {
						continue
					}
					// nested in a case clause of a switch over a local int state variable?
					inState := false
					for i, anc := range stack {
						cc, ok := anc.(*ast.CaseClause)
						if !ok || i == 0 {
							continue
						}
						if blk, ok := stack[i-1].(*ast.BlockStmt); ok && i >= 2 {
							if sw, ok := stack[i-2].(*ast.SwitchStmt); ok && sw.Body == blk && sw.Tag != nil {
								if id, ok := ast.Unparen(sw.Tag).(*ast.Ident); ok {
									if b, ok := info.TypeOf(id).Underlying().(*types.Basic); ok && b.Info()&types.IsInteger != 0 && len(cc.List) > 0 {
										inState = true
									}
								}
							}
						}
					}
					if inState {
						inside++
					} else {
						outside++
					}
				}
				return true
			})
			construct := v + ".EnterOC_RangeLiteral:exact-hops"
			if inside+outside == 0 {
				// the handler does not use the EndIndex field at all: nothing to judge here
			} else if outside > 0 {
				r.Pass("C07-R3-range-literal", construct, h.Decl.Pos(), "EndIndex is also set outside the after-'..' state: '*N' (exactly N) and '*N..' (N or more) get different models")
			} else {
				r.Fail("C07-R3-range-literal", construct, h.Decl.Pos(), "EndIndex is assigned only in the state reached after the '..' token: '-[*3]->' (exactly three hops) gets the model of '-[*3..]->' (three or more), is emitted as such and translated as such")
			}
		}
		if hasDefaultErr {
			r.Pass("C07-R3-range-literal", v+".EnterOC_RangeLiteral:default", h.Decl.Pos(), "unexpected tokens are reported")
		} else {
			r.Fail("C07-R3-range-literal", v+".EnterOC_RangeLiteral:default", h.Decl.Pos(), "token switch has no default that records an error")
		}
	}
}

// tokenLiteralValue: var TokenLiteralX = TokenRuleLiteralName(TokenTypeX)
func (vm *VisitorModel) tokenLiteralValue(v *types.Var) string {
	for _, f := range vm.pkg.Syntax {
		for _, d := range f.Decls {
			gd, ok := d.(*ast.GenDecl)
			if !ok || gd.Tok != token.VAR {
				continue
			}
			for _, sp := range gd.Specs {
				vs := sp.(*ast.ValueSpec)
				for i, n := range vs.Names {
					if vm.pkg.TypesInfo.Defs[n] == v && i < len(vs.Values) {
						if call, ok := vs.Values[i].(*ast.CallExpr); ok && len(call.Args) == 1 {
							if id, ok := call.Args[0].(*ast.Ident); ok {
								if tv, ok := vm.pkg.TypesInfo.Uses[id].(*types.Var); ok {
									return vm.tokenTypeLiteral(tv)
								}
							}
						}
					}
				}
			}
		}
	}
	return "?"
}

// checkNumberLanguage (R4): the text the emitter writes for a floating point literal must lie in the language of the
// grammar's real literals.  strconv.FormatFloat's 'e'/'E'/'g'/'G' formats write the exponent with an explicit sign
// ("2.5e+06"); they are admissible only if the grammar's ExponentDecimalReal accepts a '+' after the exponent marker.
// The 'f' format writes only digits, '.', and a leading '-', which the grammar always accepts.
func checkNumberLanguage(r *Run, g *Grammar) {
	const rule = "C07-R4-number-language"
	body, ok := g.Lexer["ExponentDecimalReal"]
	if !ok {
		r.Undecide("C07-R4: lexer rule ExponentDecimalReal not found in Cypher.g4")
		return
	}
	plusAllowed := strings.Contains(body, "'+'")
	p := r.MustPkg("cypher/models/cypher/format")
	n := 0
	for _, f := range p.Syntax {
		ast.Inspect(f, func(node ast.Node) bool {
			call, ok := node.(*ast.CallExpr)
			if !ok {
				return true
			}
			fn := calleeOf(p.TypesInfo, call)
			if fn == nil || fn.Pkg() == nil {
				return true
			}
			fd := enclosingFuncDecl(p, call.Pos())
			where := "?"
			if fd != nil {
				where = funcDeclName(fd)
			}
			switch {
			case fn.Pkg().Path() == "strconv" && fn.Name() == "FormatFloat" && len(call.Args) == 4:
				n++
				construct := where + ":FormatFloat"
				tv := p.TypesInfo.Types[call.Args[1]]
				if tv.Value == nil {
					r.Fail(rule, construct, call.Pos(), "the float format is not a constant: the emitted text cannot be shown to stay inside the grammar's real literals")
					return true
				}
				format := tv.Value.ExactString()
				switch format {
				case "102": // 'f'
					r.Pass(rule, construct, call.Pos(), "format 'f' writes digits, '.', '-' only; inside RegularDecimalReal / the integer literals")
				case "101", "69", "103", "71": // e E g G
					if plusAllowed {
						r.Pass(rule, construct, call.Pos(), "exponent format, and ExponentDecimalReal accepts a '+' sign")
					} else {
						r.Fail(rule, construct, call.Pos(), "format %q writes large and small magnitudes with an explicitly signed exponent (2.5e+06) but the grammar's ExponentDecimalReal is `%s`, which has no '+': the emitted text of an accepted query is rejected when parsed again", rune(atoiSafe(format)), body)
					}
				default:
					r.Fail(rule, construct, call.Pos(), "float format %s is neither 'f' nor an exponent format the grammar was checked against", format)
				}
			case fn.Pkg().Path() == "fmt" && (strings.HasPrefix(fn.Name(), "Sprint") || strings.HasPrefix(fn.Name(), "Fprint")):
				for _, a := range call.Args {
					if b, ok := p.TypesInfo.TypeOf(a).Underlying().(*types.Basic); ok && b.Info()&types.IsFloat != 0 {
						n++
						r.Fail(rule, where+":"+fn.Name(), call.Pos(), "a float is formatted through fmt.%s: %%v/%%g write an explicitly signed exponent for large magnitudes, which ExponentDecimalReal (`%s`) rejects", fn.Name(), body)
					}
				}
			}
			return true
		})
	}
	_ = n
	r.Floor(rule, 1)
}

func atoiSafe(s string) int {
	n := 0
	for _, c := range s {
		if c < '0' || c > '9' {
			return 0
		}
		n = n*10 + int(c-'0')
	}
	return n
}

// checkTerminalsByType (R5): the lexer's SP token matches white space AND comments, so the text of a terminal child is
// not enough to tell an operator from a separator: `1 /* one */ + 2` has the terminal children [SP("/* one */ "), '+',
// SP].  A function that walks a rule's children and takes the text of its terminal nodes must look at the token type
// (GetTokenType) — filtering on "the trimmed text is not empty" lets a comment through as if it were an operator.
func checkTerminalsByType(r *Run, vm *VisitorModel) {
	const rule = "C07-R5-terminal-by-type"
	info := vm.pkg.TypesInfo
	n := 0
	for _, f := range vm.pkg.Syntax {
		for _, d := range f.Decls {
			fd, ok := d.(*ast.FuncDecl)
			if !ok || fd.Body == nil {
				continue
			}
			assertsTerminal, takesText, byType := false, false, false
			// only loops over the children are judged: a fixed child index (ctx.GetChild(0)) names a position the grammar fixes
			var loops []ast.Node
			ast.Inspect(fd.Body, func(x ast.Node) bool {
				switch x.(type) {
				case *ast.ForStmt, *ast.RangeStmt:
					loops = append(loops, x)
				}
				return true
			})
			inLoop := func(pos token.Pos) bool {
				for _, l := range loops {
					if l.Pos() <= pos && pos <= l.End() {
						return true
					}
				}
				return false
			}
			ast.Inspect(fd.Body, func(x ast.Node) bool {
				if x != nil && !inLoop(x.Pos()) {
					if _, isCall := x.(*ast.CallExpr); !isCall {
						return true
					}
					if c := x.(*ast.CallExpr); true {
						if sel, ok := c.Fun.(*ast.SelectorExpr); !ok || sel.Sel.Name != "GetTokenType" {
							return true
						}
					}
				}
				switch t := x.(type) {
				case *ast.TypeAssertExpr:
					if t.Type != nil && strings.HasPrefix(namedName(info.TypeOf(t.Type)), "TerminalNode") {
						assertsTerminal = true
					}
				case *ast.CaseClause:
					for _, e := range t.List {
						if tv, ok := info.Types[e]; ok && tv.IsType() && strings.HasPrefix(namedName(tv.Type), "TerminalNode") {
							assertsTerminal = true
						}
					}
				case *ast.CallExpr:
					if sel, ok := t.Fun.(*ast.SelectorExpr); ok {
						switch sel.Sel.Name {
						case "GetText":
							if strings.HasPrefix(namedName(info.TypeOf(sel.X)), "TerminalNode") {
								takesText = true
							}
						case "GetTokenType":
							byType = true
						}
					}
				}
				return true
			})
			if !assertsTerminal || !takesText {
				continue
			}
			n++
			construct := funcDeclName(fd)
			if byType {
				r.Pass(rule, construct, fd.Pos(), "terminal children are told apart by token type")
			} else {
				r.Fail(rule, construct, fd.Pos(), "%s takes the text of terminal children without looking at their token type: an SP token that carries a comment is not blank, so `1 /* c */ + 2` yields the operator list [\"/* c */\", \"+\"] and the addition is lost", construct)
			}
		}
	}
	// order: operators of different kinds interleave inside one rule (a - b + c).  Collecting them through the per-type
	// accessor GetToken(type, i) inside a loop over token types groups them by type and loses their relative order.
	for _, f := range vm.pkg.Syntax {
		for _, d := range f.Decls {
			fd, ok := d.(*ast.FuncDecl)
			if !ok || fd.Body == nil {
				continue
			}
			ast.Inspect(fd.Body, func(x ast.Node) bool {
				rs, ok := x.(*ast.RangeStmt)
				if !ok {
					return true
				}
				var loopVars []types.Object
				for _, e := range []ast.Expr{rs.Key, rs.Value} {
					if id, ok := e.(*ast.Ident); ok && id.Name != "_" {
						loopVars = append(loopVars, info.Defs[id])
					}
				}
				ast.Inspect(rs.Body, func(m ast.Node) bool {
					call, ok := m.(*ast.CallExpr)
					if !ok || len(call.Args) != 2 {
						return true
					}
					sel, ok := call.Fun.(*ast.SelectorExpr)
					if !ok || sel.Sel.Name != "GetToken" {
						return true
					}
					if tv, isConst := info.Types[call.Args[1]]; isConst && tv.Value != nil {
						return true // GetToken(type, 0): a presence test, no collection
					}
					if id, ok := ast.Unparen(call.Args[0]).(*ast.Ident); ok {
						for _, lv := range loopVars {
							if lv != nil && info.Uses[id] == lv {
								n++
								r.Fail(rule, funcDeclName(fd)+":GetToken-by-type", call.Pos(), "%s collects terminals with GetToken(<type>, i) inside a loop over token types: the tokens come out grouped by type, so `a - b + c` yields the operators [+, -] and is modelled as `a + b - c`", funcDeclName(fd))
							}
						}
					}
					return true
				})
				return true
			})
		}
	}
	if n == 0 {
		r.Undecide("C07-R5: no function that reads the text of terminal children found in the parser front end")
	}
}
