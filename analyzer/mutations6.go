package main

// Self-test mutations for the rules written from the fourth round's seeded changes (refactorings that went subtly
// wrong): each is the slip of one of those changes made directly on today's code, applied in memory, and must make the
// named rule fire.

func init() {
	add := func(prop string, ms ...Mutation) { mutations[prop] = append(mutations[prop], ms...) }
	add("C02",
		Mutation{Name: "aggregate-lowering-accepts-zero-hops", File: "cypher/models/pgsql/optimize/lowering_plan.go",
			Old: "\tif minDepth < 1 {\n\t\treturn 0, 0, false\n\t}\n", New: "\tif minDepth < 0 {\n\t\treturn 0, 0, false\n\t}\n", Expect: "C02-R7-plan-bound-domain"},
		Mutation{Name: "relationship-property-maps-not-collected", File: "cypher/models/pgsql/optimize/reordering.go",
			Old: "\t\t\t} else if relationshipPattern, ok := element.AsRelationshipPattern(); ok {\n\t\t\t\tdependencies = append(dependencies, sortedDependencies(relationshipPattern.Properties)...)\n\t\t\t}", New: "\t\t\t}", Expect: "C02-R8-reorder-dependency-coverage"},
		Mutation{Name: "relationships-of-reversed-path-not-unreversed", File: "cypher/models/pgsql/translate/path_functions.go",
			Old: "\t// Restore original logical edge order when the originating pattern was reversed by the optimizer.\n\tif pathBinding.PathDirectionReversed {\n\t\treversePathCompositeExpressions(edgeArrayReferences)\n\t}\n\n\tif edgeArrayExpression := concatenatePathCompositeParts(edgeArrayReferences); edgeArrayExpression != nil {\n\t\treturn edgeArrayExpression, nil", New: "\tif edgeArrayExpression := concatenatePathCompositeParts(edgeArrayReferences); edgeArrayExpression != nil {\n\t\treturn edgeArrayExpression, nil", Expect: "C02-R9-path-order-unreversed|pathCompositeEdgesExpression"},
	)
	add("C03",
		Mutation{Name: "rewriter-case-on-the-value-form", File: "cypher/models/pgsql/translate/renamer.go",
			Old: "\tcase *pgsql.UnaryExpression:\n", New: "\tcase pgsql.UnaryExpression:\n", Expect: "C03-l-rewriter-case-form"},
		Mutation{Name: "alias-guard-reads-the-target-binding", File: "cypher/models/pgsql/translate/with.go",
			Old: "\t\t\t\t\tif projectedBinding.DataType != pgsql.PathComposite || binding.LastProjection != nil {", New: "\t\t\t\t\tif projectedBinding.DataType != pgsql.PathComposite || projectedBinding.LastProjection != nil {", Expect: "C03-m-with-path-alias-agreement"},
		Mutation{Name: "unwind-clauses-not-handed-to-all-paths-root", File: "cypher/models/pgsql/translate/pattern.go",
			Old: "\t\texpansion.SetUnwindClauses(s.query.CurrentPart().ConsumeUnwindClauses())\n", New: "\t\tif !allPaths {\n\t\t\texpansion.SetUnwindClauses(s.query.CurrentPart().ConsumeUnwindClauses())\n\t\t}\n", Expect: "C03-n-unwind-before-harness"},
	)
	add("C04",
		Mutation{Name: "upper-case-R-decodes-to-LF", File: "cypher/models/pgsql/translate/translator.go",
			Old: "\t\tcase 'r', 'R':\n\t\t\tb.WriteByte('\\r')", New: "\t\tcase 'r':\n\t\t\tb.WriteByte('\\r')\n\t\t\ti++\n\t\tcase 'R':\n\t\t\tb.WriteByte('\\n')", Expect: "C04-R7-escape-table"},
		Mutation{Name: "cte-column-names-written-raw-by-a-shared-helper", File: "cypher/models/pgsql/format/format.go",
			Old: "\t\tfor idx, column := range tableAlias.Shape.Columns {\n\t\t\tif idx > 0 {\n\t\t\t\tbuilder.Write(\", \")\n\t\t\t}\n\n\t\t\tif err := formatNode(builder, column); err != nil {\n\t\t\t\treturn err\n\t\t\t}\n\t\t}", New: "\t\tfor idx, column := range tableAlias.Shape.Columns {\n\t\t\tif idx > 0 {\n\t\t\t\tbuilder.Write(\", \")\n\t\t\t}\n\n\t\t\tbuilder.Write(column)\n\t\t}", Expect: "C04-R1-raw-write"},
	)
	add("C05",
		Mutation{Name: "nil-slice-replacement-written-into-the-callers-map", File: "cypher/models/pgsql/type.go",
			Old: "\t\tencoded = make(map[string]any, len(values))\n\n", New: "", Expect: "C05-R3-inputs-unchanged"},
		Mutation{Name: "work-list-loop-loses-its-break", File: "cypher/models/pgsql/optimize/reordering.go",
			Old: "\t\tif nextIndex < 0 {\n\t\t\treordered = append(reordered, remaining...)\n\t\t\tbreak\n\t\t}\n", New: "\t\tif nextIndex < 0 {\n\t\t\tcontinue\n\t\t}\n", Expect: "C05-R9-loop-progress"},
	)
	add("C07",
		Mutation{Name: "keyword-looked-up-unfolded", File: "cypher/models/cypher/property_key.go",
			Old: "nonSchemaNameKeywords[strings.ToLower(name)]", New: "nonSchemaNameKeywords[name]", Expect: "C07-R6-keyword-lookup-folded"},
		Mutation{Name: "repeat-looked-up-under-the-token", File: "cypher/frontend/literal.go",
			Old: "\tif _, isRepeated := s.Map[s.nextPropertyKey]; isRepeated {", New: "\tif _, isRepeated := s.Map[ctx.GetText()]; isRepeated {", Expect: "C07-R7-keyed-store"},
		Mutation{Name: "first-NOT-subtracted-twice", File: "cypher/frontend/conjunction.go",
			Old: "\tfor remaining := numNegations - 1; remaining > 0; remaining-- {", New: "\tfor remaining := numNegations - 2; remaining > 0; remaining-- {", Expect: "C07-R11-token-multiplicity"},
	)
	add("C08",
		Mutation{Name: "exact-hops-guarded-by-the-parse-tree", File: "cypher/frontend/pattern.go",
			Old: "state == stateFirstIndex && patternRange.StartIndex != nil {", New: "state == stateFirstIndex && ctx.OC_IntegerLiteral(0) != nil {", Expect: "C08-R12-optional-deref-guarded"},
	)
	add("C10",
		Mutation{Name: "lazy-parameter-map-taken-unconditionally", File: "drivers/neo4j/query_rewrite.go",
			Old: "\t\tif parameterRewriter.rewritten {\n\t\t\trewritten = true\n\t\t\trewrittenParameters = parameterRewriter.rewrittenParameters\n\t\t}\n", New: "\t\trewritten = rewritten || parameterRewriter.rewritten\n\t\trewrittenParameters = parameterRewriter.rewrittenParameters\n", Expect: "C10-R9-rewritten-implies-parameters"},
		Mutation{Name: "integrality-tested-through-int64", File: "cypher/models/cypher/format/format.go",
			Old: "\tformatted := strconv.FormatFloat(value, 'f', -1, 64)\n\n\tif !strings.ContainsAny(formatted, \".eEIN\") {\n\t\tformatted += \".0\"\n\t}\n\n\treturn formatted\n", New: "\tif value == float64(int64(value)) {\n\t\treturn strconv.FormatFloat(value, 'f', 1, 64)\n\t}\n\n\treturn strconv.FormatFloat(value, 'f', -1, 64) + strings.Repeat(\"\", 0)\n", Expect: "C10-R3-literal-class"},
	)
	add("C12",
		Mutation{Name: "add-looks-in-the-receiver", File: "graph/kind.go",
			Old: "\t\tif !ref.ContainsOneOf(kind) {\n\t\t\tref = append(ref, kind)", New: "\t\tif !s.ContainsOneOf(kind) {\n\t\t\tref = append(ref, kind)", Expect: "C12-R10-dedupe-against-result"},
		Mutation{Name: "merge-skips-entities-without-current-properties", File: "graph/node.go",
			Old: "\tif other.Properties != nil {\n\t\t// Entities may be created without properties", New: "\tif other.Properties != nil && other.Properties.Len() > 0 {\n\t\t// Entities may be created without properties", Expect: "C12-R11-entity-merge-delegates|Node.Merge"},
	)
	add("C14",
		Mutation{Name: "extension-flag-set-before-the-filter", File: "container/traversal.go",
			Old: "\t\t\t\tif weight, shouldDescend := descentFilter(nextEdge); shouldDescend {\n\t\t\t\t\thasExpansions = true\n", New: "\t\t\t\thasExpansions = true\n\n\t\t\t\tif weight, shouldDescend := descentFilter(nextEdge); shouldDescend {\n", Expect: "C14-R11-extension-flag-paired"},
	)
	add("C15",
		Mutation{Name: "search-does-not-stop-at-the-meeting-point", File: "algo/scc.go",
			Old: "\t\t\t\t\treachable = inboundComponents.Contains(adjacentComponent)\n\t\t\t\t}\n\n\t\t\t\t// Continue iterating if not reachable\n\t\t\t\treturn !reachable", New: "\t\t\t\t\treachable = inboundComponents.Contains(adjacentComponent)\n\t\t\t\t}\n\n\t\t\t\treturn true", Expect: "C15-R8-found-flag-overwritten"},
		Mutation{Name: "undirected-reach-stored-in-the-outbound-cache", File: "algo/reach.go",
			Old: "\tcase graph.DirectionOutbound:\n\t\ts.outboundComponentReach.Put(cursor.component, cursor.reach)\n\t}", New: "\tdefault:\n\t\ts.outboundComponentReach.Put(cursor.component, cursor.reach)\n\t}", Expect: "C15-R4-direction-role"},
	)
	add("C17",
		Mutation{Name: "tracker-asked-before-the-filter", File: "ops/traversal.go",
			Old: "\t\tif nodeFilter(segment.Node) && ctx.LimitSkipTracker.ShouldCollect() {", New: "\t\tif ctx.LimitSkipTracker.ShouldCollect() && nodeFilter(segment.Node) {", Expect: "C17-R6-tracker-after-filter"},
	)
	add("C19",
		Mutation{Name: "completed-graph-differs-only-if-both-counts-do", File: "retriever/dump.go",
			Old: "\t\tif snapshot.NodeCount != graphEntry.NodeCount || snapshot.EdgeCount != graphEntry.EdgeCount {", New: "\t\tif snapshot.NodeCount != graphEntry.NodeCount && snapshot.EdgeCount != graphEntry.EdgeCount {", Expect: "C19-R8-source-counts-agree"},
	)
}
