package main

// C19-R7 reader-option-consumed-once: an option that is an io.Reader (the scrub configuration) can be read to the end
// once. A second place that reads it — to fingerprint it for the checkpoint identity, say — gets nothing, and
// everything derived from that second read is the same for every input: all scrub configurations then share one
// checkpoint identity and a resume with a different configuration is accepted.
//
// C19-R8 persist-callback-contract: the fragment committers treat an error from the persist callback as "the
// checkpoint was not written": they take the fragment out of the in-memory checkpoint and delete the published file.
// The callback must therefore return the error of the checkpoint write and nothing else. An error returned after a
// successful write (a cancellation noticed afterwards) makes the committer delete a fragment that the checkpoint on
// disk lists, and no resume can succeed any more.

import (
	"go/ast"
	"go/token"
	"go/types"
	"sort"
	"strings"

	"golang.org/x/tools/go/packages"
)

func checkReaderOptionsConsumedOnce(r *Run, p *packages.Package) {
	const rule = "C19-R7-reader-option-consumed-once"
	info := p.TypesInfo
	isReader := func(t types.Type) bool {
		n := namedOf(t)
		return n != nil && n.Obj().Pkg() != nil && n.Obj().Pkg().Path() == "io" && n.Obj().Name() == "Reader"
	}
	sites := map[*types.Var][]token.Pos{}
	owners := map[*types.Var]string{}
	where := map[*types.Var][]string{}
	for _, f := range p.Syntax {
		for _, d := range f.Decls {
			fd, ok := d.(*ast.FuncDecl)
			if !ok || fd.Body == nil {
				continue
			}
			ast.Inspect(fd.Body, func(x ast.Node) bool {
				call, ok := x.(*ast.CallExpr)
				if !ok {
					return true
				}
				for _, a := range call.Args {
					sel, ok := ast.Unparen(a).(*ast.SelectorExpr)
					if !ok {
						continue
					}
					fv, ok := info.Uses[sel.Sel].(*types.Var)
					if !ok || !fv.IsField() || !isReader(fv.Type()) || fv.Pkg() != p.Types {
						continue
					}
					// only options of an operation: a stream wrapper's own reader field is read piecewise by design
					if owner := namedName(info.TypeOf(sel.X)); !strings.HasSuffix(owner, "Options") {
						continue
					} else {
						owners[fv] = owner
					}
					// handing the reader on to a function of this package that takes the options' reader is not a read yet
					if callee := calleeOf(info, call); callee != nil && callee.Pkg() == p.Types {
						consumes := false
						if cd := FuncDecls(p)[callee.Name()]; cd != nil && cd.Body != nil {
							consumes = true
						}
						_ = consumes
					}
					sites[fv] = append(sites[fv], call.Pos())
					where[fv] = append(where[fv], funcDeclName(fd)+" → "+exprString(r.Fset, call.Fun))
				}
				return true
			})
		}
	}
	if len(sites) == 0 {
		r.Undecide("C19-R7: no io.Reader option field is handed to a call in package retriever")
		return
	}
	var fields []*types.Var
	for fv := range sites {
		fields = append(fields, fv)
	}
	sort.Slice(fields, func(i, j int) bool { return fields[i].Name() < fields[j].Name() })
	for _, fv := range fields {
		construct := "option:" + owners[fv] + "." + fv.Name()
		if len(sites[fv]) <= 1 {
			r.Pass(rule, construct, sites[fv][0], "the reader is handed to one consumer (%s)", where[fv][0])
		} else {
			r.Fail(rule, construct, sites[fv][1], "the io.Reader option %s is handed to %d consumers (%s): the first one reads it to the end and every later one reads nothing, so whatever the later ones compute is the same for every input", fv.Name(), len(sites[fv]), strings.Join(where[fv], "; "))
		}
	}
}

func checkPersistCallbackContract(r *Run, p *packages.Package) {
	const rule = "C19-R8-persist-callback-contract"
	info := p.TypesInfo
	n := 0
	for _, f := range p.Syntax {
		for _, d := range f.Decls {
			fd, ok := d.(*ast.FuncDecl)
			if !ok || fd.Body == nil {
				continue
			}
			ast.Inspect(fd.Body, func(x ast.Node) bool {
				fl, ok := x.(*ast.FuncLit)
				if !ok || fl.Type.Results == nil || len(fl.Type.Results.List) != 1 || (fl.Type.Params != nil && len(fl.Type.Params.List) > 0) {
					return true
				}
				var write *ast.CallExpr
				ast.Inspect(fl.Body, func(y ast.Node) bool {
					if call, ok := y.(*ast.CallExpr); ok {
						if callee := calleeOf(info, call); callee != nil && callee.Name() == roleName("writeDumpCheckpoint") {
							write = call
						}
					}
					return true
				})
				if write == nil {
					return true
				}
				n++
				// variables that hold the write's error
				errVars := map[types.Object]bool{}
				ast.Inspect(fl.Body, func(y ast.Node) bool {
					if as, ok := y.(*ast.AssignStmt); ok && len(as.Rhs) == 1 && as.Rhs[0] == ast.Expr(write) {
						for _, l := range as.Lhs {
							if id, ok := l.(*ast.Ident); ok {
								errVars[info.ObjectOf(id)] = true
							}
						}
					}
					return true
				})
				var bad ast.Expr
				ast.Inspect(fl.Body, func(y ast.Node) bool {
					if inner, ok := y.(*ast.FuncLit); ok && inner != fl {
						return false
					}
					rs, ok := y.(*ast.ReturnStmt)
					if !ok || len(rs.Results) != 1 {
						return true
					}
					res := ast.Unparen(rs.Results[0])
					switch t := res.(type) {
					case *ast.CallExpr:
						if t == write {
							return true
						}
					case *ast.Ident:
						if isNilIdent(info, t) || errVars[info.Uses[t]] {
							return true
						}
					}
					if bad == nil {
						bad = res
					}
					return true
				})
				construct := funcDeclName(fd) + ":persist-callback"
				if bad == nil {
					r.Pass(rule, construct, fl.Pos(), "the callback returns the checkpoint write's error and nothing else")
				} else {
					r.Fail(rule, construct, bad.Pos(), "the persist callback can return %s, an error that does not come from the checkpoint write: the committers read any error as \"not written\", remove the fragment from the checkpoint in memory and delete the published file, while the checkpoint on disk already lists it — every later resume fails", exprString(r.Fset, bad))
				}
				return true
			})
		}
	}
	if n == 0 {
		r.Undecide("C19-R8: no persist callback (a closure that calls writeDumpCheckpoint) found in package retriever")
	}
}

// checkTerminalAfterFilter (C17-R5): the sequential traversal reports a segment to the path visitor as a terminal when
// nothing was pushed for it. What was *fetched* is not the same once a descent filter turned candidates away: a segment
// whose candidates were all rejected is a terminal too. The guard of the path visitor call must therefore compare the
// work stack's length with the length it had before the descent; a test on the fetched candidates loses those paths.
func checkTerminalAfterFilter(r *Run, p *packages.Package) {
	const rule = "C17-R5-terminal-after-filter"
	if p == nil {
		r.Undecide("C17-R5: package ops not loaded")
		return
	}
	info := p.TypesInfo
	fd := FuncDecls(p)["Traversal"]
	if fd == nil || fd.Body == nil {
		r.Undecide("C17-R5: ops.Traversal not found")
		return
	}
	// the visitor parameter (a function-typed parameter called in the body) and the work stack (a local slice that is
	// both appended to and shortened)
	var visitor types.Object
	for _, pl := range fd.Type.Params.List {
		for _, nm := range pl.Names {
			if obj := info.Defs[nm]; obj != nil {
				if _, isFunc := obj.Type().Underlying().(*types.Signature); isFunc {
					visitor = obj
				}
			}
		}
	}
	appended, shortened := map[types.Object]bool{}, map[types.Object]bool{}
	ast.Inspect(fd.Body, func(x ast.Node) bool {
		as, ok := x.(*ast.AssignStmt)
		if !ok || len(as.Lhs) != 1 || len(as.Rhs) != 1 {
			return true
		}
		id, ok := as.Lhs[0].(*ast.Ident)
		if !ok {
			return true
		}
		switch rhs := ast.Unparen(as.Rhs[0]).(type) {
		case *ast.CallExpr:
			if f, ok := rhs.Fun.(*ast.Ident); ok && f.Name == "append" {
				appended[info.ObjectOf(id)] = true
			}
		case *ast.SliceExpr:
			shortened[info.ObjectOf(id)] = true
		}
		return true
	})
	var stack types.Object
	for o := range appended {
		if shortened[o] {
			stack = o
		}
	}
	if visitor == nil || stack == nil {
		r.Undecide("C17-R5: the path visitor parameter or the work stack of ops.Traversal was not identified")
		return
	}
	// locals holding len(stack)
	lengths := map[types.Object]bool{}
	isLenOfStack := func(e ast.Expr) bool {
		call, ok := ast.Unparen(e).(*ast.CallExpr)
		if !ok || len(call.Args) != 1 {
			return false
		}
		f, ok := call.Fun.(*ast.Ident)
		if !ok || f.Name != "len" {
			return false
		}
		id, ok := ast.Unparen(call.Args[0]).(*ast.Ident)
		return ok && info.Uses[id] == stack
	}
	ast.Inspect(fd.Body, func(x ast.Node) bool {
		if as, ok := x.(*ast.AssignStmt); ok && len(as.Lhs) == 1 && len(as.Rhs) == 1 && isLenOfStack(as.Rhs[0]) {
			if id, ok := as.Lhs[0].(*ast.Ident); ok {
				lengths[info.ObjectOf(id)] = true
			}
		}
		return true
	})
	n := 0
	ast.Inspect(fd.Body, func(x ast.Node) bool {
		call, ok := x.(*ast.CallExpr)
		if !ok {
			return true
		}
		id, ok := call.Fun.(*ast.Ident)
		if !ok || info.Uses[id] != visitor {
			return true
		}
		n++
		comparesStack := false
		for _, l := range controlConds(fd.Body, call) {
			ast.Inspect(l.Expr, func(y ast.Node) bool {
				be, ok := y.(*ast.BinaryExpr)
				if !ok || be.Op != token.EQL {
					return true
				}
				for _, pr := range [][2]ast.Expr{{be.X, be.Y}, {be.Y, be.X}} {
					if v, ok := ast.Unparen(pr[0]).(*ast.Ident); ok && lengths[info.Uses[v]] && isLenOfStack(pr[1]) {
						comparesStack = true
					}
				}
				return true
			})
		}
		if comparesStack {
			r.Pass(rule, "ops.Traversal:path-visitor", call.Pos(), "a segment is reported as a terminal when the work stack did not grow for it")
		} else {
			r.Fail(rule, "ops.Traversal:path-visitor", call.Pos(), "the path visitor is called without comparing the work stack's length with the length before the descent: a segment whose fetched candidates were all turned away by the descent filter (a cycle back into its own path) is not reported, and the path that ends there is lost")
		}
		return true
	})
	if n == 0 {
		r.Undecide("C17-R5: ops.Traversal never calls its path visitor")
	}
}
