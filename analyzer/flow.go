package main

// Small dataflow helpers over type-checked syntax: gate sequences (E5) and origin tags (E6, flow-insensitive
// within a function, parameters resolved through static call sites).

import (
	"go/ast"
	"go/token"
	"go/types"
	"strings"

	"golang.org/x/tools/go/packages"
)

// ---- gate sequences ----------------------------------------------------------------------------

type gate struct {
	Callee  string // short name of the called function/method
	Full    string
	Pos     token.Pos
	Index   int  // index of the top-level statement
	Returns bool // the failing branch leaves the function
	Call    *ast.CallExpr
}

// errGate recognises `if err := f(..); err != nil { return .. }`, `if _, err := f(..); err != nil {..}`,
// and `x, err := f(..)` followed by `if err != nil { return .. }` in a statement list.
func gatesOf(p *packages.Package, list []ast.Stmt) []gate {
	info := p.TypesInfo
	var out []gate
	mk := func(call *ast.CallExpr, ifs *ast.IfStmt, idx int) {
		fn := calleeOf(info, call)
		name, full := "", ""
		if fn != nil {
			name, full = fn.Name(), funcFullName(fn)
		} else {
			name = exprString(p.Fset, call.Fun)
		}
		rets := false
		for _, st := range ifs.Body.List {
			if _, ok := st.(*ast.ReturnStmt); ok {
				rets = true
			}
		}
		out = append(out, gate{Callee: name, Full: full, Pos: call.Pos(), Index: idx, Returns: rets, Call: call})
	}
	isErrNotNil := func(e ast.Expr) bool {
		be, ok := ast.Unparen(e).(*ast.BinaryExpr)
		return ok && be.Op == token.NEQ && isNilIdent(info, be.Y)
	}
	for i, st := range list {
		switch s := st.(type) {
		case *ast.IfStmt:
			if as, ok := s.Init.(*ast.AssignStmt); ok && len(as.Rhs) == 1 && isErrNotNil(s.Cond) {
				if call, ok := ast.Unparen(as.Rhs[0]).(*ast.CallExpr); ok {
					mk(call, s, i)
				}
			}
			// else-if chains: `if a, err := f(); err != nil {..} else if err := g(); err != nil {..}`
			for e := s.Else; e != nil; {
				ei, ok := e.(*ast.IfStmt)
				if !ok {
					break
				}
				if as, ok := ei.Init.(*ast.AssignStmt); ok && len(as.Rhs) == 1 && isErrNotNil(ei.Cond) {
					if call, ok := ast.Unparen(as.Rhs[0]).(*ast.CallExpr); ok {
						mk(call, ei, i)
					}
				}
				e = ei.Else
			}
		case *ast.AssignStmt:
			if len(s.Rhs) == 1 && i+1 < len(list) {
				if call, ok := ast.Unparen(s.Rhs[0]).(*ast.CallExpr); ok {
					if ifs, ok := list[i+1].(*ast.IfStmt); ok && ifs.Init == nil && isErrNotNil(ifs.Cond) {
						mk(call, ifs, i)
					}
				}
			}
		}
	}
	return out
}

// firstStmtCalling: index of the first top-level statement containing a call for which pred holds
// (function literals included: they run as part of the statement or later).
func firstStmtCalling(p *packages.Package, list []ast.Stmt, pred func(fn *types.Func, call *ast.CallExpr) bool) (int, token.Pos) {
	for i, st := range list {
		var pos token.Pos
		ast.Inspect(st, func(n ast.Node) bool {
			if c, ok := n.(*ast.CallExpr); ok && !pos.IsValid() {
				if pred(calleeOf(p.TypesInfo, c), c) {
					pos = c.Pos()
				}
			}
			return !pos.IsValid()
		})
		if pos.IsValid() {
			return i, pos
		}
	}
	return -1, token.NoPos
}

// ---- origin tags ---------------------------------------------------------------------------------

type originAnalysis struct {
	r          *Run
	cg         *CallGraph
	sanitizers map[string]bool // full function names whose result is clean
	cache      map[types.Object]map[string]bool
	inProgress map[types.Object]bool
	// returnSummaries: also include constants/fields that flow into the result of called module functions
	returnSummaries bool
	// fieldCells: one abstract cell per struct field — a field read also yields the origins of every value written to
	// that field anywhere in the analysed packages
	fieldCells bool
	// fieldCellFilter restricts which fields are expanded (nil = all)
	fieldCellFilter func(f *types.Var) bool
	summaryDepth    int
	summaryBusy     map[*types.Func]bool
	fieldCache      map[*types.Var]map[string]bool
	fieldBusy       map[*types.Var]bool
}

func newOriginAnalysis(r *Run, cg *CallGraph, sanitizers ...string) *originAnalysis {
	oa := &originAnalysis{r: r, cg: cg, sanitizers: map[string]bool{}, cache: map[types.Object]map[string]bool{}, inProgress: map[types.Object]bool{}}
	for _, s := range sanitizers {
		oa.sanitizers[s] = true
	}
	return oa
}

// originsOfExpr returns tags describing where the value of e can come from:
//
//	field:<Type>.<Field>   read of a struct field
//	call:<full name>       result of a call (arguments' origins are included too, unless the callee is a sanitizer)
//	clean:<full name>      result of a sanitizer
//	const:<text>           string constant
//	param:<fn>#<i>         unresolved parameter (no static callers)
func (oa *originAnalysis) originsOfExpr(p *packages.Package, fd *ast.FuncDecl, e ast.Expr, depth int) map[string]bool {
	out := map[string]bool{}
	if e == nil || depth > 14 {
		return out
	}
	info := p.TypesInfo
	add := func(m map[string]bool) {
		for k := range m {
			out[k] = true
		}
	}
	e = ast.Unparen(e)
	if tv, ok := info.Types[e]; ok && tv.Value != nil {
		out["const:"+strings.Trim(tv.Value.ExactString(), "\"")] = true
		return out
	}
	switch x := e.(type) {
	case *ast.Ident:
		obj := info.Uses[x]
		if obj == nil {
			obj = info.Defs[x]
		}
		if v, ok := obj.(*types.Var); ok {
			add(oa.originsOfVar(p, fd, v, depth+1))
		}
	case *ast.SelectorExpr:
		if s := info.Selections[x]; s != nil && s.Kind() == types.FieldVal {
			out["field:"+namedName(s.Recv())+"."+s.Obj().Name()] = true
			// when the struct the field is read from was put together by a keyed literal (directly, through locals, or by
			// the callers of this function), only what was stored under this key flows out — not the other fields
			if fv, isVar := s.Obj().(*types.Var); isVar {
				if proj, ok := oa.projectedOrigins(p, fd, x.X, fv.Origin(), depth+1, map[*types.Var]bool{}); ok {
					add(proj)
				} else {
					add(oa.originsOfExpr(p, fd, x.X, depth+1))
				}
			} else {
				add(oa.originsOfExpr(p, fd, x.X, depth+1))
			}
			if oa.fieldCells {
				if fv, ok := s.Obj().(*types.Var); ok && (oa.fieldCellFilter == nil || oa.fieldCellFilter(fv.Origin())) {
					add(oa.originsOfField(fv.Origin(), depth+1))
				}
			}
		} else if s == nil {
			// package-qualified identifier
			add(oa.originsOfExpr(p, fd, x.Sel, depth+1))
		}
	case *ast.CallExpr:
		fn := calleeOf(info, x)
		full := ""
		if fn != nil {
			full = funcFullName(fn)
		}
		if tv, ok := info.Types[x.Fun]; ok && tv.IsType() && len(x.Args) == 1 {
			add(oa.originsOfExpr(p, fd, x.Args[0], depth+1)) // conversion
			return out
		}
		if oa.sanitizers[full] {
			out["clean:"+full] = true
			return out
		}
		if full != "" {
			out["call:"+full] = true
		}
		summarised := false
		if fn != nil && oa.returnSummaries {
			if cd := oa.cg.Decl[fn.Origin()]; cd != nil && cd.Body != nil && oa.summaryDepth < 4 && !oa.summaryBusy[fn.Origin()] {
				summarised = true // the callee's own return expressions decide what flows out (parameters resolve to call-site arguments)
			}
		}
		if !summarised {
			for _, a := range x.Args {
				add(oa.originsOfExpr(p, fd, a, depth+1))
			}
		}
		// return summary of module functions: constants and fields that flow into the first result
		if fn != nil && oa.returnSummaries {
			if cd := oa.cg.Decl[fn.Origin()]; cd != nil && cd.Body != nil && oa.summaryDepth < 4 && !oa.summaryBusy[fn.Origin()] {
				cp := oa.cg.PkgOf[fn.Origin()]
				if oa.summaryBusy == nil {
					oa.summaryBusy = map[*types.Func]bool{}
				}
				oa.summaryBusy[fn.Origin()] = true
				oa.summaryDepth++
				ast.Inspect(cd.Body, func(n ast.Node) bool {
					if _, isLit := n.(*ast.FuncLit); isLit {
						return false
					}
					if rs, ok := n.(*ast.ReturnStmt); ok && len(rs.Results) >= 1 {
						for k, v := range oa.originsOfExpr(cp, cd, rs.Results[0], 1) {
							out[k] = v
						}
					}
					return true
				})
				oa.summaryDepth--
				delete(oa.summaryBusy, fn.Origin())
			}
		}
		if sel, ok := ast.Unparen(x.Fun).(*ast.SelectorExpr); ok {
			if s := info.Selections[sel]; s != nil {
				add(oa.originsOfExpr(p, fd, sel.X, depth+1)) // method receiver
			}
		}
	case *ast.BinaryExpr:
		add(oa.originsOfExpr(p, fd, x.X, depth+1))
		add(oa.originsOfExpr(p, fd, x.Y, depth+1))
	case *ast.IndexExpr:
		add(oa.originsOfExpr(p, fd, x.X, depth+1))
	case *ast.SliceExpr:
		add(oa.originsOfExpr(p, fd, x.X, depth+1))
	case *ast.StarExpr:
		add(oa.originsOfExpr(p, fd, x.X, depth+1))
	case *ast.UnaryExpr:
		add(oa.originsOfExpr(p, fd, x.X, depth+1))
	case *ast.CompositeLit:
		for _, el := range x.Elts {
			if kv, ok := el.(*ast.KeyValueExpr); ok {
				add(oa.originsOfExpr(p, fd, kv.Value, depth+1))
			} else {
				add(oa.originsOfExpr(p, fd, el, depth+1))
			}
		}
	}
	return out
}

func (oa *originAnalysis) originsOfVar(p *packages.Package, fd *ast.FuncDecl, v *types.Var, depth int) map[string]bool {
	if m, ok := oa.cache[v]; ok {
		return m
	}
	out := map[string]bool{}
	if oa.inProgress[v] || depth > 14 {
		return out
	}
	oa.inProgress[v] = true
	defer delete(oa.inProgress, v)
	info := p.TypesInfo
	add := func(m map[string]bool) {
		for k := range m {
			out[k] = true
		}
	}
	// the declared function that contains v
	var owner *ast.FuncDecl
	var ownerFn *types.Func
	var ownerPkg *packages.Package
	for fn, d := range oa.cg.Decl {
		if d.Body != nil && d.Pos() <= v.Pos() && v.Pos() <= d.End() && oa.cg.PkgOf[fn].Fset == p.Fset {
			if oa.cg.PkgOf[fn].Types == v.Pkg() {
				owner, ownerFn, ownerPkg = d, fn, oa.cg.PkgOf[fn]
			}
		}
	}
	if owner == nil {
		// package-level variable
		if pk := oa.r.ByPath[v.Pkg().Path()]; pk != nil {
			if init := pkgVarInit(pk, v); init != nil {
				add(oa.originsOfExpr(pk, nil, init, depth+1))
			}
		}
		oa.cache[v] = out
		return out
	}
	info = ownerPkg.TypesInfo
	// parameter?
	pidx := -1
	if owner.Type.Params != nil {
		i := 0
		for _, pl := range owner.Type.Params.List {
			for _, nm := range pl.Names {
				if info.Defs[nm] == v {
					pidx = i
				}
				i++
			}
		}
	}
	if pidx >= 0 {
		callers := oa.cg.In[ownerFn]
		resolved := false
		for _, e := range callers {
			if e.Kind != "static" {
				continue
			}
			cd := oa.cg.Decl[e.From]
			call := findCallAt(cd, e.Pos)
			if call == nil || pidx >= len(call.Args) {
				continue
			}
			resolved = true
			add(oa.originsOfExpr(oa.cg.PkgOf[e.From], cd, call.Args[pidx], depth+1))
		}
		if !resolved {
			out["param:"+shortFuncName(ownerFn)+"#"+itoa(pidx)] = true
		}
	}
	// assignments inside the owner
	ast.Inspect(owner.Body, func(n ast.Node) bool {
		switch s := n.(type) {
		case *ast.AssignStmt:
			for i, l := range s.Lhs {
				id, ok := ast.Unparen(l).(*ast.Ident)
				if !ok {
					// element store into a map or slice variable: m[k] = value
					if ix, isIndex := ast.Unparen(l).(*ast.IndexExpr); isIndex {
						if base, isIdent := ast.Unparen(ix.X).(*ast.Ident); isIdent && info.Uses[base] == v && len(s.Rhs) == len(s.Lhs) {
							add(oa.originsOfExpr(ownerPkg, owner, s.Rhs[i], depth+1))
						}
					}
					continue
				}
				obj := info.Defs[id]
				if obj == nil {
					obj = info.Uses[id]
				}
				if obj != v {
					continue
				}
				if len(s.Rhs) == len(s.Lhs) {
					add(oa.originsOfExpr(ownerPkg, owner, s.Rhs[i], depth+1))
				} else if len(s.Rhs) == 1 {
					add(oa.originsOfExpr(ownerPkg, owner, s.Rhs[0], depth+1))
				}
			}
		case *ast.ValueSpec:
			for i, nm := range s.Names {
				if info.Defs[nm] == v {
					if i < len(s.Values) {
						add(oa.originsOfExpr(ownerPkg, owner, s.Values[i], depth+1))
					} else if len(s.Values) == 1 {
						add(oa.originsOfExpr(ownerPkg, owner, s.Values[0], depth+1))
					}
				}
			}
		case *ast.RangeStmt:
			for _, kv := range []ast.Expr{s.Key, s.Value} {
				if id, ok := kv.(*ast.Ident); ok && info.Defs[id] == v {
					add(oa.originsOfExpr(ownerPkg, owner, s.X, depth+1))
				}
			}
		}
		return true
	})
	oa.cache[v] = out
	return out
}

func hasTagPrefix(m map[string]bool, prefix string) (string, bool) {
	for k := range m {
		if strings.HasPrefix(k, prefix) {
			return k, true
		}
	}
	return "", false
}

// originsOfField: union of the origins of all values stored into the field (composite-literal keys and assignments)
// in the packages of the call graph.
func (oa *originAnalysis) originsOfField(field *types.Var, depth int) map[string]bool {
	if oa.fieldCache == nil {
		oa.fieldCache = map[*types.Var]map[string]bool{}
		oa.fieldBusy = map[*types.Var]bool{}
	}
	if m, ok := oa.fieldCache[field]; ok {
		return m
	}
	out := map[string]bool{}
	if oa.fieldBusy[field] || depth > 10 || field.Pkg() == nil || !strings.HasPrefix(field.Pkg().Path(), modPath) {
		return out
	}
	oa.fieldBusy[field] = true
	defer delete(oa.fieldBusy, field)
	seenPkg := map[*packages.Package]bool{}
	for fn, fd := range oa.cg.Decl {
		p := oa.cg.PkgOf[fn]
		_ = seenPkg
		if fd.Body == nil {
			continue
		}
		info := p.TypesInfo
		ast.Inspect(fd.Body, func(n ast.Node) bool {
			switch x := n.(type) {
			case *ast.KeyValueExpr:
				if k, ok := x.Key.(*ast.Ident); ok {
					if v, ok := info.Uses[k].(*types.Var); ok && v.Origin() == field {
						for k2 := range oa.originsOfExpr(p, fd, x.Value, depth+1) {
							out[k2] = true
						}
					}
				}
			case *ast.AssignStmt:
				if len(x.Lhs) == len(x.Rhs) {
					for i, l := range x.Lhs {
						if sel, ok := ast.Unparen(l).(*ast.SelectorExpr); ok {
							if s := info.Selections[sel]; s != nil {
								if v, ok := s.Obj().(*types.Var); ok && v.Origin() == field {
									for k2 := range oa.originsOfExpr(p, fd, x.Rhs[i], depth+1) {
										out[k2] = true
									}
								}
							}
						}
					}
				}
			}
			return true
		})
	}
	oa.fieldCache[field] = out
	return out
}

// projectedOrigins: the origins of field `field` of the struct value denoted by base, when every way the value comes
// about is a keyed composite literal of the module (possibly through local variables and parameters bound at static
// call sites). ok=false when some definition is anything else (a call result, a decoded value, an element of a
// collection): the caller then falls back to the origins of the whole value.
func (oa *originAnalysis) projectedOrigins(p *packages.Package, fd *ast.FuncDecl, base ast.Expr, field *types.Var, depth int, busy map[*types.Var]bool) (map[string]bool, bool) {
	out := map[string]bool{}
	if depth > 12 {
		return nil, false
	}
	info := p.TypesInfo
	base = ast.Unparen(base)
	if u, ok := base.(*ast.UnaryExpr); ok && u.Op == token.AND {
		base = ast.Unparen(u.X)
	}
	switch x := base.(type) {
	case *ast.CallExpr:
		// a constructor of the module: the field of what it returns, when every return hands back a keyed literal (or a
		// local that is one)
		fn := calleeOf(info, x)
		if fn == nil {
			return nil, false
		}
		cd := oa.cg.Decl[fn.Origin()]
		cp := oa.cg.PkgOf[fn.Origin()]
		if cd == nil || cd.Body == nil || cp == nil {
			return nil, false
		}
		nret := 0
		okAll := true
		ast.Inspect(cd.Body, func(n ast.Node) bool {
			if _, isLit := n.(*ast.FuncLit); isLit {
				return false
			}
			if rs, ok := n.(*ast.ReturnStmt); ok && len(rs.Results) >= 1 {
				nret++
				m, ok := oa.projectedOrigins(cp, cd, rs.Results[0], field, depth+1, busy)
				if !ok {
					okAll = false
					return true
				}
				for t := range m {
					out[t] = true
				}
			}
			return true
		})
		if nret == 0 || !okAll {
			return nil, false
		}
		return out, true
	case *ast.CompositeLit:
		st, ok := info.TypeOf(x).Underlying().(*types.Struct)
		if !ok {
			return nil, false
		}
		has := false
		for i := 0; i < st.NumFields(); i++ {
			if st.Field(i).Origin() == field {
				has = true
			}
		}
		if !has {
			return nil, false
		}
		for _, el := range x.Elts {
			kv, ok := el.(*ast.KeyValueExpr)
			if !ok {
				return nil, false // positional literal
			}
			if k, ok := kv.Key.(*ast.Ident); ok {
				if kvv, ok := info.Uses[k].(*types.Var); ok && kvv.Origin() == field {
					for t := range oa.originsOfExpr(p, fd, kv.Value, depth+1) {
						out[t] = true
					}
				}
			}
		}
		return out, true
	case *ast.Ident:
		v, ok := info.Uses[x].(*types.Var)
		if !ok || v.IsField() || busy[v] {
			return nil, false
		}
		busy[v] = true
		defer delete(busy, v)
		// the function that declares v
		var owner *ast.FuncDecl
		var ownerFn *types.Func
		var ownerPkg *packages.Package
		for fn, d := range oa.cg.Decl {
			if d.Body != nil && d.Pos() <= v.Pos() && v.Pos() <= d.End() && oa.cg.PkgOf[fn].Types == v.Pkg() && oa.cg.PkgOf[fn].Fset == p.Fset {
				owner, ownerFn, ownerPkg = d, fn, oa.cg.PkgOf[fn]
			}
		}
		if owner == nil {
			return nil, false
		}
		oinfo := ownerPkg.TypesInfo
		ndefs := 0
		okAll := true
		consider := func(dp *packages.Package, dfd *ast.FuncDecl, e ast.Expr) {
			ndefs++
			m, ok := oa.projectedOrigins(dp, dfd, e, field, depth+1, busy)
			if !ok {
				okAll = false
				return
			}
			for t := range m {
				out[t] = true
			}
		}
		// parameter: the arguments at the static call sites
		pidx := -1
		if owner.Type.Params != nil {
			i := 0
			for _, pl := range owner.Type.Params.List {
				for _, nm := range pl.Names {
					if oinfo.Defs[nm] == types.Object(v) {
						pidx = i
					}
					i++
				}
			}
		}
		if pidx >= 0 {
			resolved := false
			for _, e := range oa.cg.In[ownerFn] {
				if e.Kind != "static" {
					return nil, false
				}
				cd := oa.cg.Decl[e.From]
				call := findCallAt(cd, e.Pos)
				if call == nil || pidx >= len(call.Args) {
					return nil, false
				}
				resolved = true
				consider(oa.cg.PkgOf[e.From], cd, call.Args[pidx])
			}
			if !resolved {
				return nil, false
			}
		}
		ast.Inspect(owner.Body, func(n ast.Node) bool {
			switch st := n.(type) {
			case *ast.AssignStmt:
				for i, l := range st.Lhs {
					lid, ok := ast.Unparen(l).(*ast.Ident)
					if ok {
						obj := oinfo.Defs[lid]
						if obj == nil {
							obj = oinfo.Uses[lid]
						}
						if obj == types.Object(v) {
							if len(st.Lhs) == len(st.Rhs) {
								consider(ownerPkg, owner, st.Rhs[i])
							} else {
								okAll = false
							}
						}
						continue
					}
					// a later store into the field itself: v.field = value
					if ls, ok := ast.Unparen(l).(*ast.SelectorExpr); ok && len(st.Lhs) == len(st.Rhs) {
						if sl := oinfo.Selections[ls]; sl != nil {
							if fv, ok := sl.Obj().(*types.Var); ok && fv.Origin() == field {
								if bid, ok := ast.Unparen(ls.X).(*ast.Ident); ok && oinfo.Uses[bid] == types.Object(v) {
									ndefs++
									for t := range oa.originsOfExpr(ownerPkg, owner, st.Rhs[i], depth+1) {
										out[t] = true
									}
								}
							}
						}
					}
				}
			case *ast.ValueSpec:
				for i, nm := range st.Names {
					if oinfo.Defs[nm] == types.Object(v) {
						if i < len(st.Values) {
							consider(ownerPkg, owner, st.Values[i])
						} else if len(st.Values) == 0 {
							ndefs++ // zero value
						} else {
							okAll = false
						}
					}
				}
			case *ast.RangeStmt:
				for _, kv := range []ast.Expr{st.Key, st.Value} {
					if id, ok := kv.(*ast.Ident); ok && oinfo.Defs[id] == types.Object(v) {
						okAll = false
					}
				}
			case *ast.UnaryExpr:
				if st.Op == token.AND {
					if id, ok := ast.Unparen(st.X).(*ast.Ident); ok && oinfo.Uses[id] == types.Object(v) {
						okAll = false // the address escapes: stores through it are not seen
					}
				}
			}
			return true
		})
		if !okAll || ndefs == 0 {
			return nil, false
		}
		return out, true
	}
	return nil, false
}
