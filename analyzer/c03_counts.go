package main

// C03-j count-every-occurrence: projection pruning keeps a binding alive when the source-reference collector counted
// more than one occurrence of its symbol ("declared more than once means it is joined on"). The counters are
// incremented by small add… methods of the collector. An increment may depend on the variable being there (not nil,
// not unnamed) and on nothing else: a seen-set or any other state in front of it under-counts, the plan prunes a node
// a later step still joins on, and the statement refers to an alias that no FROM item defines.

import (
	"go/ast"
	"go/token"
	"go/types"
	"strings"
)

func checkCountEveryOccurrence(r *Run) {
	const rule = "C03-j-count-every-occurrence"
	p := r.MustPkg("cypher/models/pgsql/optimize")
	info := p.TypesInfo
	n := 0
	for _, f := range p.Syntax {
		for _, d := range f.Decls {
			fd, ok := d.(*ast.FuncDecl)
			if !ok || fd.Body == nil || fd.Recv == nil || !strings.Contains(recvTypeName(fd.Recv.List[0].Type), "ReferenceCollector") {
				continue
			}
			ast.Inspect(fd.Body, func(x ast.Node) bool {
				var target ast.Expr
				var at ast.Node
				switch t := x.(type) {
				case *ast.AssignStmt:
					if t.Tok == token.ADD_ASSIGN && len(t.Lhs) == 1 {
						target, at = t.Lhs[0], t
					}
					// a reference set is a counter that saturates at one: recording into it is judged the same way
					if t.Tok == token.ASSIGN && len(t.Lhs) == 1 && strings.HasPrefix(fd.Name.Name, "add") {
						target, at = t.Lhs[0], t
					}
				case *ast.IncDecStmt:
					if t.Tok == token.INC {
						target, at = t.X, t
					}
				}
				ix, ok := target.(*ast.IndexExpr)
				if !ok {
					return true
				}
				if _, isMap := info.TypeOf(ix.X).Underlying().(*types.Map); !isMap {
					return true
				}
				n++
				construct := funcDisplayName(fd) + ":" + exprString(r.Fset, ix.X)
				// conditions in front of the increment: enclosing ifs (and their init statements) and earlier ifs that
				// leave the function. A condition is "other state" when it looks something up in a map of the collector.
				recv := info.Defs[fd.Recv.List[0].Names[0]]
				var stateful ast.Node
				readsCollectorMap := func(n ast.Node) {
					if n == nil {
						return
					}
					ast.Inspect(n, func(y ast.Node) bool {
						if t, ok := y.(*ast.IndexExpr); ok && stateful == nil {
							if sel, ok := ast.Unparen(t.X).(*ast.SelectorExpr); ok {
								if id, ok := ast.Unparen(sel.X).(*ast.Ident); ok && info.Uses[id] == recv {
									if _, isMap := info.TypeOf(t.X).Underlying().(*types.Map); isMap {
										stateful = t
									}
								}
							}
						}
						return true
					})
				}
				var stack []ast.Node
				ast.Inspect(fd.Body, func(y ast.Node) bool {
					if y == nil {
						stack = stack[:len(stack)-1]
						return true
					}
					stack = append(stack, y)
					if y == at {
						for _, a := range stack {
							if ifs, ok := a.(*ast.IfStmt); ok {
								readsCollectorMap(ifs.Init)
								readsCollectorMap(ifs.Cond)
							}
						}
					}
					return true
				})
				ast.Inspect(fd.Body, func(y ast.Node) bool {
					ifs, ok := y.(*ast.IfStmt)
					if !ok || ifs.End() > at.Pos() || len(ifs.Body.List) == 0 {
						return true
					}
					if _, leaves := ifs.Body.List[len(ifs.Body.List)-1].(*ast.ReturnStmt); leaves {
						readsCollectorMap(ifs.Init)
						readsCollectorMap(ifs.Cond)
					}
					return true
				})
				if stateful == nil {
					r.Pass(rule, construct, at.Pos(), "every occurrence of a named variable is counted")
				} else {
					r.Fail(rule, construct, at.Pos(), "the occurrence counter %s is incremented only after a test of other state (%s): repeated occurrences are under-counted, so a node that a later step of the same pattern joins on (match (a)-[]->(b)-[]->(a)) is pruned from its frame and the statement uses an alias no FROM item defines", exprString(r.Fset, ix.X), exprString(r.Fset, stateful))
				}
				return true
			})
		}
	}
	if n < 2 {
		r.Undecide("C03-j: fewer than two occurrence counters found in the source reference collector (%d)", n)
	}
}

// checkParameterMergeTotal (C03-a, merge clause): a lowering that translates a predicate with a private translator
// copies that translator's parameter map into the result. Every key has to arrive: the SQL text already says @key, and
// a parameter without a value at translation time is published as key: nil by every other path. A copy that depends
// on the value leaves @names in the statement that the returned map does not have.
func checkParameterMergeTotal(r *Run) {
	const rule = "C03-a-param-closure"
	tp := r.MustPkg("cypher/models/pgsql/translate")
	info := tp.TypesInfo
	n := 0
	for _, f := range tp.Syntax {
		for _, d := range f.Decls {
			fd, ok := d.(*ast.FuncDecl)
			if !ok || fd.Body == nil {
				continue
			}
			ast.Inspect(fd.Body, func(x ast.Node) bool {
				rs, ok := x.(*ast.RangeStmt)
				if !ok || rs.Value == nil {
					return true
				}
				src, ok := ast.Unparen(rs.X).(*ast.SelectorExpr)
				if !ok || src.Sel.Name != "Parameters" {
					return true
				}
				valID, ok := rs.Value.(*ast.Ident)
				if !ok {
					return true
				}
				val := info.Defs[valID]
				var assign *ast.AssignStmt
				ast.Inspect(rs.Body, func(y ast.Node) bool {
					as, ok := y.(*ast.AssignStmt)
					if !ok || len(as.Lhs) != 1 || len(as.Rhs) != 1 {
						return true
					}
					ix, ok := ast.Unparen(as.Lhs[0]).(*ast.IndexExpr)
					if !ok {
						return true
					}
					dst, ok := ast.Unparen(ix.X).(*ast.SelectorExpr)
					if !ok || dst.Sel.Name != "Parameters" {
						return true
					}
					if id, ok := ast.Unparen(as.Rhs[0]).(*ast.Ident); ok && info.Uses[id] == val {
						assign = as
					}
					return true
				})
				if assign == nil {
					return true
				}
				n++
				construct := funcDeclName(fd) + ":merge(" + exprString(r.Fset, rs.X) + ")"
				testsValue := func(e ast.Expr) bool {
					found := false
					ast.Inspect(e, func(y ast.Node) bool {
						if be, ok := y.(*ast.BinaryExpr); ok && (be.Op == token.EQL || be.Op == token.NEQ) {
							for _, pr := range [][2]ast.Expr{{be.X, be.Y}, {be.Y, be.X}} {
								if id, ok := ast.Unparen(pr[0]).(*ast.Ident); ok && info.Uses[id] == val && isNilIdent(info, ast.Unparen(pr[1])) {
									found = true
								}
							}
						}
						return true
					})
					return found
				}
				bad := false
				for _, l := range controlConds(rs.Body, assign) {
					if testsValue(l.Expr) {
						bad = true
					}
				}
				ast.Inspect(rs.Body, func(y ast.Node) bool {
					ifs, ok := y.(*ast.IfStmt)
					if !ok || ifs.End() > assign.Pos() || len(ifs.Body.List) == 0 {
						return true
					}
					if br, ok := ifs.Body.List[len(ifs.Body.List)-1].(*ast.BranchStmt); ok && br.Tok == token.CONTINUE && testsValue(ifs.Cond) {
						bad = true
					}
					return true
				})
				if bad {
					r.Fail(rule, construct, assign.Pos(), "the parameters of the private translator are carried over only when their value is not nil: a parameter that has no value at translation time (translate.FromCypher binds none) stays in the SQL text as @name while the returned map has no such key")
				} else {
					r.Pass(rule, construct, assign.Pos(), "every parameter of the private translator is carried over, whatever its value")
				}
				return true
			})
		}
	}
	if n == 0 {
		r.Undecide("C03-a: no parameter merge (range over ….Parameters that assigns ….Parameters[key]) found in package translate")
	}
}

// checkBoundFlagRole (C03-k): a traversal step carries LeftNode/RightNode and the flags LeftNodeBound/RightNodeBound; an
// expansion has a root column and a next column. A call that is handed an endpoint of a step together with one of the
// expansion's column names ties that endpoint to that column. All such calls must agree on which endpoint goes with
// which column, and a call made because one side is bound must be handed that side's node: a crossed pair names a
// column the previous frame never projected.
func checkBoundFlagRole(r *Run) {
	const rule = "C03-k-bound-flag-role"
	tp := r.MustPkg("cypher/models/pgsql/translate")
	info := tp.TypesInfo
	type site struct {
		fd           *ast.FuncDecl
		call         *ast.CallExpr
		side, column string
		flagSide     string
	}
	var sites []site
	endpointSide := func(e ast.Expr) string {
		e = ast.Unparen(e)
		if sel, ok := e.(*ast.SelectorExpr); ok && sel.Sel.Name == "Identifier" {
			e = ast.Unparen(sel.X)
		}
		if sel, ok := e.(*ast.SelectorExpr); ok {
			switch sel.Sel.Name {
			case "LeftNode":
				return "Left"
			case "RightNode":
				return "Right"
			}
		}
		return ""
	}
	for _, f := range tp.Syntax {
		for _, d := range f.Decls {
			fd, ok := d.(*ast.FuncDecl)
			if !ok || fd.Body == nil {
				continue
			}
			ast.Inspect(fd.Body, func(x ast.Node) bool {
				call, ok := x.(*ast.CallExpr)
				if !ok {
					return true
				}
				side, column := "", ""
				for _, a := range call.Args {
					if s2 := endpointSide(a); s2 != "" {
						side = s2
					}
					if id, ok := ast.Unparen(a).(*ast.Ident); ok {
						if c, isConst := info.Uses[id].(*types.Const); isConst && c.Pkg() == tp.Types && strings.HasPrefix(c.Name(), "expansion") && strings.HasSuffix(c.Name(), "ID") {
							column = c.Name()
						}
					}
				}
				if side == "" || column == "" {
					return true
				}
				st := site{fd: fd, call: call, side: side, column: column}
				for _, l := range controlConds(fd.Body, call) {
					if l.Neg {
						continue
					}
					ast.Inspect(l.Expr, func(y ast.Node) bool {
						if sel, ok := y.(*ast.SelectorExpr); ok && strings.HasSuffix(sel.Sel.Name, "NodeBound") {
							st.flagSide = strings.TrimSuffix(sel.Sel.Name, "NodeBound")
						}
						return true
					})
				}
				sites = append(sites, st)
				return true
			})
		}
	}
	if len(sites) < 3 {
		r.Undecide("C03-k: fewer than three calls that pair a step endpoint with an expansion column (%d)", len(sites))
		return
	}
	// the pairing most sites use, per column
	votes := map[string]map[string]int{}
	for _, st := range sites {
		if votes[st.column] == nil {
			votes[st.column] = map[string]int{}
		}
		votes[st.column][st.side]++
	}
	ordinal := map[*ast.FuncDecl]int{}
	for _, st := range sites {
		ordinal[st.fd]++
		construct := funcDeclName(st.fd) + ":" + st.side + "Node~" + st.column + "#" + string(rune('0'+ordinal[st.fd]))
		other := map[string]string{"Left": "Right", "Right": "Left"}[st.side]
		switch {
		case votes[st.column][other] > votes[st.column][st.side]:
			r.Fail(rule, construct, st.call.Pos(), "this call ties the step's %sNode to %s while the other calls tie %sNode to it: the constraint names a column of the previous frame that holds the other endpoint, or none at all", st.side, st.column, other)
		case st.flagSide != "" && st.flagSide != st.side:
			r.Fail(rule, construct, st.call.Pos(), "the call is made because the step's %sNodeBound flag holds but is handed the %sNode", st.flagSide, st.side)
		default:
			r.Pass(rule, construct, st.call.Pos(), "endpoint, column and bound flag agree")
		}
	}
}

// itoaOrdinal: the ordinal of the if statement among the function's if statements, for a stable construct key.
func itoaOrdinal(fd *ast.FuncDecl, target *ast.IfStmt) string {
	idx, out := 0, 0
	ast.Inspect(fd.Body, func(x ast.Node) bool {
		if ifs, ok := x.(*ast.IfStmt); ok {
			idx++
			if ifs == target {
				out = idx
			}
		}
		return true
	})
	digits := ""
	if out == 0 {
		return "0"
	}
	for out > 0 {
		digits = string(rune('0'+out%10)) + digits
		out /= 10
	}
	return digits
}
