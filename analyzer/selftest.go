package main

import (
	"fmt"
	"os"
	"path/filepath"
	"strings"
)

// verdictOnly returns 1 if there are failing obligations not in the known list, 2 if undecided, else 0.
func (r *Run) verdictOnly() int {
	kf, _ := loadKnown(r.VerifDir)
	known := map[string]bool{}
	for _, k := range kf.Findings {
		if k.Property == r.Prop {
			known[k.Key] = true
		}
	}
	for rule, floor := range r.Floors {
		if r.Counts[rule] < floor {
			r.Undecide("rule %s below floor", rule)
		}
	}
	code := 0
	if len(r.Undecided) > 0 {
		code = 2
	}
	for _, o := range r.Obls {
		if !o.OK && !known[o.Key()] {
			return 1
		}
	}
	return code
}

func (r *Run) newFailures() []Obligation {
	kf, _ := loadKnown(r.VerifDir)
	known := map[string]bool{}
	for _, k := range kf.Findings {
		if k.Property == r.Prop {
			known[k.Key] = true
		}
	}
	var out []Obligation
	for _, o := range r.Obls {
		if !o.OK && !known[o.Key()] {
			out = append(out, o)
		}
	}
	return out
}

// Mutation is a semantic edit of one repository file, applied through packages.Config.Overlay.
type Mutation struct {
	Name   string
	File   string // repo-relative
	Old    string
	New    string
	Expect string // substring expected in some failing obligation key (rule|construct)
	Also   []Edit // further edits of the same mutation (same or other files)
	// Benign marks a behaviour-preserving edit (rename, helper extraction, reordering of independent statements):
	// the property still holds, so the check must stay silent — no new failure and no "undecided".
	Benign  bool
	All     bool   // replace every occurrence of Old in File (renames); Old must occur at least once
	AlsoAll []Edit // further replace-every-occurrence edits
}

// Edit is one exact, unique text replacement.
type Edit struct {
	File, Old, New string
}

// overlayFor applies the mutation's edits in memory. Every anchor must occur exactly once.
func overlayFor(repo string, m Mutation) (map[string][]byte, string) {
	ov := map[string][]byte{}
	type edit struct {
		Edit
		All bool
	}
	edits := []edit{{Edit{m.File, m.Old, m.New}, m.All}}
	for _, e := range m.Also {
		edits = append(edits, edit{e, false})
	}
	for _, e := range m.AlsoAll {
		edits = append(edits, edit{e, true})
	}
	for _, e := range edits {
		path := filepath.Join(repo, e.File)
		src, have := ov[path]
		if !have {
			b, err := os.ReadFile(path)
			if err != nil {
				return nil, err.Error()
			}
			src = b
		}
		n := strings.Count(string(src), e.Old)
		if (e.All && n == 0) || (!e.All && n != 1) {
			return nil, fmt.Sprintf("anchor occurs %d times in %s", n, e.File)
		}
		if e.All {
			ov[path] = []byte(strings.ReplaceAll(string(src), e.Old, e.New))
		} else {
			ov[path] = []byte(strings.Replace(string(src), e.Old, e.New, 1))
		}
	}
	return ov, ""
}

var mutations = map[string][]Mutation{}

// selfTestResults runs every registered mutation quietly and returns one record per mutation.
func selfTestResults(prop string, fn checkFn, repo, verif string) []map[string]string {
	var out []map[string]string
	for _, m := range mutations[prop] {
		rec := map[string]string{"mutation": m.Name, "file": m.File, "expected_rule_construct": m.Expect}
		ov, why := overlayFor(repo, m)
		if ov == nil {
			rec["result"] = "skipped (" + why + ")"
			out = append(out, rec)
			continue
		}
		res := runCheck(prop, "quick", repo, verif, ov, fn, true)
		if m.Benign {
			rec["kind"] = "benign"
			rec["result"] = "silent"
			if nf := res.run.newFailures(); len(nf) > 0 {
				rec["result"] = "false alarm"
				rec["reported"] = nf[0].Key()
			} else if len(res.run.Undecided) > 0 {
				rec["result"] = "undecided: " + strings.Join(res.run.Undecided, "; ")
			}
			out = append(out, rec)
			continue
		}
		rec["result"] = "missed"
		for _, o := range res.run.newFailures() {
			if strings.Contains(o.Key(), m.Expect) {
				rec["result"] = "fired"
				rec["reported"] = o.Key()
			}
		}
		if rec["result"] == "missed" && len(res.run.Undecided) > 0 {
			rec["result"] = "undecided: " + strings.Join(res.run.Undecided, "; ")
		}
		out = append(out, rec)
	}
	for _, pm := range benignPatchesFor(prop, repo, verif) {
		rec := map[string]string{"mutation": pm.Name, "kind": "benign", "file": "benign/" + strings.TrimPrefix(pm.Name, "refactoring:") + "/patch.diff", "expected_rule_construct": ""}
		if pm.Overlay == nil {
			rec["result"] = "skipped (" + pm.Skip + ")"
			out = append(out, rec)
			continue
		}
		res := runCheck(prop, "quick", repo, verif, pm.Overlay, fn, true)
		rec["result"] = "silent"
		if nf := res.run.newFailures(); len(nf) > 0 {
			rec["result"] = "false alarm"
			rec["reported"] = nf[0].Key()
		} else if len(res.run.Undecided) > 0 {
			rec["result"] = "undecided: " + strings.Join(res.run.Undecided, "; ")
		}
		out = append(out, rec)
	}
	return out
}

func runSelfTest(prop string, fn checkFn, repo, verif string) int {
	muts := mutations[prop]
	failed := 0
	for _, m := range muts {
		ov, why := overlayFor(repo, m)
		if ov == nil {
			fmt.Printf("selftest %s/%s: SKIP (%s)\n", prop, m.Name, why)
			failed++
			continue
		}
		res := runCheck(prop, "quick", repo, verif, ov, fn, true)
		if m.Benign {
			nf := res.run.newFailures()
			switch {
			case len(nf) > 0:
				fmt.Printf("selftest %s/%s: FALSE ALARM on a behaviour-preserving edit: %s\n", prop, m.Name, nf[0].Key())
				failed++
			case len(res.run.Undecided) > 0:
				fmt.Printf("selftest %s/%s: UNDECIDED on a behaviour-preserving edit %v\n", prop, m.Name, res.run.Undecided)
				failed++
			default:
				fmt.Printf("selftest %s/%s: SILENT (benign edit, as required)\n", prop, m.Name)
			}
			continue
		}
		hit := false
		var keys []string
		for _, o := range res.run.newFailures() {
			keys = append(keys, o.Key())
			if strings.Contains(o.Key(), m.Expect) {
				hit = true
			}
		}
		switch {
		case hit:
			fmt.Printf("selftest %s/%s: FIRED on %s\n", prop, m.Name, m.Expect)
		case len(res.run.Undecided) > 0:
			fmt.Printf("selftest %s/%s: UNDECIDED %v\n", prop, m.Name, res.run.Undecided)
			failed++
		default:
			fmt.Printf("selftest %s/%s: MISSED (expected %s, got %v)\n", prop, m.Name, m.Expect, keys)
			failed++
		}
	}
	for _, pm := range benignPatchesFor(prop, repo, verif) {
		if pm.Overlay == nil {
			fmt.Printf("selftest %s/%s: SKIP (%s)\n", prop, pm.Name, pm.Skip)
			failed++
			continue
		}
		res := runCheck(prop, "quick", repo, verif, pm.Overlay, fn, true)
		nf := res.run.newFailures()
		switch {
		case len(nf) > 0:
			fmt.Printf("selftest %s/%s: FALSE ALARM on a behaviour-preserving refactoring: %s\n", prop, pm.Name, nf[0].Key())
			failed++
		case len(res.run.Undecided) > 0:
			fmt.Printf("selftest %s/%s: UNDECIDED on a behaviour-preserving refactoring %v\n", prop, pm.Name, res.run.Undecided)
			failed++
		default:
			fmt.Printf("selftest %s/%s: SILENT (benign refactoring, as required)\n", prop, pm.Name)
		}
	}
	if failed > 0 {
		return 1
	}
	return 0
}
