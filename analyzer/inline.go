package main

// inlineErrorClosures returns a copy of a function body in which calls of local error-returning closures of the shape
//
//	name := func(…) error { …; return nil }
//	…
//	if err := name(args); err != nil { return err }
//
// are replaced by the closure's statements (without the trailing `return nil`; inner `return <err>` statements stay,
// they return the error from the enclosing function exactly as the if statement did). The statement nodes are shared
// with the original tree, so type information keeps working. Path analyses over a function's control-flow graph use
// this so that factoring repeated steps into a closure does not hide them.

import (
	"go/ast"
	"go/token"
	"go/types"

	"golang.org/x/tools/go/packages"
)

func inlineErrorClosures(info *types.Info, body *ast.BlockStmt) *ast.BlockStmt {
	closures := map[types.Object]*ast.FuncLit{}
	for _, st := range body.List {
		as, ok := st.(*ast.AssignStmt)
		if !ok || as.Tok != token.DEFINE || len(as.Lhs) != 1 || len(as.Rhs) != 1 {
			continue
		}
		fl, ok := as.Rhs[0].(*ast.FuncLit)
		if !ok || fl.Type.Results == nil || len(fl.Type.Results.List) != 1 {
			continue
		}
		if id, ok := as.Lhs[0].(*ast.Ident); ok {
			closures[info.Defs[id]] = fl
		}
	}
	if len(closures) == 0 {
		return body
	}
	closureOf := func(st ast.Stmt) *ast.FuncLit {
		ifs, ok := st.(*ast.IfStmt)
		if !ok || ifs.Else != nil || len(ifs.Body.List) != 1 {
			return nil
		}
		init, ok := ifs.Init.(*ast.AssignStmt)
		if !ok || len(init.Lhs) != 1 || len(init.Rhs) != 1 {
			return nil
		}
		call, ok := init.Rhs[0].(*ast.CallExpr)
		if !ok {
			return nil
		}
		id, ok := call.Fun.(*ast.Ident)
		if !ok {
			return nil
		}
		fl := closures[info.Uses[id]]
		if fl == nil {
			return nil
		}
		if _, isRet := ifs.Body.List[0].(*ast.ReturnStmt); !isRet {
			return nil
		}
		return fl
	}
	var rewriteBlock func(b *ast.BlockStmt) *ast.BlockStmt
	var rewriteStmt func(st ast.Stmt) []ast.Stmt
	rewriteStmt = func(st ast.Stmt) []ast.Stmt {
		if fl := closureOf(st); fl != nil {
			stmts := fl.Body.List
			if n := len(stmts); n > 0 {
				if rs, ok := stmts[n-1].(*ast.ReturnStmt); ok && len(rs.Results) == 1 {
					if id, ok := rs.Results[0].(*ast.Ident); ok && id.Name == "nil" {
						stmts = stmts[:n-1]
					}
				}
			}
			return append([]ast.Stmt(nil), stmts...)
		}
		switch t := st.(type) {
		case *ast.BlockStmt:
			return []ast.Stmt{rewriteBlock(t)}
		case *ast.IfStmt:
			c := *t
			c.Body = rewriteBlock(t.Body)
			if t.Else != nil {
				if out := rewriteStmt(t.Else); len(out) == 1 {
					c.Else = out[0]
				}
			}
			return []ast.Stmt{&c}
		case *ast.ForStmt:
			c := *t
			c.Body = rewriteBlock(t.Body)
			return []ast.Stmt{&c}
		case *ast.RangeStmt:
			c := *t
			c.Body = rewriteBlock(t.Body)
			return []ast.Stmt{&c}
		case *ast.AssignStmt:
			// drop the closure definition itself: its statements now live at the call sites
			if len(t.Lhs) == 1 && t.Tok == token.DEFINE {
				if id, ok := t.Lhs[0].(*ast.Ident); ok && closures[info.Defs[id]] != nil {
					return nil
				}
			}
		}
		return []ast.Stmt{st}
	}
	rewriteBlock = func(b *ast.BlockStmt) *ast.BlockStmt {
		c := *b
		c.List = nil
		for _, st := range b.List {
			c.List = append(c.List, rewriteStmt(st)...)
		}
		return &c
	}
	return rewriteBlock(body)
}

// nestGuardClauses rewrites `if c { …leave }; rest…` as `if c { …leave } else { rest… }`, recursively, so that rules
// which walk nested if/else arms see the guard-clause spelling of a function the same way as the nested one. The
// statement nodes are shared with the original tree.
func nestGuardClauses(list []ast.Stmt) []ast.Stmt {
	var out []ast.Stmt
	for i, st := range list {
		switch t := st.(type) {
		case *ast.IfStmt:
			c := *t
			c.Body = &ast.BlockStmt{Lbrace: t.Body.Lbrace, List: nestGuardClauses(t.Body.List), Rbrace: t.Body.Rbrace}
			switch e := t.Else.(type) {
			case *ast.BlockStmt:
				c.Else = &ast.BlockStmt{Lbrace: e.Lbrace, List: nestGuardClauses(e.List), Rbrace: e.Rbrace}
			case *ast.IfStmt:
				if nested := nestGuardClauses([]ast.Stmt{e}); len(nested) == 1 {
					c.Else = nested[0]
				}
			case nil:
				if alwaysLeaves(t.Body) && i+1 < len(list) {
					rest := nestGuardClauses(list[i+1:])
					c.Else = &ast.BlockStmt{Lbrace: list[i+1].Pos(), List: rest, Rbrace: list[len(list)-1].End()}
					out = append(out, &c)
					return out
				}
			}
			out = append(out, &c)
		case *ast.BlockStmt:
			out = append(out, &ast.BlockStmt{Lbrace: t.Lbrace, List: nestGuardClauses(t.List), Rbrace: t.Rbrace})
		case *ast.ForStmt:
			c := *t
			c.Body = &ast.BlockStmt{Lbrace: t.Body.Lbrace, List: nestGuardClauses(t.Body.List), Rbrace: t.Body.Rbrace}
			out = append(out, &c)
		case *ast.RangeStmt:
			c := *t
			c.Body = &ast.BlockStmt{Lbrace: t.Body.Lbrace, List: nestGuardClauses(t.Body.List), Rbrace: t.Body.Rbrace}
			out = append(out, &c)
		default:
			out = append(out, st)
		}
	}
	return out
}

// spliceGatedHelpers returns the statement list with, in front of every statement that calls a function of the same
// package and checks its error (`x, err := h(…)` / `if x, err := h(…); err != nil { … }`), the statements of that
// function's body (recursively, to the given depth). Rules that look for "a rejecting check before step N" in a list of
// statements then also see checks that were factored out into a helper. The original statement stays in place after
// the spliced body, so gates that are recognised by the callee's name are still found.
func spliceGatedHelpers(p *packages.Package, list []ast.Stmt, depth int) []ast.Stmt {
	if depth <= 0 {
		return list
	}
	info := p.TypesInfo
	decls := FuncDecls(p)
	helperOf := func(st ast.Stmt) *ast.FuncDecl {
		var call *ast.CallExpr
		switch t := st.(type) {
		case *ast.AssignStmt:
			if len(t.Rhs) == 1 {
				call, _ = t.Rhs[0].(*ast.CallExpr)
			}
		case *ast.IfStmt:
			if as, ok := t.Init.(*ast.AssignStmt); ok && len(as.Rhs) == 1 {
				call, _ = as.Rhs[0].(*ast.CallExpr)
			}
		}
		if call == nil {
			return nil
		}
		fn := calleeOf(info, call)
		if fn == nil || fn.Pkg() != p.Types {
			return nil
		}
		sig := fn.Type().(*types.Signature)
		if sig.Results().Len() == 0 || !types.Identical(sig.Results().At(sig.Results().Len()-1).Type(), types.Universe.Lookup("error").Type()) {
			return nil
		}
		name := fn.Name()
		if sig.Recv() != nil {
			name = namedName(sig.Recv().Type()) + "." + name
		}
		fd := decls[name]
		if fd == nil || fd.Body == nil {
			return nil
		}
		return fd
	}
	var out []ast.Stmt
	for _, st := range list {
		if fd := helperOf(st); fd != nil {
			out = append(out, spliceGatedHelpers(p, fd.Body.List, depth-1)...)
		}
		out = append(out, st)
	}
	return out
}

// switchToIfChain rewrites every tagless `switch { case c1: A; case c2, c3: B; default: C }` in the list (recursively)
// as `if c1 { A } else if c2 || c3 { B } else { C }`, so that rules which read if/else chains see both spellings. A
// switch with an init statement, a fallthrough, or an unlabelled break that belongs to the switch is left alone (a
// break means something else inside an if). Statement and expression nodes are shared with the original tree.
func switchToIfChain(list []ast.Stmt) []ast.Stmt {
	out := make([]ast.Stmt, 0, len(list))
	for _, st := range list {
		out = append(out, switchToIfStmt(st))
	}
	return out
}

func switchToIfBlock(b *ast.BlockStmt) *ast.BlockStmt {
	if b == nil {
		return nil
	}
	return &ast.BlockStmt{Lbrace: b.Lbrace, List: switchToIfChain(b.List), Rbrace: b.Rbrace}
}

func switchToIfStmt(st ast.Stmt) ast.Stmt {
	switch t := st.(type) {
	case *ast.BlockStmt:
		return switchToIfBlock(t)
	case *ast.IfStmt:
		c := *t
		c.Body = switchToIfBlock(t.Body)
		if t.Else != nil {
			c.Else = switchToIfStmt(t.Else)
		}
		return &c
	case *ast.ForStmt:
		c := *t
		c.Body = switchToIfBlock(t.Body)
		return &c
	case *ast.RangeStmt:
		c := *t
		c.Body = switchToIfBlock(t.Body)
		return &c
	case *ast.LabeledStmt:
		c := *t
		c.Stmt = switchToIfStmt(t.Stmt)
		return &c
	case *ast.SwitchStmt:
		if t.Tag != nil || t.Init != nil {
			return st
		}
		ownBreak := false
		var walk func(n ast.Node)
		walk = func(n ast.Node) {
			ast.Inspect(n, func(m ast.Node) bool {
				switch x := m.(type) {
				case *ast.FuncLit, *ast.ForStmt, *ast.RangeStmt, *ast.SwitchStmt, *ast.TypeSwitchStmt, *ast.SelectStmt:
					return m == n
				case *ast.BranchStmt:
					if x.Tok == token.FALLTHROUGH || (x.Tok == token.BREAK && x.Label == nil) {
						ownBreak = true
					}
				}
				return true
			})
		}
		var head, cur *ast.IfStmt
		var deflt *ast.CaseClause
		for _, cl := range t.Body.List {
			cc := cl.(*ast.CaseClause)
			for _, s := range cc.Body {
				walk(s)
			}
			if cc.List == nil {
				deflt = cc
				continue
			}
			cond := cc.List[0]
			for _, e := range cc.List[1:] {
				cond = &ast.BinaryExpr{X: cond, OpPos: e.Pos(), Op: token.LOR, Y: e}
			}
			arm := &ast.IfStmt{If: cc.Pos(), Cond: cond, Body: &ast.BlockStmt{Lbrace: cc.Colon, List: switchToIfChain(cc.Body), Rbrace: cc.End()}}
			if head == nil {
				head = arm
			} else {
				cur.Else = arm
			}
			cur = arm
		}
		if ownBreak || head == nil {
			return st
		}
		if deflt != nil {
			cur.Else = &ast.BlockStmt{Lbrace: deflt.Colon, List: switchToIfChain(deflt.Body), Rbrace: deflt.End()}
		}
		return head
	}
	return st
}
