package main

// C08-R13 state-deref: a handler that looks through a pointer field of its visitor that only another handler sets.
//
// `s.ReadingClause.Match` is made by EnterOC_Match. A handler of the same visitor that dereferences it — EnterOC_Where
// writing s.ReadingClause.Match.Where — is safe only where an EnterOC_Match of the same visitor frame has run, that is
// below oC_Match. The grammar may bring the handled rule under the visitor by other routes too (oC_Where also closes
// oC_Start and the YIELD of oC_InQueryCall), and the walker calls the handler there all the same: rules the visitor does
// not support only record an error, the walk goes on. The rule walks the grammar from the root with the visitor model,
// carrying the set of fields the Enter handlers on the way have set (reset when another visitor is pushed), and asks at
// every handler: is each field it looks through either in that set, or tested for nil by the guard of the access?

import (
	"go/ast"
	"go/token"
	"strings"
)

func checkStateDerefs(r *Run, vm *VisitorModel, g *Grammar) {
	const rule = "C08-R13-state-deref"
	root := vm.rootVisitor(r)
	// fields that some handler of the visitor sets: only those can be unset when another handler runs
	establishedBy := map[string]map[string]string{} // visitor -> path -> handler name
	for vname, vt := range vm.Types {
		m := map[string]string{}
		for kind, hs := range map[string]map[string]*handlerInfo{"Enter": vt.Enter, "Exit": vt.Exit} {
			for rname, h := range hs {
				for _, p := range h.Establishes {
					m[p] = kind + "OC_" + rname[3:]
				}
			}
		}
		establishedBy[vname] = m
	}
	// fields every construction of the visitor sets to a fresh value: they hold from the moment the visitor is pushed
	ctorFacts := map[string]map[string]bool{}
	for _, f := range vm.pkg.Syntax {
		ast.Inspect(f, func(n ast.Node) bool {
			cl, ok := n.(*ast.CompositeLit)
			if !ok {
				return true
			}
			nt := namedOf(vm.pkg.TypesInfo.TypeOf(cl))
			if nt == nil || vm.Types[nt.Obj().Name()] == nil {
				return true
			}
			set := map[string]bool{}
			for _, el := range cl.Elts {
				if kv, ok := el.(*ast.KeyValueExpr); ok {
					if k, ok := kv.Key.(*ast.Ident); ok && vm.freshPointer(kv.Value, 0) {
						set[k.Name] = true
					}
				}
			}
			name := nt.Obj().Name()
			if prev, has := ctorFacts[name]; has {
				for k := range prev {
					if !set[k] {
						delete(prev, k)
					}
				}
			} else {
				ctorFacts[name] = set
			}
			return true
		})
	}
	startFacts := func(v string) map[string]bool {
		out := map[string]bool{}
		for k := range ctorFacts[v] {
			out[k] = true
		}
		return out
	}
	type item struct {
		V, R, via string
		facts     map[string]bool
	}
	factKey := func(f map[string]bool) string { return strings.Join(sortedKeys(f), ",") }
	queue := []item{{root, "oC_Cypher", "oC_Cypher", startFacts(root)}}
	seen := map[string]bool{}
	type verdict struct {
		bad  string
		pos  token.Pos
		good bool
	}
	verdicts := map[string]*verdict{}
	steps := 0
	for len(queue) > 0 {
		it := queue[0]
		queue = queue[1:]
		k := it.V + "×" + it.R + "|" + factKey(it.facts)
		if seen[k] {
			continue
		}
		seen[k] = true
		steps++
		if steps > 200000 {
			r.Undecide("C08-R13: the walk over (visitor, rule, established fields) did not finish")
			return
		}
		vt := vm.Types[it.V]
		if vt == nil {
			continue
		}
		enter, exit := vt.Enter[it.R], vt.Exit[it.R]
		if enter == nil && exit == nil {
			// no handler: whatever the base visitor does (nothing, or an error), the walk goes on below with the same visitor
			for _, c := range g.Children(it.R) {
				queue = append(queue, item{it.V, c, it.via + " > " + c, it.facts})
			}
			continue
		}
		below := it.facts
		if enter != nil && len(enter.Establishes) > 0 {
			below = map[string]bool{}
			for f := range it.facts {
				below[f] = true
			}
			for _, f := range enter.Establishes {
				below[f] = true
			}
		}
		judge := func(kind string, h *handlerInfo, have map[string]bool, route string) {
			if h == nil {
				return
			}
			for _, d := range h.Derefs {
				setter, only := establishedBy[it.V][d.Path]
				if !only || ctorFacts[it.V][d.Path] {
					continue // set when the visitor is made, or never by a handler: not this rule's business
				}
				construct := it.V + "." + kind + "OC_" + it.R[3:] + ":" + d.Path
				v := verdicts[construct]
				if v == nil {
					v = &verdict{}
					verdicts[construct] = v
				}
				if v.bad != "" {
					continue
				}
				if have[d.Path] {
					v.good, v.pos = true, d.Pos
					continue
				}
				own := false
				for _, p := range h.Establishes {
					if p == d.Path {
						own = true
					}
				}
				if own {
					v.good, v.pos = true, d.Pos
					continue
				}
				// guarded by a nil test of the same field?
				if unsat, _ := bEquiv(bAnd(d.Guard, bNot(bAtom("state:nonnil("+d.Path+")"))), bFalse); unsat {
					v.good, v.pos = true, d.Pos
					continue
				}
				v.bad, v.pos = "the handler looks through s."+d.Path+", which only "+setter+" sets, but the walker also calls it on the route "+route+", where no "+setter+" of this visitor has run before it: the field is nil there and the parser panics instead of reporting an error", d.Pos
			}
		}
		judge("Enter", enter, it.facts, it.via)
		enterF := enter.withFacts(it.facts)
		derivs := g.Derivations(it.R)
		if len(derivs) == 0 {
			derivs = [][]string{nil}
		}
		for _, d := range derivs {
			tops, captured, _ := pushOutcome(enterF, d)
			// what the handlers of the children — run by this visitor, in order — have set by the time each sibling is reached
			running := map[string]bool{}
			for f := range below {
				running[f] = true
			}
			for _, s := range d {
				if !strings.HasPrefix(s, "R:") {
					continue
				}
				child := s[2:]
				if !captured {
					for _, t := range tops {
						v, facts := t, map[string]bool{}
						if v == "" {
							v = it.V
							for f := range running {
								facts[f] = true
							}
						} else {
							facts = startFacts(v)
						}
						queue = append(queue, item{v, child, it.via + " > " + child, facts})
					}
				}
				onlySelf := len(tops) == 1 && tops[0] == ""
				if onlySelf {
					for _, h := range []*handlerInfo{vt.Enter[child], vt.Exit[child]} {
						if h != nil {
							for _, f := range h.Establishes {
								running[f] = true
							}
						}
					}
				}
			}
			judge("Exit", exit, running, it.via+" (children: "+strings.Join(d, " ")+")")
		}
	}
	for _, construct := range sortedKeys(verdicts) {
		v := verdicts[construct]
		if v.bad != "" {
			r.Fail(rule, construct, v.pos, "%s", v.bad)
		} else {
			r.Pass(rule, construct, v.pos, "on every route of the grammar to this handler the field has been set by an Enter handler of the same visitor frame, or the access is under a nil test of it")
		}
	}
	if len(verdicts) == 0 {
		r.Note("C08-R13: no handler looks through a field that another handler sets")
	}
}
