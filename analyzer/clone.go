package main

// Deep copies of syntax trees that keep their type information. The call inliner copies a helper's statements for every
// call site and replaces the helper's parameters by the arguments of that call, so that a helper called twice with
// different arguments (`reportErrorsTo(lexer, ctx); reportErrorsTo(parser, ctx)`) is read as the two statement
// sequences it stands for. go/types keys its facts by node identity; the copier registers, for every copied expression,
// identifier, selector and case clause, the facts of the node it was copied from.

import (
	"go/ast"
	"go/types"
	"reflect"
)

type astCloner struct {
	info   *types.Info
	subst  map[types.Object]ast.Expr // parameter object -> expression that replaces its uses
	origin map[ast.Node]ast.Node     // copy -> original
}

func newASTCloner(info *types.Info, subst map[types.Object]ast.Expr) *astCloner {
	return &astCloner{info: info, subst: subst, origin: map[ast.Node]ast.Node{}}
}

var (
	astNodeType = reflect.TypeOf((*ast.Node)(nil)).Elem()
	objectPtr   = reflect.TypeOf((*ast.Object)(nil))
	scopePtr    = reflect.TypeOf((*ast.Scope)(nil))
)

// Stmts copies a statement list.
func (c *astCloner) Stmts(list []ast.Stmt) []ast.Stmt {
	out := make([]ast.Stmt, 0, len(list))
	for _, st := range list {
		out = append(out, c.node(st).(ast.Stmt))
	}
	return out
}

// Origin returns the node n was copied from (n itself when it is not a copy).
func (c *astCloner) Origin(n ast.Node) ast.Node {
	if o, ok := c.origin[n]; ok {
		return o
	}
	return n
}

func (c *astCloner) node(n ast.Node) ast.Node {
	if n == nil || reflect.ValueOf(n).IsNil() {
		return n
	}
	// a use of a substituted parameter becomes (a copy of) the argument expression
	if id, ok := n.(*ast.Ident); ok && c.subst != nil {
		if obj := c.info.Uses[id]; obj != nil {
			if rep, has := c.subst[obj]; has {
				inner := &astCloner{info: c.info, origin: c.origin}
				return inner.node(rep)
			}
		}
	}
	v := reflect.ValueOf(n)
	if v.Kind() != reflect.Ptr || v.Elem().Kind() != reflect.Struct {
		return n
	}
	cp := reflect.New(v.Elem().Type())
	cp.Elem().Set(v.Elem())
	for i := 0; i < cp.Elem().NumField(); i++ {
		f := cp.Elem().Field(i)
		if !f.CanSet() {
			continue
		}
		switch f.Kind() {
		case reflect.Interface:
			if f.IsNil() {
				continue
			}
			if child, ok := f.Interface().(ast.Node); ok {
				f.Set(reflect.ValueOf(c.node(child)))
			}
		case reflect.Ptr:
			if f.IsNil() || f.Type() == objectPtr || f.Type() == scopePtr {
				continue
			}
			if f.Type().Implements(astNodeType) {
				f.Set(reflect.ValueOf(c.node(f.Interface().(ast.Node))))
			}
		case reflect.Slice:
			if f.IsNil() {
				continue
			}
			et := f.Type().Elem()
			if et.Implements(astNodeType) || (et.Kind() == reflect.Interface && et.NumMethod() > 0) {
				ns := reflect.MakeSlice(f.Type(), f.Len(), f.Len())
				for j := 0; j < f.Len(); j++ {
					el := f.Index(j)
					if el.Kind() == reflect.Interface && el.IsNil() {
						continue
					}
					if child, ok := el.Interface().(ast.Node); ok {
						ns.Index(j).Set(reflect.ValueOf(c.node(child)))
					} else {
						ns.Index(j).Set(el)
					}
				}
				f.Set(ns)
			}
		}
	}
	out := cp.Interface().(ast.Node)
	c.origin[out] = c.Origin(n)
	c.register(n, out)
	return out
}

func (c *astCloner) register(from, to ast.Node) {
	info := c.info
	if fe, ok := from.(ast.Expr); ok {
		te := to.(ast.Expr)
		if tv, has := info.Types[fe]; has {
			info.Types[te] = tv
		}
	}
	switch f := from.(type) {
	case *ast.Ident:
		t := to.(*ast.Ident)
		if o, has := info.Uses[f]; has {
			info.Uses[t] = o
		}
		if o, has := info.Defs[f]; has {
			info.Defs[t] = o
		}
		if info.Instances != nil {
			if inst, has := info.Instances[f]; has {
				info.Instances[t] = inst
			}
		}
	case *ast.SelectorExpr:
		if s, has := info.Selections[f]; has {
			info.Selections[to.(*ast.SelectorExpr)] = s
		}
	case *ast.CaseClause:
		if o, has := info.Implicits[f]; has {
			info.Implicits[to] = o
		}
	case *ast.CompositeLit, *ast.FuncLit, *ast.CallExpr:
	}
	if info.Scopes != nil {
		if sc, has := info.Scopes[from]; has {
			info.Scopes[to] = sc
		}
	}
}
