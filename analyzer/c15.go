package main

// C15 — reachability answers do not depend on the query history: structural necessary conditions of the
// reachability cache.  The values themselves (Tarjan's decomposition, the reach sets) are not decided.
//
//	R1  cached sets are read-only      a bitmap obtained from a cache (Get), or from a function that returns one,
//	                                   is never the receiver of a mutating bitmap method without Clone()
//	R2  cache only finished cursors    the cache write sits in the branch of the search loop in which the cursor
//	                                   has no adjacent component left (all its children completed)
//	R3  cache only complete reach sets the search shares one visited set; a branch that neither descends into an
//	                                   adjacent component nor merges its cached reach leaves the cursor's own
//	                                   reach short of that component's reach — every such branch (for a non-root
//	                                   cursor) sets the flag that gates the cache write
//	R4  direction ↔ cache roles        the getter and the setter pick the inbound cache for DirectionInbound and
//	                                   the outbound cache for DirectionOutbound, and cover the same directions

import (
	"go/ast"
	"go/token"
	"go/types"
	"sort"
	"strings"

	"golang.org/x/tools/go/packages"
)

func init() { register("C15", checkC15) }

func checkC15(r *Run) propMeta {
	meta := propMeta{Level: "other",
		Explanation: "Decides structural necessary conditions of history-independence of the reachability cache (algo/reach.go): (R1) a bitmap obtained from a component-reach cache, directly or through a package function that returns one, is never the receiver of a mutating bitmap method (Or/And/AndNot/Xor/Add/Remove/CheckedAdd/Clear) without Clone(), on any function reachable from a function that takes a graph.Direction; the same holds for a stored bitmap passed to a helper that mutates its parameter and for slices that alias the component graph's arrays (no append, sort, copy-into or element write); (R2) the cache is written only in the branch of the search loop where the cursor has no adjacent component left; (R3) in the search loop, every branch taken for an adjacent component of a non-root cursor either descends into it, merges its cached reach into the cursor, or sets the boolean that gates the cache write — so a reach set pruned by the shared visited set is never cached (this is the defect repaired in f645dcd: on 1->2,1->3,2->4,3->4,4->5 a query for 1 cached {3,4} for 3); (R4) getter and setter select the inbound cache for DirectionInbound and the outbound cache for DirectionOutbound and handle the same directions. NOT decided: correctness of the SCC decomposition, of the component graph, of the bidirectional ComponentReachable search, and of the reach values themselves — all value-level; eviction order.",
		Assumptions: []string{"the component graph is acyclic (so a cursor's children complete before it does)", "cache implementations return the stored value itself (no copy) — the conservative reading for R1"},
		TrustedBase: []string{"go/types", "this analyser"}}
	if err := r.Load("./algo/...", "./container/...", "./cache/..."); err != nil {
		r.Fatal("load: %v", err)
	}
	p := r.MustPkg("algo")
	info := p.TypesInfo
	cg := BuildCallGraph(r, func(path string) bool { return true })
	decls := FuncDecls(p)

	// ---- R1
	var roots []*types.Func
	for fn := range cg.Decl {
		if cg.PkgOf[fn] != p {
			continue
		}
		sig := fn.Type().(*types.Signature)
		for i := 0; i < sig.Params().Len(); i++ {
			if n := namedOf(sig.Params().At(i).Type()); n != nil && n.Obj().Name() == "Direction" && n.Obj().Pkg() != nil && strings.HasSuffix(n.Obj().Pkg().Path(), "/graph") {
				roots = append(roots, fn)
				break
			}
		}
	}
	isCacheGet := func(ci *types.Info, call *ast.CallExpr) string {
		sel, ok := ast.Unparen(call.Fun).(*ast.SelectorExpr)
		if !ok || sel.Sel.Name != "Get" {
			return ""
		}
		if n := namedOf(ci.TypeOf(sel.X)); n != nil && n.Obj().Pkg() != nil && strings.HasSuffix(n.Obj().Pkg().Path(), "/cache") {
			return "entry of cache " + exprString(r.Fset, sel.X)
		}
		return ""
	}
	r.Ob("C15-R1-query-roots", "algo", token.NoPos, len(roots) >= 8, "%d functions of package algo take a graph.Direction", len(roots))
	checkStoredSetsReadOnly(r, "C15-R1-cached-set-readonly", p, cg, roots, false, isCacheGet)
	// the reachability code also works on adjacency slices handed out by the container: none of them may be grown,
	// sorted or written through while it still aliases the container's arrays
	cp := r.MustPkg("container")
	bitmaps := &storedSetAnalysis{r: r, p: p, cg: cg, retStore: map[*types.Func]string{}, busy: map[*types.Func]bool{}, plainFields: false, extraStored: isCacheGet}
	checkStorageAliasing(r, "C15-R1-cached-set-readonly", newAliasAnalysis(r, cg, p, cp), bitmaps, roots)
	// the component graph is built with the CSR builder: its offsets must be complete (shared with C14-R6)
	checkPrefixArraysWrittenEveryIteration(r, cp, "C15-R5-component-graph-offsets")
	checkPartialFlagMonotone(r, r.MustPkg("algo"))
	checkFoundFlagOverwritten(r, "C15-R8-found-flag-overwritten", r.MustPkg("algo"), "a reachable pair is answered as unreachable, depending on the order in which the neighbours are stored")
	checkNodeIDsNotNarrowed(r, "C15-R7-node-ids-not-narrowed", r.MustPkg("algo"), cp)
	r.Floor("C15-R1-cached-set-readonly", 8)

	// ---- R4 roles
	r4roles := findReachRoles(p)
	var r4decls []*ast.FuncDecl
	for _, fd := range r4roles.writers {
		r4decls = append(r4decls, fd)
	}
	for _, fd := range r4roles.readers {
		r4decls = append(r4decls, fd)
	}
	sort.Slice(r4decls, func(i, j int) bool { return r4decls[i].Pos() < r4decls[j].Pos() })
	if len(r4roles.writers) == 0 || len(r4roles.readers) == 0 {
		r.Undecide("C15-R4: the component-reach cache has %d writer(s) and %d reader(s) in package algo", len(r4roles.writers), len(r4roles.readers))
	}
	for _, fd := range r4decls {
		name := funcDeclName(fd)
		if _, isWriter := r4roles.writers[info.Defs[fd.Name].(*types.Func)]; isWriter {
			name = "ReachabilityCache.cacheComponentReach"
		} else {
			name = "ReachabilityCache.cachedComponentReach"
		}
		// which cache side the function (with the selector helper it may call) touches, direction by direction: the
		// statements are walked with every test of the direction parameter against a constant decided for that direction
		bodies := bodyWithHelpers(p, fd)
		dirConsts := directionConstants(info, bodies)
		if len(dirConsts) < 2 {
			r.Undecide("C15-R4: %s does not tell directions apart (no comparison of a graph.Direction with its constants)", name)
			continue
		}
		for _, dir := range sortedKeys(dirConsts) {
			sides := map[string]bool{}
			for _, body := range bodies {
				sidesUnderDirection(info, body, dirConsts[dir], sides)
			}
			short := strings.TrimPrefix(dir, "Direction")
			construct := name + ":" + short
			want := map[string]string{"Outbound": "out", "Inbound": "in"}[short]
			switch {
			case want != "":
				other := map[string]string{"out": "in", "in": "out"}[want]
				if sides[want] && !sides[other] {
					r.Pass("C15-R4-direction-role", construct, fd.Pos(), "%s uses the %sbound cache only", dir, want)
				} else {
					r.Fail("C15-R4-direction-role", construct, fd.Pos(), "for %s the function touches cache sides %v: a reach set computed in one direction is stored under, or served for, the other direction", dir, sortedKeys(sides))
				}
			default:
				if len(sides) == 0 {
					r.Pass("C15-R4-direction-role", construct, fd.Pos(), "%s touches neither cache", dir)
				} else {
					r.Fail("C15-R4-direction-role", construct, fd.Pos(), "for %s — which is neither inbound nor outbound — the function touches the %v cache: a reach set computed over both directions is stored under, or an %sbound answer served for, a component key that the one-directional queries share", dir, sortedKeys(sides), sortedKeys(sides)[0])
				}
			}
		}
	}
	r.Floor("C15-R4-direction-role", 6)

	// ---- R2 / R3: the search loop
	checkReachSearchLoop(r, p, decls)
	return meta
}

func checkReachSearchLoop(r *Run, p *packages.Package, decls map[string]*ast.FuncDecl) {
	info := p.TypesInfo
	roles := findReachRoles(p)
	fd := roles.search
	if fd == nil || roles.cursor == nil {
		r.Undecide("C15-R2: the reach search (a function of package algo that constructs cursors and writes a component-reach cache) was not found")
		return
	}
	// the function is read with its package-level and receiver helpers inlined (a branch that merges the cached reach
	// through a helper is the same branch) and with tagless switches spelled as if/else chains

	// a helper is worth reading only if it does something the rule speaks about: reads or writes the cache, creates a
	// cursor, merges a reach set, or writes a boolean mark of a cursor
	var relevant func(hd *ast.FuncDecl, depth int) bool
	relevant = func(hd *ast.FuncDecl, depth int) bool {
		found := false
		ast.Inspect(hd.Body, func(n ast.Node) bool {
			switch x := n.(type) {
			case *ast.CallExpr:
				if fn := calleeOf(info, x); fn != nil {
					if roles.isVocabulary(fn) {
						found = true
					} else if fn.Pkg() == p.Types && depth < 2 {
						if inner := decls[declKeyOf(fn)]; inner != nil && inner != hd && inner.Body != nil && relevant(inner, depth+1) {
							found = true
						}
					}
				}
				if sel, ok := ast.Unparen(x.Fun).(*ast.SelectorExpr); ok && sel.Sel.Name == "Or" && len(x.Args) == 1 {
					found = true
				}
			case *ast.AssignStmt:
				for _, l := range x.Lhs {
					if sel, ok := ast.Unparen(l).(*ast.SelectorExpr); ok {
						if sl := info.Selections[sel]; sl != nil && sl.Kind() == types.FieldVal {
							if b, ok := sl.Obj().Type().Underlying().(*types.Basic); ok && b.Kind() == types.Bool {
								found = true
							}
						}
					}
				}
			}
			return !found
		})
		return found
	}
	inlBody, _ := inlineCallsOpt(p, fd, fd.Body, 2, func(fn *types.Func) bool {
		if roles.isVocabulary(fn) {
			return true
		}
		hd := decls[declKeyOf(fn)]
		return hd == nil || hd.Body == nil || !relevant(hd, 0)
	}, true)
	bodyList := switchToIfChain(inlBody.List)
	var loop *ast.ForStmt
	for i, st := range bodyList {
		if f, ok := st.(*ast.ForStmt); ok {
			// the body is read with its guard clauses nested (`if c { …; continue }; rest` as `if c { … } else { rest }`)
			c := *f
			c.Body = &ast.BlockStmt{Lbrace: f.Body.Lbrace, List: nestGuardClauses(f.Body.List), Rbrace: f.Body.Rbrace}
			loop = &c
			bodyList[i] = loop
		}
	}
	if loop == nil || len(loop.Body.List) == 0 {
		r.Undecide("C15-R2: search loop not found in componentReachDFS")
		return
	}
	var chain *ast.IfStmt
	chainIdx := -1
	for i, st := range loop.Body.List {
		if ifs, ok := st.(*ast.IfStmt); ok {
			chain, chainIdx = ifs, i
		}
	}
	if chain == nil {
		r.Undecide("C15-R2: the search loop has no branch on the next adjacent component")
		return
	}
	// the head: `if next, hasNext := cursor.NextAdjacent(); !hasNext { … }`, or the same assignment as a statement of its
	// own in front of the chain
	var hasNextObj types.Object
	if as, ok := chain.Init.(*ast.AssignStmt); ok && len(as.Lhs) == 2 {
		if id, isID := as.Lhs[1].(*ast.Ident); isID {
			hasNextObj = info.Defs[id]
		}
	}
	if hasNextObj == nil {
		// the same two-value definition as a statement of its own in front of the chain: `next, hasNext := c.Next()` or
		// a spec of a var block
		for _, st := range loop.Body.List[:chainIdx] {
			switch a := st.(type) {
			case *ast.AssignStmt:
				if len(a.Lhs) == 2 && len(a.Rhs) == 1 && a.Tok == token.DEFINE {
					if _, isCall := ast.Unparen(a.Rhs[0]).(*ast.CallExpr); isCall {
						if id, isID := a.Lhs[1].(*ast.Ident); isID {
							hasNextObj = info.Defs[id]
						}
					}
				}
			case *ast.DeclStmt:
				if gd, isGen := a.Decl.(*ast.GenDecl); isGen {
					for _, sp := range gd.Specs {
						if vs, isVS := sp.(*ast.ValueSpec); isVS && len(vs.Names) == 2 && len(vs.Values) == 1 {
							if _, isCall := ast.Unparen(vs.Values[0]).(*ast.CallExpr); isCall {
								hasNextObj = info.Defs[vs.Names[1]]
							}
						}
					}
				}
			}
		}
	}
	if hasNextObj == nil {
		r.Undecide("C15-R2: the loop's first branch does not take (next, hasNext) from the cursor")
		return
	}
	un, ok := ast.Unparen(chain.Cond).(*ast.UnaryExpr)
	headIsExhausted := ok && un.Op == token.NOT
	if headIsExhausted {
		if id, ok := ast.Unparen(un.X).(*ast.Ident); !ok || info.Uses[id] != hasNextObj {
			headIsExhausted = false
		}
	}
	if !headIsExhausted {
		r.Undecide("C15-R2: the first branch of the search loop is not the `!hasNext` (cursor exhausted) branch")
		return
	}
	isRootCtorCall := func(n ast.Node) bool {
		found := false
		ast.Inspect(n, func(m ast.Node) bool {
			if c, ok := m.(*ast.CallExpr); ok && roles.isRootCtor(calleeOf(info, c)) {
				found = true
			}
			return !found
		})
		return found
	}
	// R2: every cache write of the function is inside the exhausted branch
	var writes []*ast.CallExpr
	ast.Inspect(&ast.BlockStmt{List: bodyList}, func(n ast.Node) bool {
		if c, ok := n.(*ast.CallExpr); ok {
			if fn := calleeOf(info, c); roles.isWriter(fn) {
				writes = append(writes, c)
			}
		}
		return true
	})
	if len(writes) == 0 {
		r.Undecide("C15-R2: componentReachDFS never writes the cache")
		return
	}
	var gate *types.Var // the boolean field whose negation guards the cache write
	for i, w := range writes {
		construct := "componentReachDFS:cache-write#" + itoa(i+1)
		inside := nodeContains(chain.Body, w)
		if inside {
			r.Pass("C15-R2-cache-finished-cursor", construct, w.Pos(), "the cache is written in the branch where the cursor has no adjacent component left")
		} else {
			r.Fail("C15-R2-cache-finished-cursor", construct, w.Pos(), "the cache is written for a cursor that may still have adjacent components to explore: its reach set is incomplete, and later queries are answered from it")
		}
		// the guard of the write
		ast.Inspect(chain.Body, func(n ast.Node) bool {
			ifs, ok := n.(*ast.IfStmt)
			if !ok || !nodeContains(ifs.Body, w) {
				return true
			}
			cond := ast.Unparen(ifs.Cond)
			// `if cursor.cacheable()`: a predicate of the cursor that is one boolean expression stands for it
			if call, isCall := cond.(*ast.CallExpr); isCall {
				if body := predicateBody(p, call); body != nil {
					cond = ast.Unparen(body)
				}
			}
			if u, ok := cond.(*ast.UnaryExpr); ok && u.Op == token.NOT {
				if sel, ok := ast.Unparen(u.X).(*ast.SelectorExpr); ok {
					if s := info.Selections[sel]; s != nil && s.Kind() == types.FieldVal {
						gate, _ = s.Obj().(*types.Var)
					}
				}
			}
			return true
		})
	}
	r.Floor("C15-R2-cache-finished-cursor", 1)

	// R3: terminal branches of the rest of the chain
	var rootObj types.Object
	ast.Inspect(&ast.BlockStmt{List: bodyList}, func(n ast.Node) bool {
		if vs, ok := n.(*ast.ValueSpec); ok {
			for i, nm := range vs.Names {
				if i < len(vs.Values) && isRootCtorCall(vs.Values[i]) {
					rootObj = info.Defs[nm]
				}
			}
		}
		if a, ok := n.(*ast.AssignStmt); ok && len(a.Lhs) == 1 && len(a.Rhs) == 1 && isRootCtorCall(a.Rhs[0]) {
			if id, ok := a.Lhs[0].(*ast.Ident); ok {
				rootObj = info.Defs[id]
			}
		}
		return true
	})
	// rootPredicate: a call of a cursor method whose body is `return s.<field> == nil` with the field a cursor (no ancestor)
	rootPredicate := func(e ast.Expr) bool {
		call, ok := ast.Unparen(e).(*ast.CallExpr)
		if !ok {
			return false
		}
		body := predicateBody(p, call)
		if body == nil {
			return false
		}
		be, ok := ast.Unparen(body).(*ast.BinaryExpr)
		if !ok || be.Op != token.EQL {
			return false
		}
		for _, pair := range [][2]ast.Expr{{be.X, be.Y}, {be.Y, be.X}} {
			if sel, ok := ast.Unparen(pair[0]).(*ast.SelectorExpr); ok && isNilIdent(info, ast.Unparen(pair[1])) {
				if roles.isCursor(info.TypeOf(sel)) {
					return true
				}
			}
		}
		return false
	}
	isRootTest := func(cond ast.Expr, op token.Token) bool {
		if op == token.EQL && rootPredicate(cond) {
			return true
		}
		if u, isNot := ast.Unparen(cond).(*ast.UnaryExpr); isNot && u.Op == token.NOT && op == token.NEQ && rootPredicate(u.X) {
			return true
		}
		be, ok := ast.Unparen(cond).(*ast.BinaryExpr)
		if !ok || be.Op != op {
			return false
		}
		for _, side := range []ast.Expr{be.X, be.Y} {
			if id, ok := ast.Unparen(side).(*ast.Ident); ok && rootObj != nil && info.Uses[id] == rootObj {
				return true
			}
		}
		return false
	}
	nb, np := 0, 0
	// classify: what a sequence of leaf statements does for the cursor
	classify := func(leaves []ast.Node) string {
		descends, merged, flagged := false, false, false
		for _, leaf := range leaves {
			if isCompoundLeaf(leaf) {
				continue // may run zero times
			}
			ast.Inspect(leaf, func(n ast.Node) bool {
				switch x := n.(type) {
				case *ast.FuncLit:
					return false
				case *ast.CallExpr:
					if fn := calleeOf(info, x); roles.isChildCtor(fn) {
						descends = true
					}
					if sel, ok := ast.Unparen(x.Fun).(*ast.SelectorExpr); ok && sel.Sel.Name == "Or" && len(x.Args) == 1 {
						merged = true
					}
				case *ast.AssignStmt:
					for i, l := range x.Lhs {
						if sel, ok := ast.Unparen(l).(*ast.SelectorExpr); ok && gate != nil {
							if s := info.Selections[sel]; s != nil && s.Obj() == gate && i < len(x.Rhs) {
								if tv := info.Types[x.Rhs[i]]; tv.Value != nil && tv.Value.ExactString() == "true" {
									flagged = true
								}
							}
						}
					}
				}
				return true
			})
		}
		switch {
		case descends:
			return "descends into the component"
		case merged:
			return "merges the component's cached reach"
		case flagged:
			return "marks the cursor as not cacheable"
		}
		return ""
	}
	// judge: every way through the branch does one of the three
	judge := func(body *ast.BlockStmt, label string, rootOnly bool) {
		nb++
		construct := "componentReachDFS:" + label
		paths, complete := structuredPaths(info, r.Fset, body.List, 256)
		if !complete {
			r.Undecide("C15-R3: too many paths through %s", label)
			return
		}
		var whats []string
		bad := ""
		np += len(paths)
		for _, pth := range paths {
			what := classify(pth.Leaves)
			if what == "" && pathIsRootOnly(pth, isRootTest) {
				what = "is taken by the root cursor only"
			}
			if what == "" && bad == "" {
				bad = strings.Join(pth.Taken, ", ")
				if bad == "" {
					bad = "unconditionally"
				}
			}
			if what != "" && !containsStr(whats, what) {
				whats = append(whats, what)
			}
		}
		switch {
		case bad == "":
			r.Pass("C15-R3-cache-complete-reach", construct, body.Pos(), "on each of its %d paths the branch %s", len(paths), strings.Join(whats, " / "))
		case rootOnly:
			r.Pass("C15-R3-cache-complete-reach", construct, body.Pos(), "only the root cursor gets here; its reach is the search's visited set and is complete when the search ends")
		default:
			r.Fail("C15-R3-cache-complete-reach", construct, body.Pos(), "on the path [%s] this branch skips an adjacent component without descending into it, merging its cached reach, or marking the cursor: the cursor's reach then lacks what that component reaches, is cached as the component's reach, and a later query for it is answered with too small a set (the answer depends on which node was asked first)", bad)
		}
	}
	cur := chain.Else
	idx := 0
	for cur != nil {
		idx++
		switch e := cur.(type) {
		case *ast.IfStmt:
			judge(e.Body, "adjacent-branch#"+itoa(idx), isRootTest(e.Cond, token.EQL))
			if e.Else == nil {
				// the residual (no else): reachable with the negation of this condition
				nb++
				construct := "componentReachDFS:adjacent-branch#" + itoa(idx) + "/residual"
				if isRootTest(e.Cond, token.NEQ) {
					r.Pass("C15-R3-cache-complete-reach", construct, e.End(), "the remaining case is the root cursor, whose reach is the visited set")
				} else {
					r.Fail("C15-R3-cache-complete-reach", construct, e.End(), "when `%s` is false an adjacent component is skipped silently: a non-root cursor's reach then lacks that component's reach and is cached as if complete", exprString(r.Fset, e.Cond))
				}
			}
			cur = e.Else
		case *ast.BlockStmt:
			judge(e, "adjacent-branch#"+itoa(idx), false)
			cur = nil
		default:
			cur = nil
		}
	}
	if gate == nil {
		r.Fail("C15-R3-cache-complete-reach", "componentReachDFS:gate", writes[0].Pos(), "the cache write is not guarded by a completeness flag of the cursor although the search shares one visited set between sibling branches: a cursor whose adjacent component was already visited elsewhere caches a reach set that lacks that component's reach")
	} else {
		r.Pass("C15-R3-cache-complete-reach", "componentReachDFS:gate", writes[0].Pos(), "the cache write is guarded by !%s", gate.Name())
		// the flag propagates to the ancestor when a partial child is rolled up
		// (any method of the cursor type, or function handed a cursor, that writes the mark of another cursor reached
		// through a field of the first)
		var propAt *ast.FuncDecl
		var cursorMethods []*ast.FuncDecl
		for fn, cfd := range roles.byObj {
			sig := fn.Type().(*types.Signature)
			if sig.Recv() == nil || !roles.isCursor(sig.Recv().Type()) {
				continue
			}
			cursorMethods = append(cursorMethods, cfd)
			ast.Inspect(cfd.Body, func(n ast.Node) bool {
				if a, ok := n.(*ast.AssignStmt); ok {
					for _, l := range a.Lhs {
						if sel, ok := ast.Unparen(l).(*ast.SelectorExpr); ok {
							if s := info.Selections[sel]; s != nil && s.Obj() == gate {
								if _, viaAncestor := ast.Unparen(sel.X).(*ast.SelectorExpr); viaAncestor {
									propAt = cfd
								}
							}
						}
					}
				}
				return true
			})
		}
		switch {
		case propAt != nil:
			r.Pass("C15-R3-cache-complete-reach", "reachCursor.Complete:propagates", propAt.Pos(), "a partial child marks its ancestor: the ancestor's reach inherits the gap")
		case len(cursorMethods) > 0:
			r.Fail("C15-R3-cache-complete-reach", "reachCursor.Complete:propagates", cursorMethods[0].Pos(), "no method of the cursor passes %s on to the ancestor when a child's reach is rolled up: the ancestor inherits the child's incomplete reach and is cached as complete", gate.Name())
		}
	}
	if nb < 3 && np < 3 {
		r.Undecide("C15-R3: expected at least three ways through the adjacent-component part of the search loop, found %d branches with %d paths", nb, np)
	}
	r.Floor("C15-R3-cache-complete-reach", 3)
}

// pathIsRootOnly: one of the conditions taken along the path says the cursor is the root (as a conjunct of a condition
// that held, or a disjunct of one that failed).
func pathIsRootOnly(pth structuredPath, isRootTest func(cond ast.Expr, op token.Token) bool) bool {
	var holds func(e ast.Expr, neg bool) bool
	holds = func(e ast.Expr, neg bool) bool {
		e = ast.Unparen(e)
		if be, ok := e.(*ast.BinaryExpr); ok {
			if (be.Op == token.LAND && !neg) || (be.Op == token.LOR && neg) {
				return holds(be.X, neg) || holds(be.Y, neg)
			}
		}
		if u, ok := e.(*ast.UnaryExpr); ok && u.Op == token.NOT {
			if _, isCall := ast.Unparen(u.X).(*ast.CallExpr); !isCall {
				return holds(u.X, !neg)
			}
			if neg {
				return isRootTest(u.X, token.EQL)
			}
			return false
		}
		if neg {
			return isRootTest(e, token.NEQ)
		}
		return isRootTest(e, token.EQL)
	}
	for _, c := range pth.Conds {
		if holds(c.Expr, c.Neg) {
			return true
		}
	}
	return false
}

// directionConstants: the constants of a type named Direction that the bodies compare a value with (by == / != or as
// switch cases), plus the other constants of that type declared in the same package.
func directionConstants(info *types.Info, bodies []ast.Node) map[string]*types.Const {
	out := map[string]*types.Const{}
	var dirType types.Type
	note := func(e ast.Expr) {
		var id *ast.Ident
		switch x := ast.Unparen(e).(type) {
		case *ast.Ident:
			id = x
		case *ast.SelectorExpr:
			id = x.Sel
		}
		if id == nil {
			return
		}
		if c, ok := info.Uses[id].(*types.Const); ok && namedName(c.Type()) == "Direction" {
			out[c.Name()] = c
			dirType = c.Type()
		}
	}
	for _, b := range bodies {
		ast.Inspect(b, func(n ast.Node) bool {
			switch t := n.(type) {
			case *ast.BinaryExpr:
				if t.Op == token.EQL || t.Op == token.NEQ {
					note(t.X)
					note(t.Y)
				}
			case *ast.CaseClause:
				for _, e := range t.List {
					note(e)
				}
			}
			return true
		})
	}
	if dirType != nil {
		if nt := namedOf(dirType); nt != nil && nt.Obj().Pkg() != nil {
			sc := nt.Obj().Pkg().Scope()
			for _, nm := range sc.Names() {
				if c, ok := sc.Lookup(nm).(*types.Const); ok && types.Identical(c.Type(), dirType) && strings.HasPrefix(c.Name(), "Direction") {
					out[c.Name()] = c
				}
			}
		}
	}
	return out
}

// sidesUnderDirection collects the cache sides (fields named for inbound / outbound) mentioned by the statements of
// body that can run when the direction value equals dir.
func sidesUnderDirection(info *types.Info, body ast.Node, dir *types.Const, sides map[string]bool) {
	isDirValue := func(e ast.Expr) bool {
		t := info.TypeOf(e)
		if t == nil || namedName(t) != "Direction" {
			return false
		}
		tv, has := info.Types[e]
		return has && tv.Value == nil
	}
	constOf := func(e ast.Expr) *types.Const {
		var id *ast.Ident
		switch x := ast.Unparen(e).(type) {
		case *ast.Ident:
			id = x
		case *ast.SelectorExpr:
			id = x.Sel
		}
		if id == nil {
			return nil
		}
		c, _ := info.Uses[id].(*types.Const)
		return c
	}
	// truth of a condition under dir: 1 true, 0 false, -1 unknown
	var truth func(e ast.Expr) int
	truth = func(e ast.Expr) int {
		e = ast.Unparen(e)
		switch t := e.(type) {
		case *ast.UnaryExpr:
			if t.Op == token.NOT {
				if v := truth(t.X); v >= 0 {
					return 1 - v
				}
			}
		case *ast.BinaryExpr:
			switch t.Op {
			case token.LAND:
				a, b := truth(t.X), truth(t.Y)
				if a == 0 || b == 0 {
					return 0
				}
				if a == 1 && b == 1 {
					return 1
				}
			case token.LOR:
				a, b := truth(t.X), truth(t.Y)
				if a == 1 || b == 1 {
					return 1
				}
				if a == 0 && b == 0 {
					return 0
				}
			case token.EQL, token.NEQ:
				var c *types.Const
				switch {
				case isDirValue(t.X):
					c = constOf(t.Y)
				case isDirValue(t.Y):
					c = constOf(t.X)
				}
				if c != nil && namedName(c.Type()) == "Direction" {
					same := c.Val().ExactString() == dir.Val().ExactString()
					if (t.Op == token.EQL) == same {
						return 1
					}
					return 0
				}
			}
		}
		return -1
	}
	note := func(n ast.Node) {
		ast.Inspect(n, func(m ast.Node) bool {
			if sel, ok := m.(*ast.SelectorExpr); ok {
				if s := info.Selections[sel]; s != nil && s.Kind() == types.FieldVal {
					if sd := sideOfName(sel.Sel.Name); sd != "" {
						sides[sd] = true
					}
				}
			}
			return true
		})
	}
	var walk func(list []ast.Stmt) bool // returns false when the list always leaves (return) on this direction
	walk = func(list []ast.Stmt) bool {
		for _, st := range list {
			switch t := st.(type) {
			case *ast.BlockStmt:
				if !walk(t.List) {
					return false
				}
			case *ast.IfStmt:
				if t.Init != nil {
					note(t.Init)
				}
				note(t.Cond)
				v := truth(t.Cond)
				thenFalls, elseFalls := true, true
				if v != 0 {
					thenFalls = walk(t.Body.List)
				}
				if v != 1 {
					switch e := t.Else.(type) {
					case *ast.BlockStmt:
						elseFalls = walk(e.List)
					case *ast.IfStmt:
						elseFalls = walk([]ast.Stmt{e})
					}
				}
				switch {
				case v == 1 && !thenFalls, v == 0 && !elseFalls && t.Else != nil, v < 0 && !thenFalls && !elseFalls && t.Else != nil:
					return false
				}
			case *ast.SwitchStmt:
				if t.Init != nil {
					note(t.Init)
				}
				if t.Tag != nil && isDirValue(t.Tag) {
					var chosen *ast.CaseClause
					var deflt *ast.CaseClause
					for _, c := range t.Body.List {
						cc := c.(*ast.CaseClause)
						if cc.List == nil {
							deflt = cc
						}
						for _, e := range cc.List {
							if c := constOf(e); c != nil && c.Val().ExactString() == dir.Val().ExactString() {
								chosen = cc
							}
						}
					}
					if chosen == nil {
						chosen = deflt
					}
					if chosen != nil {
						if !walk(chosen.Body) {
							return false
						}
					}
					continue
				}
				if t.Tag == nil {
					// tagless: cases in order
					decided := false
					for _, c := range t.Body.List {
						cc := c.(*ast.CaseClause)
						if cc.List == nil {
							continue
						}
						v := 0
						for _, e := range cc.List {
							note(e)
							switch truth(e) {
							case 1:
								v = 1
							case -1:
								if v == 0 {
									v = -1
								}
							}
						}
						if v != 0 {
							walk(cc.Body)
						}
						if v == 1 {
							decided = true
							break
						}
					}
					if !decided {
						for _, c := range t.Body.List {
							if cc := c.(*ast.CaseClause); cc.List == nil {
								walk(cc.Body)
							}
						}
					}
					continue
				}
				note(t)
			case *ast.ReturnStmt:
				note(t)
				return false
			default:
				note(st)
			}
		}
		return true
	}
	switch b := body.(type) {
	case *ast.BlockStmt:
		walk(b.List)
	default:
		note(body)
	}
}
