package main

// C13-R7 widen-before-arithmetic: the 32-bit bitmap talks to roaring's range operations in uint64 because the end of a
// half-open range over all of uint32 does not fit in 32 bits. `uint64(last+1)` does the addition in 32 bits and widens
// the already wrapped result: for last = 4294967295 the range end is 0 and the operation silently does nothing. The
// conversion must be applied to the operands, not to the sum: `uint64(last)+1`.

import (
	"go/ast"
	"go/token"
	"go/types"

	"golang.org/x/tools/go/packages"
)

func checkWidenBeforeArithmetic(r *Run, p *packages.Package) {
	const rule = "C13-R7-widen-before-arithmetic"
	info := p.TypesInfo
	n := 0
	intSize := func(t types.Type) (int, bool) {
		b, ok := t.Underlying().(*types.Basic)
		if !ok || b.Info()&types.IsInteger == 0 {
			return 0, false
		}
		switch b.Kind() {
		case types.Int8, types.Uint8:
			return 8, true
		case types.Int16, types.Uint16:
			return 16, true
		case types.Int32, types.Uint32:
			return 32, true
		case types.Int64, types.Uint64, types.Int, types.Uint, types.Uintptr:
			return 64, true
		}
		return 0, false
	}
	for _, f := range p.Syntax {
		for _, d := range f.Decls {
			fd, ok := d.(*ast.FuncDecl)
			if !ok || fd.Body == nil {
				continue
			}
			nth := 0
			ast.Inspect(fd.Body, func(x ast.Node) bool {
				call, ok := x.(*ast.CallExpr)
				if !ok || len(call.Args) != 1 {
					return true
				}
				tv, has := info.Types[call.Fun]
				if !has || !tv.IsType() {
					return true
				}
				to, ok := intSize(tv.Type)
				if !ok {
					return true
				}
				be, ok := ast.Unparen(call.Args[0]).(*ast.BinaryExpr)
				if !ok {
					return true
				}
				switch be.Op {
				case token.ADD, token.SUB, token.MUL, token.SHL:
				default:
					return true
				}
				if atv, has := info.Types[be]; has && atv.Value != nil {
					return true // a constant expression
				}
				from, ok := intSize(info.TypeOf(be))
				if !ok || from >= to {
					return true
				}
				n++
				nth++
				construct := funcDeclName(fd) + ":widen#" + itoa(nth)
				r.Fail(rule, construct, call.Pos(), "%s converts the result of a %d-bit %s to %d bits: the arithmetic has already wrapped when the value is widened (for the largest value, `+ 1` gives 0), so a range that ends at the top of the value space is empty and the operation silently leaves those members untouched; convert the operand first", exprString(r.Fset, call), from, be.Op, to)
				return true
			})
		}
	}
	r.Ob(rule, "cardinality:scanned", token.NoPos, true, "%d widening conversions of a narrower arithmetic result found", n)
}
