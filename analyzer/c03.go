package main

// C03 — emitted SQL is closed: parameter closure, DML origin, rewriter reach, discarded walk errors.

import (
	"go/ast"
	"go/token"
	"go/types"
	"strings"
)

func init() { register("C03", checkC03) }

func checkC03(r *Run) propMeta {
	meta := propMeta{Level: "other",
		Explanation: "Decides structural necessary conditions of closedness of the emitted SQL: (a) parameter closure — every construction of a pgsql.Parameter node in the translator is paired, in the same statement group, with a store of a value under the same identifier into the parameter map that is returned (or the path ends in an error); (b) DML origin — INSERT/UPDATE/DELETE/MERGE nodes whose target is a persistent table of schema_up.sql are constructible only under the translator's updating-clause dispatch (control gate) or per element of a collection that only that dispatch fills (data gate); INSERTs into the harness's session temp tables are allowed on read paths and listed; (c) [rewriter reach is decided under C11's SQL-walker rule]; (d) no walk error is discarded (`_ = walk.PgSQL(…)` or a bare call) except at sites listed with a reason. (e) in the CREATE builders every helper that frame-qualifies identifiers (reaches RewriteFrameBindings) is called after buildCreateSourceFrame; (f) a liveness collector that suppresses its *cypher.Variable arm by traversal state looks, in the arms that run in the suppressed mode, at every expression-holding field of the node type (otherwise a variable read only there is pruned and its reference dangles). (g) every producer of PatternTarget/TraversalStepTarget keys numbers clauses by their position in the reading-clause list; (h) Scope.Snapshot re-points the copied bindings' dependency pointers; (i) a frame-qualified reference guarded by Known().Contains asks the frame it names. NOT decided: that each reference resolves to exactly one in-scope definition and that CTE column lists match their bodies — that is a binder over runtime-built ASTs for all queries.",
		Assumptions: []string{"persistent vs session tables are read from drivers/pg/query/sql/schema_up.sql"},
		TrustedBase: []string{"go/types", "this analyser"}}
	if err := r.Load("./..."); err != nil {
		r.Fatal("load: %v", err)
	}
	checkParameterClosure(r)
	checkDMLOrigin(r, "C03-b-dml-origin")
	// (c) rewriter reach: the SQL walker's child coverage is decided (and its four unvisited-but-populated fields are
	// listed as findings) under C11. It is not an obligation here: ORDER BY / LIMIT / GROUP BY expressions are rewritten by
	// the translator before they are stored, so no emitted statement with an unresolved reference could be demonstrated.
	r.Note("rewriter reach (walk.PgSQL child coverage) is decided under C11-sqlwalk-child")
	checkDiscardedWalkErrors(r)
	checkCreateFrameOrdering(r)
	checkLivenessCollectors(r)
	checkTargetIndexAgreement(r)
	checkSnapshotRelinks(r)
	checkFrameGuardAgreement(r)
	checkCountEveryOccurrence(r)
	checkParameterMergeTotal(r)
	checkBoundFlagRole(r)
	checkRewriterCaseForms(r, r.MustPkg("cypher/models/pgsql/translate"))
	checkWithPathAliasAgreement(r, r.MustPkg("cypher/models/pgsql/translate"))
	checkUnwindBeforeHarness(r, r.MustPkg("cypher/models/pgsql/translate"))
	checkCopyWrittenBack(r, "C03-o-copy-written-back", "A row source appended to the copy's FROM list never reaches the statement, while the projection and the filters still name what it was to define.", r.MustPkg("cypher/models/pgsql/translate"))
	r.Floor("C03-a-parameter-closure", 5)
	r.Floor("C03-b-dml-origin", 5) // node and edge creation, deletion, update, and at least one harness insert (harness builders may share one constructor)
	r.Floor("C03-d-walk-error", 5)
	return meta
}

func checkParameterClosure(r *Run) {
	tp := r.MustPkg("cypher/models/pgsql/translate")
	info := tp.TypesInfo
	for _, f := range tp.Syntax {
		for _, d := range f.Decls {
			fd, ok := d.(*ast.FuncDecl)
			if !ok || fd.Body == nil {
				continue
			}
			// outermost statement of each node
			n := 0
			for _, top := range fd.Body.List {
				ast.Inspect(top, func(x ast.Node) bool {
					var idExpr ast.Expr
					var pos token.Pos
					switch v := x.(type) {
					case *ast.CompositeLit:
						if tv, ok := info.Types[v]; ok && namedName(tv.Type) == "Parameter" && namedOf(tv.Type) != nil && strings.HasSuffix(namedOf(tv.Type).Obj().Pkg().Path(), "/pgsql") {
							for _, el := range v.Elts {
								if kv, ok := el.(*ast.KeyValueExpr); ok {
									if k, ok := kv.Key.(*ast.Ident); ok && k.Name == "Identifier" {
										idExpr, pos = kv.Value, v.Pos()
									}
								}
							}
						}
					case *ast.CallExpr:
						if fn := calleeOf(info, v); fn != nil && fn.Name() == "AsParameter" && len(v.Args) >= 1 {
							idExpr, pos = v.Args[0], v.Pos()
						}
					}
					if idExpr == nil {
						return true
					}
					n++
					want := strings.ReplaceAll(exprString(r.Fset, idExpr), " ", "") + ".String()"
					// a store under the same key that runs whenever the construction ran and no error was met afterwards: every
					// condition that controls the store also controls the construction, or is an "error is nil" test (nested
					// else-arms and guard clauses give the same conditions)
					stored := false
					constructConds := controlConds(fd.Body, x)
					ast.Inspect(fd.Body, func(y ast.Node) bool {
						as, ok := y.(*ast.AssignStmt)
						if !ok || stored {
							return true
						}
						for _, l := range as.Lhs {
							if ix, ok := ast.Unparen(l).(*ast.IndexExpr); ok {
								if _, isMap := info.Types[ix.X].Type.Underlying().(*types.Map); isMap {
									if strings.ReplaceAll(exprString(r.Fset, ix.Index), " ", "") == want {
										unconditional := true
										for _, lit := range controlConds(fd.Body, as) {
											shared := false
											for _, c := range constructConds {
												if c.Expr == lit.Expr && c.Neg == lit.Neg {
													shared = true
												}
											}
											if cls, negated := classifyAtom(info, lit.Expr); cls == atomErrNonNil && lit.Neg != negated {
												shared = true // "err == nil"
											}
											if !shared {
												unconditional = false
											}
										}
										if unconditional {
											stored = true
										}
									}
								}
							}
						}
						return true
					})
					construct := funcDeclName(fd) + ":@" + strings.TrimSuffix(want, ".String()")
					if stored {
						r.Pass("C03-a-parameter-closure", construct, pos, "the same statement group stores a value under %s in the parameter map", want)
					} else {
						r.Fail("C03-a-parameter-closure", construct, pos, "a @parameter node is constructed for %s but no value is stored under that key in the parameter map in the same statement group: the emitted SQL references a parameter that the result does not define", strings.TrimSuffix(want, ".String()"))
					}
					return true
				})
			}
			_ = n
		}
	}
	// the expansion builder's parameter map is the translation's result map
	found := false
	for _, f := range tp.Syntax {
		ast.Inspect(f, func(n ast.Node) bool {
			call, ok := n.(*ast.CallExpr)
			if !ok {
				return true
			}
			if fn := calleeOf(info, call); fn != nil && fn.Name() == "NewExpansionBuilder" {
				for _, a := range call.Args {
					if strings.HasSuffix(exprString(r.Fset, a), "translation.Parameters") {
						found = true
					}
				}
			}
			return true
		})
	}
	if found {
		r.Pass("C03-a-parameter-closure", "NewExpansionBuilder:queryParameters", token.NoPos, "the expansion builder writes into the translation's own Parameters map")
	} else {
		r.Fail("C03-a-parameter-closure", "NewExpansionBuilder:queryParameters", token.NoPos, "the expansion builder is not constructed with translation.Parameters: harness parameters are stored in a map that is not returned")
	}
}

func checkDiscardedWalkErrors(r *Run) {
	tbl := r.LoadTable("c03_walk_errors")
	for _, rel := range []string{"cypher/models/pgsql/translate", "cypher/models/pgsql/optimize", "cypher/models/pgsql/format", "cypher/models/pgsql"} {
		p := r.Pkg(rel)
		if p == nil {
			continue
		}
		info := p.TypesInfo
		for _, f := range p.Syntax {
			for _, d := range f.Decls {
				fd, ok := d.(*ast.FuncDecl)
				if !ok || fd.Body == nil {
					continue
				}
				ast.Inspect(fd.Body, func(n ast.Node) bool {
					var call *ast.CallExpr
					switch s := n.(type) {
					case *ast.AssignStmt:
						if len(s.Lhs) == 1 && len(s.Rhs) == 1 {
							if id, ok := s.Lhs[0].(*ast.Ident); ok && id.Name == "_" {
								call, _ = s.Rhs[0].(*ast.CallExpr)
							}
						}
					case *ast.ExprStmt:
						call, _ = s.X.(*ast.CallExpr)
					}
					if call == nil {
						return true
					}
					fn := calleeOf(info, call)
					if fn == nil || fn.Pkg() == nil || !strings.HasSuffix(fn.Pkg().Path(), "/models/walk") {
						return true
					}
					res := fn.Type().(*types.Signature).Results()
					if res.Len() != 1 || res.At(0).Type().String() != "error" {
						return true
					}
					construct := shortPkg(p.PkgPath) + "." + funcDeclName(fd) + ":walk." + fn.Name()
					if reason, ok := r.InTableAt(tbl, "c03_walk_errors", construct, p.TypesInfo, fd, "walk."+fn.Name()); ok {
						r.Pass("C03-d-walk-error", construct, call.Pos(), "table: %s", reason)
					} else {
						r.Fail("C03-d-walk-error", construct, call.Pos(), "the error of walk.%s is discarded: a node type without a cursor ends the walk early and the caller continues with a partial result (identifiers not seen, hence not rewritten or not counted)", fn.Name())
					}
					return true
				})
			}
		}
	}
}
