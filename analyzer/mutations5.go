package main

// Self-test mutations for the rules written from the third round's seeded changes (seeded/r3-*): each is a compact
// form of one of those changes, applied in memory, and must make the named rule fire. Benign ones at the end.

func init() {
	add := func(prop string, ms ...Mutation) { mutations[prop] = append(mutations[prop], ms...) }
	benign := func(prop string, ms ...Mutation) {
		for i := range ms {
			ms[i].Benign = true
		}
		mutations[prop] = append(mutations[prop], ms...)
	}
	add("C01",
		Mutation{Name: "decoder-scratch-hoisted", File: "drivers/pg/mapper.go",
			Old: "\t\t\t\tpath := pathComposite{}\n\n", New: "",
			Also:   []Edit{{"drivers/pg/mapper.go", "\treturn func(value, target any) bool {\n\t\tswitch typedTarget := target.(type) {", "\tvar path pathComposite\n\n\treturn func(value, target any) bool {\n\t\tswitch typedTarget := target.(type) {"}},
			Expect: "C01-R11-decoder-scratch-fresh"},
	)
	add("C02",
		Mutation{Name: "zero-hop-lower-bound-clamped", File: "cypher/models/pgsql/optimize/lowering_plan.go",
			Old: "\tif minDepth < 1 {\n\t\treturn 0, 0, false\n\t}\n", New: "\tif minDepth < 1 {\n\t\tminDepth = 1\n\t}\n", Expect: "C02-R6-model-bound-not-overridden"},
		Mutation{Name: "optional-match-symbols-forgotten", File: "cypher/models/pgsql/optimize/direction.go",
			Old: "\t\t\t}\n\n\t\t\tdeclareMatchSymbols(declaredSymbols, match)\n\t\t}\n", New: "\n\t\t\t\tdeclareMatchSymbols(declaredSymbols, match)\n\t\t\t}\n\t\t}\n", Expect: "C02-R5-reversal-bindings|reverseInboundTraversalReadingClauses:declares(match)"},
	)
	add("C03",
		Mutation{Name: "declarations-counted-once-per-part", File: "cypher/models/pgsql/optimize/source_references.go",
			Old: "\tif variable != nil && variable.Symbol != \"\" {\n\t\ts.matchPatternDeclarationRefs[variable.Symbol] += 1\n\t}", New: "\tif variable != nil && variable.Symbol != \"\" {\n\t\tif _, seen := s.referencedIdentifiers[variable.Symbol]; !seen {\n\t\t\ts.matchPatternDeclarationRefs[variable.Symbol] += 1\n\t\t}\n\t}", Expect: "C03-j-count-every-occurrence"},
		Mutation{Name: "unbound-parameters-not-merged", File: "cypher/models/pgsql/translate/aggregate_traversal_count.go",
			Old: "\t\ts.translation.Parameters[key] = value\n", New: "\t\tif value != nil {\n\t\t\ts.translation.Parameters[key] = value\n\t\t}\n", Expect: "C03-a-param-closure|Translator.mergeAggregatePredicateParameters"},
		Mutation{Name: "right-gate-handed-left-node", File: "cypher/models/pgsql/translate/expansion.go",
			Old: "\t\t\t\t\tpreviousProjectionFrameID,\n\t\t\t\t\ttraversalStep.RightNode.Identifier,\n\t\t\t\t\texpansionModel.Frame.Binding.Identifier,\n\t\t\t\t\texpansionNextID,", New: "\t\t\t\t\tpreviousProjectionFrameID,\n\t\t\t\t\ttraversalStep.LeftNode.Identifier,\n\t\t\t\t\texpansionModel.Frame.Binding.Identifier,\n\t\t\t\t\texpansionNextID,", Expect: "C03-k-bound-flag-role"},
	)
	add("C04",
		Mutation{Name: "escaped-alias-cut-to-length", File: "cypher/models/pgsql/format/format.go",
			Old: "\treturn `\"` + strings.ReplaceAll(value, `\"`, `\"\"`) + `\"`", New: "\treturn `\"` + strings.TrimSpace(strings.ReplaceAll(value, `\"`, `\"\"`)) + `\"`", Expect: "C04-R6-escaped-text-final|formatAlias"},
	)
	add("C05",
		Mutation{Name: "empty-list-guard-on-nil", File: "cypher/models/pgsql/pgtypes.go",
			Old: "func anySliceType(slice []any) (DataType, error) {\n\tif len(slice) == 0 {", New: "func anySliceType(slice []any) (DataType, error) {\n\tif slice == nil {", Expect: "C05-R7-constant-index-guarded"},
		Mutation{Name: "kind-mapper-remembers-last-lookup", File: "drivers/pg/pgutil/kindmapper.go",
			Old: "\t} else {\n\t\treturn ids, nil\n\t}\n}", New: "\t} else {\n\t\ts.nextKindID = s.nextKindID + 0\n\t\treturn ids, nil\n\t}\n}", Expect: "C05-R8-lock-free-mapper-read-only|InMemoryKindMapper.MapKinds"},
	)
	add("C06",
		Mutation{Name: "variable-symbols-unescaped", File: "cypher/frontend/query.go",
			Old: "\ts.Variable.Symbol = ctx.GetText()", New: "\ts.Variable.Symbol = cypher.UnescapePropertyKeyName(ctx.GetText())", Expect: "C06-R9-variable-symbols-raw"},
		Mutation{Name: "data-type-lookup-through-alias-map", File: "cypher/models/pgsql/translate/tracking.go",
			Old: "func (s *Scope) LookupDataType(identifier pgsql.Identifier) (pgsql.DataType, bool) {\n", New: "func (s *Scope) LookupDataType(identifier pgsql.Identifier) (pgsql.DataType, bool) {\n\tif aliasedIdentifier, aliased := s.aliases[identifier]; aliased {\n\t\tif binding, bound := s.Lookup(aliasedIdentifier); bound {\n\t\t\treturn binding.DataType, true\n\t\t}\n\t}\n\n", Expect: "C06-R4-generated-first|Scope.LookupDataType"},
		Mutation{Name: "with-alias-compared-to-own-item", File: "cypher/models/pgsql/translate/with.go",
			Old: "\t\t\t\t\tif projectionItem.Alias.Set {\n\t\t\t\t\t\tif aliasBinding, aliasBound :=", New: "\t\t\t\t\tif projectionItem.Alias.Set && projectionItem.Alias.Value != typedSelectItem {\n\t\t\t\t\t\tif aliasBinding, aliasBound :=", Expect: "C06-R10-cross-namespace-comparison"},
	)
	add("C07",
		Mutation{Name: "integer-literal-parsed-unsigned", File: "cypher/frontend/literal.go",
			Old:    "\tif parsed, err := strconv.ParseInt(ctx.GetText(), 10, 64); err != nil {\n\t\ts.ctx.AddErrors(fmt.Errorf(\"invalid integer literal: %s - %w\", text, err))\n\t} else {\n\t\ts.Literal = cypher.NewLiteral(parsed, false)",
			New:    "\tif parsed, err := strconv.ParseUint(ctx.GetText(), 10, 64); err != nil {\n\t\ts.ctx.AddErrors(fmt.Errorf(\"invalid integer literal: %s - %w\", text, err))\n\t} else {\n\t\ts.Literal = cypher.NewLiteral(int64(parsed), false)",
			Expect: "C07-R8-parsed-number-unconverted"},
		Mutation{Name: "emitter-pools-its-buffer", File: "cypher/models/cypher/format/format.go",
			Old: "func RegularQuery(query *cypher.RegularQuery, stripLiterals bool) (string, error) {\n\tbuffer := &bytes.Buffer{}\n", New: "var queryBuffers = sync.Pool{New: func() any { return &bytes.Buffer{} }}\n\nfunc RegularQuery(query *cypher.RegularQuery, stripLiterals bool) (string, error) {\n\tbuffer := queryBuffers.Get().(*bytes.Buffer)\n\tdefer queryBuffers.Put(buffer)\n",
			Also:   []Edit{{"cypher/models/cypher/format/format.go", "\t\"strings\"\n", "\t\"strings\"\n\t\"sync\"\n"}},
			Expect: "C07-R9-emitter-stateless"},
		Mutation{Name: "label-names-unescaped-on-parse", File: "cypher/frontend/pattern.go",
			Old: "\trelationshipType := graph.StringKind(ctx.GetText())", New: "\trelationshipType := graph.StringKind(cypher.UnescapePropertyKeyName(ctx.GetText()))", Expect: "C07-R10-name-codec-symmetry"},
		Mutation{Name: "bare-keys-admit-all-numbers", File: "cypher/models/cypher/property_key.go",
			Old: "\treturn isCypherIDStart(char) || unicode.In(char, unicode.Mn, unicode.Mc, unicode.Nd, unicode.Pc, unicode.Other_ID_Continue)", New: "\treturn isCypherIDStart(char) || unicode.IsNumber(char) || unicode.In(char, unicode.Mn, unicode.Mc, unicode.Pc, unicode.Other_ID_Continue)", Expect: "C07-R11-identifier-classes|isCypherSymbolPart"},
	)
	add("C08",
		Mutation{Name: "enter-refuses-deep-nesting", File: "cypher/frontend/context.go",
			Old: "func (s *Context) Enter(visitor Visitor) {\n", New: "func (s *Context) Enter(visitor Visitor) {\n\tif len(s.visitorStack) >= 512 {\n\t\ts.AddErrors(ErrInvalidInput)\n\t\treturn\n\t}\n\n", Expect: "C08-R9-stack-primitive-total|Context.Enter"},
		Mutation{Name: "parameter-filter-names-the-parameter", File: "cypher/frontend/filter.go",
			Old: "\ts.ctx.AddErrors(ErrUserSpecifiedParametersNotSupported)", New: "\ts.ctx.AddErrors(ErrUserSpecifiedParametersNotSupported, errors.New(ctx.DecimalInteger().GetText()))",
			Also:   []Edit{{"cypher/frontend/filter.go", "import (\n", "import (\n\t\"errors\"\n\n"}},
			Expect: "C08-R10-child-accessor-guarded"},
	)
	add("C10",
		Mutation{Name: "name-collision-check-reads-raw-map", File: "drivers/neo4j/query_rewrite.go",
			Old: "\t\tif _, exists := s.ensureRewrittenParameters()[next]; !exists {", New: "\t\tif _, exists := s.rewrittenParameters[next]; !exists {", Expect: "C10-R9-rewritten-implies-parameters|patternPropertyParameterRewriter.nextParameterName"},
	)
	add("C11",
		Mutation{Name: "kinds-copy-returns-empty-receiver", File: "graph/kind.go",
			Old: "func (s Kinds) Copy() Kinds {\n", New: "func (s Kinds) Copy() Kinds {\n\tif len(s) == 0 {\n\t\treturn s\n\t}\n\n", Expect: "C11-copy-helper-fresh|graph.Kinds.Copy"},
		Mutation{Name: "case-cursor-one-sided-arity", File: "cypher/models/walk/walk_pgsql.go",
			Old: "\tif len(caseExpr.Conditions) != len(caseExpr.Then) {", New: "\tif len(caseExpr.Conditions) > len(caseExpr.Then) {", Expect: "C11-walk-parallel-lists"},
	)
	add("C12",
		Mutation{Name: "set-skips-equal-values", File: "graph/properties.go",
			Old: "func (s *Properties) Set(key string, value any) *Properties {\n", New: "func (s *Properties) Set(key string, value any) *Properties {\n\tif existingValue, exists := s.Map[key]; exists && existingValue == value {\n\t\treturn s\n\t}\n\n", Expect: "C12-R"},
	)
	add("C13",
		Mutation{Name: "scratch-bitmap-pooled", File: "cardinality/roaring64.go",
			Old: "func (s bitmap64) Xor(provider Provider[uint64]) {\n", New: "var scratch64 = sync.Pool{New: func() any { return roaring64.New() }}\n\nfunc (s bitmap64) Xor(provider Provider[uint64]) {\n\tdefer scratch64.Put(scratch64.Get())\n",
			Also:   []Edit{{"cardinality/roaring64.go", "import (\n", "import (\n\t\"sync\"\n\n"}},
			Expect: "C13-R7-no-package-state"},
	)
	add("C14",
		Mutation{Name: "projection-count-from-set-sizes", File: "container/triplestore.go",
			Old: "func (s *triplestoreProjection) NumNodes() uint64 {\n\tcount := uint64(0)\n\n\ts.origin.EachNode(func(value uint64) bool {\n\t\tif !s.deletedNodes.Contains(value) {\n\t\t\tcount += 1\n\t\t}\n\n\t\treturn true\n\t})\n\n\treturn count\n}", New: "func (s *triplestoreProjection) NumNodes() uint64 {\n\treturn s.origin.NumNodes() - s.deletedNodes.Cardinality()\n}", Expect: "C14-R10-projection-count-filtered|triplestoreProjection.NumNodes"},
	)
	add("C15",
		Mutation{Name: "partial-mark-assigned", File: "algo/reach.go",
			Old: "\t\tif s.partial && s.ancestor.ancestor != nil {\n\t\t\ts.ancestor.partial = true\n\t\t}\n", New: "\t\ts.ancestor.partial = s.partial && s.ancestor.ancestor != nil\n", Expect: "C15-R6-partial-flag-monotone"},
		Mutation{Name: "tarjan-stack-set-keyed-by-32-bits", File: "algo/scc.go",
			Old: "\t\tonStack.Add(v)\n", New: "\t\tonStack.Add(uint64(uint32(v)))\n", Expect: "C15-R7-node-ids-not-narrowed"},
	)
	add("C16",
		Mutation{Name: "hand-set-from-queue-tail", File: "cache/sieve.go",
			Old: "\ts.hand = hand.Prev()\n\ts.removeEntry(entry)", New: "\tif s.hand = hand.Prev(); s.hand == nil {\n\t\ts.hand = s.queue.Back()\n\t}\n\n\ts.removeEntry(entry)", Expect: "C16-R5-stale-hand"},
	)
	add("C18",
		Mutation{Name: "destination-ids-stored-narrow", File: "retriever/load.go",
			Old: "\t\ts.numeric[numericID] = destinationID\n", New: "\t\ts.numeric[numericID] = graph.ID(destinationID.Uint32())\n", Expect: "C18-R9-ids-not-narrowed"},
		Mutation{Name: "resumed-edges-observed-reversed", File: "retriever/dump.go",
			Old: "\t\t\t\treturn metricsBuilder.observeDatabaseRelationship(graph.ID(startID), graph.ID(endID), item.Kind)", New: "\t\t\t\treturn metricsBuilder.observeDatabaseRelationship(graph.ID(endID), graph.ID(startID), item.Kind)", Expect: "C18-R10-endpoint-argument-roles"},
	)
	add("C19",
		Mutation{Name: "identity-reads-the-consumed-reader", File: "retriever/dump_checkpoint.go",
			Old: "\t\tpayload, err := json.Marshal(config)\n", New: "\t\tpayload, err := io.ReadAll(options.ScrubConfig)\n\t\t_ = config\n",
			Expect: "C19-R7-reader-option-consumed-once"},
		Mutation{Name: "persist-reports-cancellation-after-write", File: "retriever/dump.go",
			Old: "\t\t\treturn writeDumpCheckpoint(options.OutputDir, checkpoint)\n", New: "\t\t\tif err := writeDumpCheckpoint(options.OutputDir, checkpoint); err != nil {\n\t\t\t\treturn err\n\t\t\t}\n\n\t\t\treturn ctx.Err()\n", Expect: "C19-R8-persist-callback-contract"},
	)
	add("C20",
		Mutation{Name: "preflight-index-kept-for-empty-graphs", File: "retriever/load.go",
			Old: "\tfor _, graphEntry := range nextManifest.Graphs {\n\t\tnodeIDs := newNodeIDResolver(graphEntry.NodeCount)\n", New: "\tvar nodeIDs *nodeIDResolver\n\tfor _, graphEntry := range nextManifest.Graphs {\n\t\tif nodeIDs == nil || graphEntry.NodeCount > 0 {\n\t\t\tnodeIDs = newNodeIDResolver(graphEntry.NodeCount)\n\t\t}\n", Expect: "C20-R1-verify-before-mutate|verifyCollectionFragments:newNodeIDResolver"},
		Mutation{Name: "untracked-fragment-skipped", File: "retriever/archive_tar.go",
			Old: "\t\t\tactual := files[fileEntry.Path]\n", New: "\t\t\tactual, tracked := files[fileEntry.Path]\n\t\t\tif !tracked {\n\t\t\t\tcontinue\n\t\t\t}\n", Expect: "C20-R8-verification-loop-total|validateExtractedCollection"},
		Mutation{Name: "eof-gate-tests-error-first", File: "retriever/archive_envelope.go",
			Old: "\tn, err := reader.Read(extra[:])\n\tif n > 0 {\n\t\treturn fmt.Errorf(\"encrypted archive has trailing data after final frame\")\n\t}\n", New: "\tn, err := reader.Read(extra[:])\n\tif errors.Is(err, io.EOF) {\n\t\treturn nil\n\t}\n\n\tif n > 0 {\n\t\treturn fmt.Errorf(\"encrypted archive has trailing data after final frame\")\n\t}\n", Expect: "C20-R5-envelope|requireEncryptedArchiveEOF:count-before-error"},
	)
	// behaviour-preserving edits the new rules must accept
	benign("C02",
		Mutation{Name: "benign-depth-bounds-renamed", File: "cypher/models/pgsql/optimize/lowering_plan.go",
			Old: "\tminDepth := int64(1)\n\tif patternRange.StartIndex != nil {\n\t\tminDepth = *patternRange.StartIndex\n\t}\n\tif minDepth < 1 {", New: "\tlowerBound := int64(1)\n\tif patternRange.StartIndex != nil {\n\t\tlowerBound = *patternRange.StartIndex\n\t}\n\tminDepth := lowerBound\n\tif minDepth < 1 {"},
	)
	benign("C03",
		Mutation{Name: "benign-declaration-guard-as-early-return", File: "cypher/models/pgsql/optimize/source_references.go",
			Old: "\tif variable != nil && variable.Symbol != \"\" {\n\t\ts.matchPatternDeclarationRefs[variable.Symbol] += 1\n\t}", New: "\tif variable == nil || variable.Symbol == \"\" {\n\t\treturn\n\t}\n\n\ts.matchPatternDeclarationRefs[variable.Symbol] += 1"},
	)
	benign("C05",
		Mutation{Name: "benign-empty-list-guard-short-circuit", File: "cypher/models/pgsql/pgtypes.go",
			Old: "func anySliceType(slice []any) (DataType, error) {\n\tif len(slice) == 0 {", New: "func anySliceType(slice []any) (DataType, error) {\n\tif slice == nil || len(slice) < 1 {"},
	)
	benign("C08",
		Mutation{Name: "benign-enter-builds-entry-first", File: "cypher/frontend/context.go",
			Old: "\ts.visitorStack = append(s.visitorStack, &descentEntry{\n\t\tvisitor: visitor,\n\t})", New: "\tentry := &descentEntry{\n\t\tvisitor: visitor,\n\t}\n\n\ts.visitorStack = append(s.visitorStack, entry)"},
	)
	benign("C11",
		Mutation{Name: "benign-exit-and-pop-in-closure", File: "cypher/models/walk/walk.go",
			Old: "\t\tif !nextNode.HasNext() {\n\t\t\tvisitor.Exit(nextNode.Node)\n\n\t\t\tif err := visitor.Error(); err != nil {\n\t\t\t\treturn err\n\t\t\t}\n", New: "\t\tif !nextNode.HasNext() {\n\t\t\tif err := exitTop(nextNode); err != nil {\n\t\t\t\treturn err\n\t\t\t}\n",
			Also: []Edit{{"cypher/models/walk/walk.go", "\tfor len(stack) > 0 && !visitor.Done() {", "\texitTop := func(cursor *Cursor[E]) error {\n\t\tvisitor.Exit(cursor.Node)\n\n\t\tif err := visitor.Error(); err != nil {\n\t\t\treturn err\n\t\t}\n\n\t\treturn nil\n\t}\n\n\tfor len(stack) > 0 && !visitor.Done() {"}}},
	)
	benign("C20",
		Mutation{Name: "benign-eof-gate-as-switch", File: "retriever/archive_envelope.go",
			Old: "\tif n > 0 {\n\t\treturn fmt.Errorf(\"encrypted archive has trailing data after final frame\")\n\t}\n\n\tif err == nil {\n\t\treturn fmt.Errorf(\"encrypted archive stream did not end after final frame\")\n\t}\n\n\tif !errors.Is(err, io.EOF) {\n\t\treturn fmt.Errorf(\"read archive trailer: %w\", err)\n\t}\n\n\treturn nil\n", New: "\tswitch {\n\tcase n > 0:\n\t\treturn fmt.Errorf(\"encrypted archive has trailing data after final frame\")\n\tcase err == nil:\n\t\treturn fmt.Errorf(\"encrypted archive stream did not end after final frame\")\n\tcase !errors.Is(err, io.EOF):\n\t\treturn fmt.Errorf(\"read archive trailer: %w\", err)\n\tdefault:\n\t\treturn nil\n\t}\n"},
	)
}
