package main

// A decision table for the insert path of a bounded cache. What Put does depends on two facts only: E, the key is already
// in the store, and C, the cache still has room (size < Capacity). The table runs the method — with the predicates and
// private helpers it calls on the same receiver followed — once for each of the four combinations and records what can
// happen: the key is stored, the size statistic is bumped, an entry is evicted first. Conditions that are neither E nor C
// (nor built from them with ! && ||) take both branches. The verdicts:
//
//	bounded: with ¬E and ¬C no run stores the key unless it evicted first;
//	paired:  a run bumps the size statistic exactly when it stores a key that was not there.
//
// The older, shape-based judgement of the same sites stays in front; the table is asked only where that one cannot see the
// guard, so that how the test is spelled (a predicate method, a re-test of presence inside the admitted branch) does not
// matter.

import (
	"go/ast"
	"go/token"
	"go/types"

	"golang.org/x/tools/go/packages"
)

type cacheRun struct {
	e, c         bool
	stored, bump int
	evicted      bool
}

type cacheTable struct {
	p      *packages.Package
	info   *types.Info
	store  *types.Var
	evicts map[string]bool
	decls  map[string]*ast.FuncDecl
	// per frame
	body    *ast.BlockStmt
	keys    map[types.Object]bool // parameters and locals that are the key
	present map[types.Object]bool // booleans that hold "key is in the store"
	done    []cacheRun
	steps   int
	gaveUp  bool
}

const (
	triFalse = 0
	triTrue  = 1
	triBoth  = 2
)

func (t *cacheTable) isKey(e ast.Expr) bool {
	id, ok := ast.Unparen(e).(*ast.Ident)
	return ok && t.keys[t.info.ObjectOf(id)]
}

// bindLookup: `v, ok := s.store[key]` makes ok a presence flag.
func (t *cacheTable) bindLookup(st ast.Stmt) {
	as, ok := st.(*ast.AssignStmt)
	if !ok || len(as.Lhs) != 2 || len(as.Rhs) != 1 {
		return
	}
	ix, ok := ast.Unparen(as.Rhs[0]).(*ast.IndexExpr)
	if !ok || !selectsField(t.info, ix.X, t.store) || !t.isKey(ix.Index) {
		return
	}
	if id, ok := as.Lhs[1].(*ast.Ident); ok && id.Name != "_" {
		if o := t.info.ObjectOf(id); o != nil {
			t.present[o] = true
		}
	}
}

func (t *cacheTable) eval(e ast.Expr, run cacheRun, depth int) int {
	e = ast.Unparen(e)
	switch x := e.(type) {
	case *ast.Ident:
		if t.present[t.info.ObjectOf(x)] {
			if run.e {
				return triTrue
			}
			return triFalse
		}
		if tv, has := t.info.Types[x]; has && tv.Value != nil {
			if tv.Value.String() == "true" {
				return triTrue
			}
			return triFalse
		}
		// a local that names a condition (`atCapacity := s.queue.Len() >= s.stats.Capacity`)
		if t.body != nil && depth < 4 {
			if def := resolveLocalCopy(t.info, t.body, x); def != ast.Expr(x) {
				return t.eval(def, run, depth+1)
			}
		}
	case *ast.UnaryExpr:
		if x.Op == token.NOT {
			switch t.eval(x.X, run, depth) {
			case triTrue:
				return triFalse
			case triFalse:
				return triTrue
			}
			return triBoth
		}
	case *ast.BinaryExpr:
		switch x.Op {
		case token.LAND:
			l, r := t.eval(x.X, run, depth), t.eval(x.Y, run, depth)
			if l == triFalse || r == triFalse {
				return triFalse
			}
			if l == triTrue && r == triTrue {
				return triTrue
			}
			return triBoth
		case token.LOR:
			l, r := t.eval(x.X, run, depth), t.eval(x.Y, run, depth)
			if l == triTrue || r == triTrue {
				return triTrue
			}
			if l == triFalse && r == triFalse {
				return triFalse
			}
			return triBoth
		case token.LSS, token.LEQ, token.GTR, token.GEQ, token.EQL, token.NEQ:
			if mentionsField(t.info, x, "Capacity") {
				switch {
				case capacityCompare(t.info, x, true): // size < Capacity
					if run.c {
						return triTrue
					}
					return triFalse
				case capacityCompare(t.info, x, false): // size >= Capacity
					if run.c {
						return triFalse
					}
					return triTrue
				}
			}
		}
	case *ast.CallExpr:
		// a predicate of the package: run its body for the value it returns
		if fn := calleeOf(t.info, x); fn != nil && fn.Pkg() == t.p.Types && depth < 3 {
			if fd := t.decls[declKeyOf(fn.Origin())]; fd != nil && fd.Body != nil {
				sub := t.frame(fd, x)
				v := sub.value(fd.Body.List, run, depth+1)
				t.steps += sub.steps
				return v
			}
		}
	}
	return triBoth
}

// frame: a table for the body of fd called by call, with the callee's parameters that receive the key bound.
func (t *cacheTable) frame(fd *ast.FuncDecl, call *ast.CallExpr) *cacheTable {
	sub := &cacheTable{p: t.p, info: t.info, store: t.store, evicts: t.evicts, decls: t.decls, body: fd.Body, keys: map[types.Object]bool{}, present: map[types.Object]bool{}}
	i := 0
	if fd.Type.Params != nil {
		for _, pl := range fd.Type.Params.List {
			for _, nm := range pl.Names {
				if i < len(call.Args) {
					if t.isKey(call.Args[i]) {
						sub.keys[t.info.Defs[nm]] = true
					}
					if id, ok := ast.Unparen(call.Args[i]).(*ast.Ident); ok && t.present[t.info.ObjectOf(id)] {
						sub.present[t.info.Defs[nm]] = true
					}
				}
				i++
			}
		}
	}
	return sub
}

// value: the boolean a predicate body returns under run (triBoth when the paths disagree or cannot be followed).
func (t *cacheTable) value(list []ast.Stmt, run cacheRun, depth int) int {
	for _, st := range list {
		t.bindLookup(st)
		switch s := st.(type) {
		case *ast.ReturnStmt:
			if len(s.Results) != 1 {
				return triBoth
			}
			return t.eval(s.Results[0], run, depth)
		case *ast.IfStmt:
			if s.Init != nil {
				t.bindLookup(s.Init)
			}
			switch t.eval(s.Cond, run, depth) {
			case triTrue:
				if alwaysLeaves(s.Body) {
					return t.value(s.Body.List, run, depth)
				}
				return triBoth
			case triFalse:
				if s.Else != nil {
					if b, ok := s.Else.(*ast.BlockStmt); ok && alwaysLeaves(b) {
						return t.value(b.List, run, depth)
					}
					return triBoth
				}
			default:
				return triBoth
			}
		case *ast.AssignStmt, *ast.DeclStmt:
		default:
			return triBoth
		}
	}
	return triBoth
}

// exec runs statements; the result is the set of runs that fall out of the end (runs that returned are in t.done).
func (t *cacheTable) exec(list []ast.Stmt, in []cacheRun, depth int) []cacheRun {
	cur := in
	for _, st := range list {
		if len(cur) == 0 {
			break
		}
		t.steps++
		if t.steps > 4000 {
			t.gaveUp = true
			return nil
		}
		t.bindLookup(st)
		switch s := st.(type) {
		case *ast.ReturnStmt:
			t.done = append(t.done, cur...)
			cur = nil
		case *ast.BlockStmt:
			cur = t.exec(s.List, cur, depth)
		case *ast.IfStmt:
			if s.Init != nil {
				t.bindLookup(s.Init)
				cur = t.exec([]ast.Stmt{s.Init}, cur, depth)
			}
			var out []cacheRun
			for _, run := range cur {
				v := t.eval(s.Cond, run, depth)
				if v != triFalse {
					out = append(out, t.exec(s.Body.List, []cacheRun{run}, depth)...)
				}
				if v != triTrue {
					if s.Else != nil {
						out = append(out, t.exec([]ast.Stmt{s.Else}, []cacheRun{run}, depth)...)
					} else {
						out = append(out, run)
					}
				}
			}
			cur = out
		case *ast.AssignStmt:
			for _, l := range s.Lhs {
				if ix, ok := ast.Unparen(l).(*ast.IndexExpr); ok && selectsField(t.info, ix.X, t.store) {
					for i := range cur {
						cur[i].stored++
					}
				}
			}
			for _, rhs := range s.Rhs {
				cur = t.calls(rhs, cur, depth)
			}
		case *ast.ExprStmt:
			cur = t.calls(s.X, cur, depth)
		case *ast.DeferStmt, *ast.DeclStmt, *ast.IncDecStmt, *ast.EmptyStmt:
		default:
			// loops, switches: not part of any insert path the table knows
			t.gaveUp = true
			return nil
		}
	}
	return cur
}

// calls: the effects of the calls inside e.
func (t *cacheTable) calls(e ast.Expr, in []cacheRun, depth int) []cacheRun {
	cur := in
	ast.Inspect(e, func(n ast.Node) bool {
		if _, isLit := n.(*ast.FuncLit); isLit {
			return false
		}
		call, ok := n.(*ast.CallExpr)
		if !ok {
			return true
		}
		if sel, isSel := ast.Unparen(call.Fun).(*ast.SelectorExpr); isSel && sel.Sel.Name == "Put" && len(call.Args) == 0 {
			for i := range cur {
				cur[i].bump++
			}
			return true
		}
		fn := calleeOf(t.info, call)
		if fn == nil || fn.Pkg() != t.p.Types {
			return true
		}
		if t.evicts[fn.Name()] {
			for i := range cur {
				cur[i].evicted, cur[i].c = true, true
			}
			return true
		}
		if fd := t.decls[declKeyOf(fn.Origin())]; fd != nil && fd.Body != nil && depth < 3 && fd.Recv != nil {
			touches := false
			ast.Inspect(fd.Body, func(m ast.Node) bool {
				if s, ok := m.(*ast.SelectorExpr); ok && t.info.Uses[s.Sel] == types.Object(t.store) {
					touches = true
				}
				if c, ok := m.(*ast.CallExpr); ok {
					if s, ok := ast.Unparen(c.Fun).(*ast.SelectorExpr); ok && s.Sel.Name == "Put" && len(c.Args) == 0 {
						touches = true
					}
				}
				return !touches
			})
			if touches {
				sub := t.frame(fd, call)
				out := sub.exec(fd.Body.List, cur, depth+1)
				out = append(out, sub.done...)
				t.steps += sub.steps
				t.gaveUp = t.gaveUp || sub.gaveUp
				cur = out
			}
		}
		return true
	})
	return cur
}

// cachePutTable judges one method that stores into the cache's map. decided is false when the table could not follow
// the method; otherwise bounded/paired carry the verdicts and why names the first combination that breaks one.
func cachePutTable(p *packages.Package, store *types.Var, evicts map[string]bool, fd *ast.FuncDecl) (decided, bounded, paired bool, why string) {
	info := p.TypesInfo
	t := &cacheTable{p: p, info: info, store: store, evicts: evicts, decls: FuncDecls(p), body: fd.Body, keys: map[types.Object]bool{}, present: map[types.Object]bool{}}
	// the key: the parameters of the store's key type
	mt, _ := store.Type().Underlying().(*types.Map)
	if mt == nil {
		return false, false, false, ""
	}
	if fd.Type.Params != nil {
		for _, pl := range fd.Type.Params.List {
			for _, nm := range pl.Names {
				if obj := info.Defs[nm]; obj != nil && sameTypeOrParam(obj.Type(), mt.Key()) {
					t.keys[obj] = true
				}
			}
		}
	}
	if len(t.keys) == 0 {
		return false, false, false, ""
	}
	bounded, paired = true, true
	for _, e := range []bool{false, true} {
		for _, c := range []bool{false, true} {
			t.done = nil
			out := t.exec(fd.Body.List, []cacheRun{{e: e, c: c}}, 0)
			if t.gaveUp {
				return false, false, false, ""
			}
			for _, run := range append(out, t.done...) {
				combo := "key present=" + boolText(e) + ", room=" + boolText(c)
				if !e && !c && run.stored > 0 && !run.evicted && bounded {
					bounded = false
					why = "with " + combo + " a run stores the key without evicting first"
				}
				isNew := run.stored > 0 && !e
				if isNew != (run.bump > 0) && paired {
					paired = false
					if why == "" {
						why = "with " + combo + " a run stores=" + itoa(run.stored) + " but bumps the size statistic " + itoa(run.bump) + " time(s)"
					}
				}
			}
		}
	}
	return true, bounded, paired, why
}

func boolText(b bool) string {
	if b {
		return "yes"
	}
	return "no"
}

// sameTypeOrParam: identical types, or the same type parameter of a generic type seen once through the type's
// declaration and once through a method's receiver.
func sameTypeOrParam(a, b types.Type) bool {
	if types.Identical(a, b) {
		return true
	}
	ta, ok1 := a.(*types.TypeParam)
	tb, ok2 := b.(*types.TypeParam)
	return ok1 && ok2 && ta.Index() == tb.Index() && ta.Obj().Name() == tb.Obj().Name()
}
