package main

// C02-R3 — usage classifiers are total on read positions.
//
// Some lowerings are sound only if a binding is used in one particular way and nowhere else (collect(x) AS xs may
// become an id array only if xs is used as the right operand of IN and never otherwise).  The eligibility test is a
// walk visitor that classifies every occurrence of the variable through an if/else chain, counting the favourable
// and the other occurrences.  A branch that counts nothing exempts the occurrences it matches; that is sound only
// for the variable's declaration (the Alias / Variable field of its parent), never for an occurrence in an
// expression field of its parent, which is a read.

import (
	"go/ast"
	"go/token"
	"go/types"
	"sort"
	"strings"
)

func checkUsageClassifiers(r *Run) {
	const rule = "C02-R3-usage-classifier"
	cpkg := r.MustPkg("cypher/models/cypher")
	found := 0
	for _, rel := range []string{"cypher/models/pgsql/optimize", "cypher/models/pgsql/translate"} {
		p := r.MustPkg(rel)
		info := p.TypesInfo
		decls := map[*types.Func]*ast.FuncDecl{}
		for _, f := range p.Syntax {
			for _, d := range f.Decls {
				if fd, ok := d.(*ast.FuncDecl); ok {
					if fn, ok := info.Defs[fd.Name].(*types.Func); ok {
						decls[fn] = fd
					}
				}
			}
		}
		// fields compared (==) with a *cypher.Variable value inside e, following one level of package-local calls
		var comparedFields func(e ast.Node, depth int, out map[*types.Var]token.Pos)
		comparedFields = func(e ast.Node, depth int, out map[*types.Var]token.Pos) {
			ast.Inspect(e, func(n ast.Node) bool {
				switch x := n.(type) {
				case *ast.BinaryExpr:
					if x.Op != token.EQL {
						return true
					}
					for _, pair := range [][2]ast.Expr{{x.X, x.Y}, {x.Y, x.X}} {
						sel, ok := ast.Unparen(pair[0]).(*ast.SelectorExpr)
						if !ok {
							continue
						}
						s := info.Selections[sel]
						if s == nil || s.Kind() != types.FieldVal {
							continue
						}
						if namedName(info.TypeOf(pair[1])) == "Variable" {
							if _, isPtr := info.TypeOf(pair[1]).(*types.Pointer); isPtr {
								out[s.Obj().(*types.Var)] = sel.Pos()
							}
						}
					}
				case *ast.CallExpr:
					if depth < 2 {
						if callee := calleeOf(info, x); callee != nil && decls[callee] != nil && decls[callee].Body != nil {
							comparedFields(decls[callee].Body, depth+1, out)
						}
					}
				}
				return true
			})
		}
		counts := func(body *ast.BlockStmt) bool {
			c := false
			ast.Inspect(body, func(n ast.Node) bool {
				switch x := n.(type) {
				case *ast.IncDecStmt:
					if _, ok := ast.Unparen(x.X).(*ast.SelectorExpr); ok {
						c = true
					}
				case *ast.AssignStmt:
					if x.Tok == token.ADD_ASSIGN {
						c = true
					}
				}
				return true
			})
			return c
		}
		// declGuard: does the condition, when it holds, establish that the variable is the declaration field of its parent?
		// A conjunction needs one such conjunct, a disjunction needs it in every disjunct.
		var declGuard func(e ast.Expr) (reads []string, decls []string, ok bool)
		declGuard = func(e ast.Expr) ([]string, []string, bool) {
			e = ast.Unparen(e)
			if be, isBin := e.(*ast.BinaryExpr); isBin && (be.Op == token.LAND || be.Op == token.LOR) {
				lr, ld, lok := declGuard(be.X)
				rr, rd, rok := declGuard(be.Y)
				reads, ds := append(lr, rr...), append(ld, rd...)
				if be.Op == token.LAND {
					return reads, ds, lok || rok
				}
				return reads, ds, lok && rok
			}
			cmp := map[*types.Var]token.Pos{}
			comparedFields(e, 0, cmp)
			var reads, ds []string
			for v := range cmp {
				if _, isIface := v.Type().Underlying().(*types.Interface); isIface {
					reads = append(reads, v.Name())
				} else {
					ds = append(ds, v.Name())
				}
			}
			sort.Strings(reads)
			sort.Strings(ds)
			return reads, ds, len(ds) > 0 && len(reads) == 0
		}
		// The other spelling: a classifying function returns one constant of an enumeration per kind of occurrence and the
		// handler switches over the result. The constants no counting case lists are the exempted kinds; every return of
		// such a constant has to be controlled by a declaration-position test.
		for fn, fd := range decls {
			if fd.Body == nil {
				continue
			}
			ast.Inspect(fd.Body, func(n ast.Node) bool {
				sw, ok := n.(*ast.SwitchStmt)
				if !ok || sw.Tag == nil {
					return true
				}
				call, ok := ast.Unparen(sw.Tag).(*ast.CallExpr)
				if !ok {
					return true
				}
				callee := calleeOf(info, call)
				if callee == nil || decls[callee] == nil || decls[callee].Body == nil {
					return true
				}
				overVariable := false
				for _, a := range call.Args {
					if t := info.TypeOf(a); t != nil && namedName(t) == "Variable" && namedOf(t).Obj().Pkg() == cpkg.Types {
						overVariable = true
					}
				}
				enum := namedOf(info.TypeOf(sw.Tag))
				if !overVariable || enum == nil || enum.Obj().Pkg() != p.Types {
					return true
				}
				if b, isBasic := enum.Underlying().(*types.Basic); !isBasic || b.Info()&types.IsInteger == 0 {
					return true
				}
				counted := map[types.Object]bool{}
				counting, defaultCounts := 0, false
				for _, c := range sw.Body.List {
					cc := c.(*ast.CaseClause)
					if !counts(&ast.BlockStmt{List: cc.Body}) {
						continue
					}
					counting++
					if cc.List == nil {
						defaultCounts = true
					}
					for _, e := range cc.List {
						if id := rootIdentOfSelector(e); id != nil {
							counted[info.Uses[id]] = true
						}
					}
				}
				if counting < 2 {
					return true
				}
				listed := map[types.Object]bool{}
				for _, c := range sw.Body.List {
					for _, e := range c.(*ast.CaseClause).List {
						if id := rootIdentOfSelector(e); id != nil {
							listed[info.Uses[id]] = true
						}
					}
				}
				found++
				exempt := func(o types.Object) bool {
					if counted[o] {
						return false
					}
					if defaultCounts && !listed[o] {
						return false
					}
					return true
				}
				gd := decls[callee]
				ast.Inspect(gd.Body, func(m ast.Node) bool {
					if _, isLit := m.(*ast.FuncLit); isLit {
						return false
					}
					ret, ok := m.(*ast.ReturnStmt)
					if !ok || len(ret.Results) != 1 {
						return true
					}
					var c types.Object
					if id := rootIdentOfSelector(ret.Results[0]); id != nil {
						c, _ = info.Uses[id].(*types.Const)
					}
					construct := shortFuncName(fn) + ":" + shortFuncName(callee) + " returns " + exprString(r.Fset, ret.Results[0])
					if c == nil {
						r.Fail(rule, construct, ret.Pos(), "the classifying function returns a value that is not one of the enumeration's constants: which occurrences are exempted from the eligibility count cannot be decided")
						return true
					}
					if !exempt(c) {
						return true
					}
					var reads, ds []string
					established := false
					for _, lit := range controlConds(gd.Body, ret) {
						if lit.Neg {
							continue
						}
						rd, dd, ok := declGuard(lit.Expr)
						reads, ds = append(reads, rd...), append(ds, dd...)
						established = established || ok
					}
					switch {
					case len(reads) > 0:
						r.Fail(rule, construct, ret.Pos(), "an occurrence in a read position (the variable is compared with the parent's expression field %s) is classified as %s, which no counting case of the handler lists: such an occurrence is a use of the binding, and exempting it lets the lowering change what the query returns", strings.Join(reads, ", "), c.Name())
					case established:
						r.Pass(rule, construct, ret.Pos(), "the only uncounted occurrences are declarations (compared with %s)", strings.Join(ds, ", "))
					default:
						r.Fail(rule, construct, ret.Pos(), "an occurrence is classified as %s, which no counting case of the handler lists, and the return is not controlled by a declaration-position test (the variable being the parent's declaration field): the occurrences it matches are exempted from the eligibility count", c.Name())
					}
					return true
				})
				return false
			})
		}
		for fn, fd := range decls {
			if fd.Body == nil {
				continue
			}
			ast.Inspect(fd.Body, func(n ast.Node) bool {
				ifs, ok := n.(*ast.IfStmt)
				if !ok {
					return true
				}
				// the head of a chain only
				type branch struct {
					cond ast.Expr
					body *ast.BlockStmt
				}
				var chain []branch
				cur := ifs
				for cur != nil {
					chain = append(chain, branch{cur.Cond, cur.Body})
					switch e := cur.Else.(type) {
					case *ast.IfStmt:
						cur = e
					case *ast.BlockStmt:
						chain = append(chain, branch{nil, e})
						cur = nil
					default:
						cur = nil
					}
				}
				counting := 0
				for _, b := range chain {
					if counts(b.body) {
						counting++
					}
				}
				if counting < 2 || counting == len(chain) {
					return true
				}
				// a usage classifier over a *cypher.Variable?
				mentionsVariable := false
				for _, b := range chain {
					if b.cond != nil {
						ast.Inspect(b.cond, func(m ast.Node) bool {
							if id, ok := m.(*ast.Ident); ok {
								if t := info.TypeOf(id); t != nil && namedName(t) == "Variable" && namedOf(t).Obj().Pkg() == cpkg.Types {
									mentionsVariable = true
								}
							}
							return true
						})
					}
				}
				if !mentionsVariable {
					return true
				}
				found++
				for _, b := range chain {
					if counts(b.body) {
						continue
					}
					condText := "else"
					if b.cond != nil {
						condText = exprString(r.Fset, b.cond)
					}
					construct := shortFuncName(fn) + ":" + condText
					if b.cond == nil {
						r.Fail(rule, construct, b.body.Pos(), "the final else of the usage classification counts nothing: every occurrence not matched earlier is exempted, so the lowering is applied although the binding is used in other ways")
						continue
					}
					cmp := map[*types.Var]token.Pos{}
					comparedFields(b.cond, 0, cmp)
					var readPositions, declPositions []string
					for v := range cmp {
						if _, isIface := v.Type().Underlying().(*types.Interface); isIface {
							readPositions = append(readPositions, v.Name())
						} else {
							declPositions = append(declPositions, v.Name())
						}
					}
					switch {
					case len(readPositions) > 0:
						r.Fail(rule, construct, b.cond.Pos(), "a branch of the usage classification counts nothing for an occurrence in a read position (the variable is compared with the parent's expression field %s): such an occurrence is a use of the binding, and exempting it lets the lowering change what the query returns", strings.Join(readPositions, ", "))
					case len(declPositions) > 0:
						r.Pass(rule, construct, b.cond.Pos(), "the only uncounted occurrences are declarations (compared with %s)", strings.Join(declPositions, ", "))
					default:
						r.Fail(rule, construct, b.cond.Pos(), "a branch of the usage classification counts nothing and its condition is not a declaration-position test: the occurrences it matches are exempted from the eligibility count")
					}
				}
				return false
			})
		}
	}
	r.Ob("C02-R3-classifiers-found", "optimize+translate", token.NoPos, found >= 1, "%d usage classifiers (if/else chains, or switches over the result of a classifying function, over a *cypher.Variable with counting and non-counting branches); 1 confirmed by reading: collectIDMembershipCollector.Enter", found)
	r.Floor(rule, 1)
}

// rootIdentOfSelector: the identifier that names a constant, `C` or `pkg.C`.
func rootIdentOfSelector(e ast.Expr) *ast.Ident {
	switch x := ast.Unparen(e).(type) {
	case *ast.Ident:
		return x
	case *ast.SelectorExpr:
		return x.Sel
	}
	return nil
}
