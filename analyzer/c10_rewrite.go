package main

// C10-R9 rewritten-implies-parameters: the Neo4j driver re-emits a parsed query after rewriting pattern property
// parameters and sends it with the rewriter's parameter map. That map is created lazily by an accessor; the flag that
// says "use the re-emitted text" is set separately. Every place that sets the flag must also reach the accessor in the
// same block — otherwise the re-emitted query goes out with a nil map and every parameter it still names is lost.

import (
	"go/ast"
	"go/token"
	"go/types"

	"golang.org/x/tools/go/packages"
)

func checkRewriteFlagState(r *Run) {
	p := r.Pkg("drivers/neo4j")
	if p == nil {
		r.Undecide("C10-R9: package drivers/neo4j not loaded")
		return
	}
	info := p.TypesInfo
	n := 0
	for _, tname := range p.Types.Scope().Names() {
		tn, ok := p.Types.Scope().Lookup(tname).(*types.TypeName)
		if !ok {
			continue
		}
		st, ok := tn.Type().Underlying().(*types.Struct)
		if !ok {
			continue
		}
		// a bool flag field and a map field with an ensure-accessor
		var flag, lazy *types.Var
		var accessor *types.Func
		for i := 0; i < st.NumFields(); i++ {
			f := st.Field(i)
			if b, isBasic := f.Type().Underlying().(*types.Basic); isBasic && b.Kind() == types.Bool {
				flag = f
			}
		}
		for _, fd := range methodsOfType(p, tname) {
			recv := recvObj(p, fd)
			if recv == nil || fd.Type.Results == nil || len(fd.Type.Results.List) != 1 {
				continue
			}
			// `if s.F == nil { s.F = make(...) … }; return s.F`
			var field *types.Var
			ast.Inspect(fd.Body, func(x ast.Node) bool {
				ifs, ok := x.(*ast.IfStmt)
				if !ok {
					return true
				}
				be, ok := ast.Unparen(ifs.Cond).(*ast.BinaryExpr)
				if !ok || be.Op != token.EQL || !isNilIdent(info, ast.Unparen(be.Y)) {
					return true
				}
				sel, ok := ast.Unparen(be.X).(*ast.SelectorExpr)
				if !ok {
					return true
				}
				if id, ok := ast.Unparen(sel.X).(*ast.Ident); ok && info.Uses[id] == recv {
					if v, ok := info.Uses[sel.Sel].(*types.Var); ok {
						if _, isMap := v.Type().Underlying().(*types.Map); isMap {
							field = v
						}
					}
				}
				return true
			})
			if field != nil {
				lazy = field
				accessor, _ = info.Defs[fd.Name].(*types.Func)
			}
		}
		if flag == nil || lazy == nil || accessor == nil {
			continue
		}
		for _, fd := range methodsOfType(p, tname) {
			ast.Inspect(fd.Body, func(x ast.Node) bool {
				bl, ok := x.(*ast.BlockStmt)
				if !ok {
					return true
				}
				for _, st := range bl.List {
					as, ok := st.(*ast.AssignStmt)
					if !ok || len(as.Lhs) != 1 || len(as.Rhs) != 1 {
						continue
					}
					sel, ok := ast.Unparen(as.Lhs[0]).(*ast.SelectorExpr)
					if !ok || info.Uses[sel.Sel] != flag {
						continue
					}
					if tv, has := info.Types[as.Rhs[0]]; !has || tv.Value == nil || tv.Value.String() != "true" {
						continue
					}
					n++
					construct := tname + "." + fd.Name.Name + ":" + flag.Name() + "@" + itoaLine(r, as.Pos(), fd)
					reaches := stmtHasCall(bl, func(c *ast.CallExpr) bool { return calleeOf(info, c) == accessor })
					if reaches {
						r.Pass("C10-R9-rewritten-implies-parameters", construct, as.Pos(), "the block that marks the query as rewritten also reaches %s", accessor.Name())
					} else {
						r.Fail("C10-R9-rewritten-implies-parameters", construct, as.Pos(), "%s.%s marks the query as rewritten without reaching %s: the re-emitted text is sent with the nil %s map and every parameter it still names is lost", tname, fd.Name.Name, accessor.Name(), lazy.Name())
					}
				}
				return true
			})
		}
	}
	if n == 0 {
		r.Undecide("C10-R9: no rewriter with a rewritten flag and a lazily created parameter map found in drivers/neo4j")
	}
}

// itoaLine: ordinal of the statement among the function's flag assignments is fragile; key by the enclosing branch
// instead: the 1-based index of the assignment in source order within the function.
func itoaLine(r *Run, pos token.Pos, fd *ast.FuncDecl) string {
	idx := 0
	out := 0
	ast.Inspect(fd.Body, func(x ast.Node) bool {
		if as, ok := x.(*ast.AssignStmt); ok && len(as.Lhs) == 1 {
			if sel, ok := ast.Unparen(as.Lhs[0]).(*ast.SelectorExpr); ok && sel.Sel.Name == "rewritten" {
				idx++
				if as.Pos() == pos {
					out = idx
				}
			}
		}
		return true
	})
	return "#" + string(rune('0'+out))
}

// checkLazyMapReadThroughAccessor (R9, read clause): inside the rewriter's own methods the lazily created parameter map
// is read only through its accessor. A direct read sees nil until the first write: a membership test on it answers
// "absent" for every name, so the first generated parameter name is never checked against the caller's parameters.
func checkLazyMapReadThroughAccessor(r *Run) {
	const rule = "C10-R9-rewritten-implies-parameters"
	p := r.Pkg("drivers/neo4j")
	if p == nil {
		return
	}
	info := p.TypesInfo
	for _, tname := range p.Types.Scope().Names() {
		methods := methodsOfType(p, tname)
		var lazy *types.Var
		var accessor *ast.FuncDecl
		for _, fd := range methods {
			recv := recvObj(p, fd)
			if recv == nil || fd.Type.Results == nil || len(fd.Type.Results.List) != 1 {
				continue
			}
			ast.Inspect(fd.Body, func(x ast.Node) bool {
				ifs, ok := x.(*ast.IfStmt)
				if !ok {
					return true
				}
				be, ok := ast.Unparen(ifs.Cond).(*ast.BinaryExpr)
				if !ok || be.Op != token.EQL || !isNilIdent(info, ast.Unparen(be.Y)) {
					return true
				}
				sel, ok := ast.Unparen(be.X).(*ast.SelectorExpr)
				if !ok {
					return true
				}
				if id, ok := ast.Unparen(sel.X).(*ast.Ident); ok && info.Uses[id] == recv {
					if v, ok := info.Uses[sel.Sel].(*types.Var); ok {
						if _, isMap := v.Type().Underlying().(*types.Map); isMap {
							lazy, accessor = v, fd
						}
					}
				}
				return true
			})
		}
		if lazy == nil {
			continue
		}
		for mname, fd := range methods {
			if fd == accessor {
				continue
			}
			ast.Inspect(fd.Body, func(x ast.Node) bool {
				sel, ok := x.(*ast.SelectorExpr)
				if !ok || info.Uses[sel.Sel] != lazy {
					return true
				}
				r.Fail(rule, tname+"."+mname+":reads "+lazy.Name(), sel.Pos(), "%s.%s reads the lazily created map %s directly instead of through %s: until the first value is stored the map is nil, and a lookup in it reports every name as free — the first generated parameter name can then collide with a parameter of the caller and silently replace its value", tname, mname, lazy.Name(), accessor.Name.Name)
				return true
			})
		}
		r.Ob(rule, tname+":direct-reads", accessor.Pos(), true, "methods of %s other than %s examined for direct reads of %s", tname, accessor.Name.Name, lazy.Name())
		checkLazyMapReadUnderFlag(r, p, tname, lazy)
	}
}

// checkLazyMapReadUnderFlag (R9, outside readers): code outside the rewriter type takes the lazily created map only
// where the rewriter's flag is known to be set (the first clause ties the flag to the accessor, so the map exists
// there). Taken anywhere else it is nil whenever the pass had nothing to rewrite, and a query that a later pass does
// rewrite is sent without the parameters it names.
func checkLazyMapReadUnderFlag(r *Run, p *packages.Package, tname string, lazy *types.Var) {
	const rule = "C10-R9-rewritten-implies-parameters"
	info := p.TypesInfo
	tn, _ := p.Types.Scope().Lookup(tname).(*types.TypeName)
	if tn == nil {
		return
	}
	st, _ := tn.Type().Underlying().(*types.Struct)
	var flag *types.Var
	for i := 0; st != nil && i < st.NumFields(); i++ {
		if b, isBasic := st.Field(i).Type().Underlying().(*types.Basic); isBasic && b.Kind() == types.Bool {
			flag = st.Field(i)
		}
	}
	if flag == nil {
		return
	}
	isFlag := func(e ast.Expr) bool {
		sel, ok := ast.Unparen(e).(*ast.SelectorExpr)
		return ok && info.Uses[sel.Sel] == flag
	}
	var holds func(e ast.Expr, neg bool) bool
	holds = func(e ast.Expr, neg bool) bool {
		e = ast.Unparen(e)
		switch x := e.(type) {
		case *ast.UnaryExpr:
			if x.Op == token.NOT {
				return holds(x.X, !neg)
			}
		case *ast.BinaryExpr:
			if (x.Op == token.LAND && !neg) || (x.Op == token.LOR && neg) {
				return holds(x.X, neg) || holds(x.Y, neg)
			}
		}
		return !neg && isFlag(e)
	}
	for _, f := range p.Syntax {
		for _, d := range f.Decls {
			fd, ok := d.(*ast.FuncDecl)
			if !ok || fd.Body == nil {
				continue
			}
			if fd.Recv != nil && recvTypeName(fd.Recv.List[0].Type) == tname {
				continue
			}
			nth := 0
			ast.Inspect(fd.Body, func(x ast.Node) bool {
				sel, ok := x.(*ast.SelectorExpr)
				if !ok || info.Uses[sel.Sel] != lazy {
					return true
				}
				nth++
				construct := funcDeclName(fd) + ":takes " + lazy.Name() + "#" + string(rune('0'+nth))
				guarded := false
				for _, l := range controlConds(fd.Body, sel) {
					if holds(l.Expr, l.Neg) {
						guarded = true
					}
				}
				if guarded {
					r.Pass(rule, construct, sel.Pos(), "%s is taken where %s is known to be set", lazy.Name(), flag.Name())
				} else {
					r.Fail(rule, construct, sel.Pos(), "%s takes %s.%s where %s is not known to be set: the map is created on first use, so it is nil whenever this pass had nothing to rewrite — if another pass then rewrites the query, the re-emitted text is sent with nil parameters and every `$name` in it is unbound", funcDeclName(fd), tname, lazy.Name(), flag.Name())
				}
				return true
			})
		}
	}
}
