package main

// C08-R12 optional-deref-guarded: the front end keeps optional values of the query as pointers to basic values — the
// bounds of a range literal are *int64 fields that stay nil when the query does not spell them or when the literal did
// not convert. Reading such a field through `*x.F` panics on nil, so every such read must happen where `x.F != nil` is
// known: as a condition controlling the read (the if around it, or an earlier `if x.F == nil { return }`), tested on the
// very expression that is dereferenced. A guard on a different field, or on the presence of the literal in the parse
// tree (which says nothing about whether it converted), lets a query like `[*99999999999999999999]` panic the parser.

import (
	"go/ast"
	"go/token"
	"go/types"
)

func checkOptionalDerefGuarded(r *Run) {
	const rule = "C08-R12-optional-deref-guarded"
	fp := r.MustPkg("cypher/frontend")
	info := fp.TypesInfo
	n := 0
	for _, f := range fp.Syntax {
		for _, d := range f.Decls {
			fd, ok := d.(*ast.FuncDecl)
			if !ok || fd.Body == nil {
				continue
			}
			nth := map[string]int{}
			ast.Inspect(fd.Body, func(x ast.Node) bool {
				star, ok := x.(*ast.StarExpr)
				if !ok {
					return true
				}
				if tv, has := info.Types[star]; !has || tv.IsType() {
					return true
				}
				sel, ok := ast.Unparen(star.X).(*ast.SelectorExpr)
				if !ok {
					return true
				}
				fv, ok := info.Uses[sel.Sel].(*types.Var)
				if !ok || !fv.IsField() {
					return true
				}
				pt, ok := fv.Type().Underlying().(*types.Pointer)
				if !ok {
					return true
				}
				if _, isBasic := pt.Elem().Underlying().(*types.Basic); !isBasic {
					return true
				}
				// a store through the pointer (`*x.F = v`) is a write, judged the same way: it panics on nil as well
				n++
				want := exprString(r.Fset, star.X)
				nth[want]++
				construct := funcDeclName(fd) + ":*" + want
				if nth[want] > 1 {
					construct += "#" + itoa(nth[want])
				}
				var holds func(e ast.Expr, neg bool) bool
				holds = func(e ast.Expr, neg bool) bool {
					e = ast.Unparen(e)
					switch t := e.(type) {
					case *ast.UnaryExpr:
						if t.Op == token.NOT {
							return holds(t.X, !neg)
						}
					case *ast.BinaryExpr:
						if (t.Op == token.LAND && !neg) || (t.Op == token.LOR && neg) {
							return holds(t.X, neg) || holds(t.Y, neg)
						}
						op := t.Op
						if neg {
							switch op {
							case token.EQL:
								op = token.NEQ
							case token.NEQ:
								op = token.EQL
							}
						}
						if op != token.NEQ {
							return false
						}
						a, b := ast.Unparen(t.X), ast.Unparen(t.Y)
						if isNilIdent(info, a) {
							a, b = b, a
						}
						return isNilIdent(info, b) && exprString(r.Fset, a) == want
					}
					return false
				}
				guarded := false
				for _, l := range controlConds(fd.Body, star) {
					if holds(l.Expr, l.Neg) {
						guarded = true
					}
				}
				// `a && *x.F > 0`: the left operand of the && the read stands in
				if !guarded {
					for _, l := range shortCircuitConds(fd.Body, star) {
						if holds(l.Expr, l.Neg) {
							guarded = true
						}
					}
				}
				if guarded {
					r.Pass(rule, construct, star.Pos(), "the optional value is read where %s != nil is known", want)
				} else {
					r.Fail(rule, construct, star.Pos(), "%s reads the optional value *%s where %s != nil is not known (no controlling condition tests that expression): the pointer stays nil when the query leaves the value out or when its literal did not convert, and the read panics inside ParseCypher instead of the query being refused with an error", funcDeclName(fd), want, want)
				}
				return true
			})
		}
	}
	if n == 0 {
		r.Note("C08-R12: the front end reads no optional (pointer to basic) field by dereference")
	}
}

// shortCircuitConds: for a target inside the right operand of && (|| negated), the left operands that must hold (fail)
// for the target to be evaluated.
func shortCircuitConds(root ast.Node, target ast.Node) []condLit {
	var out []condLit
	var stack []ast.Node
	found := false
	ast.Inspect(root, func(n ast.Node) bool {
		if found {
			return false
		}
		if n == nil {
			stack = stack[:len(stack)-1]
			return false
		}
		stack = append(stack, n)
		if n == target {
			found = true
			for i := 0; i+1 < len(stack); i++ {
				be, ok := stack[i].(*ast.BinaryExpr)
				if !ok || (be.Op != token.LAND && be.Op != token.LOR) {
					continue
				}
				if nodeContains(be.Y, target) {
					out = append(out, condLit{Expr: be.X, Neg: be.Op == token.LOR})
				}
			}
			return false
		}
		return true
	})
	return out
}
