package main

// C11 — walk.Generic protocol: stop gates and enter/exit nesting on every CFG path.

import (
	"go/ast"
	"go/token"
	"go/types"

	"golang.org/x/tools/go/cfg"
)

type gNodeKind int

const (
	gkNone gNodeKind = iota
	gkCallback
	gkConstruct
	gkPop
	gkPush
)

func checkGenericProtocol(r *Run) {
	wp := r.MustPkg("cypher/models/walk")
	info := wp.TypesInfo
	decls := FuncDecls(wp)
	fd := decls["Generic"]
	if fd == nil {
		r.Fatal("walk.Generic not found")
	}
	// parameters: node, visitor, cursorConstructor
	var visitorObj, ctorObj types.Object
	for _, p := range fd.Type.Params.List {
		for _, n := range p.Names {
			obj := info.Defs[n]
			if obj == nil {
				continue
			}
			if _, isSig := obj.Type().Underlying().(*types.Signature); isSig {
				ctorObj = obj
			} else if _, isIface := obj.Type().Underlying().(*types.Interface); isIface && namedOf(obj.Type()) != nil && namedOf(obj.Type()).Obj().Name() == "Visitor" {
				visitorObj = obj
			}
		}
	}
	if visitorObj == nil || ctorObj == nil {
		r.Fatal("walk.Generic: visitor / cursor constructor parameters not identified")
	}
	// repeated steps factored into a local closure are analysed where they are called
	body := inlineErrorClosures(info, fd.Body)
	// … and so are steps factored into a helper function of the package (exit-and-clear, exit-and-pop)
	body, aliases := inlineCalls(wp, fd, body, 2, nil)
	g := cfg.New(body, func(call *ast.CallExpr) bool {
		if id, ok := call.Fun.(*ast.Ident); ok && id.Name == "panic" {
			return false
		}
		return true
	})
	visitorCall := func(n ast.Node) (string, *ast.CallExpr) {
		var found string
		var fc *ast.CallExpr
		ast.Inspect(n, func(m ast.Node) bool {
			if call, ok := m.(*ast.CallExpr); ok {
				if sel, ok := call.Fun.(*ast.SelectorExpr); ok {
					if id, ok := sel.X.(*ast.Ident); ok && aliases.Root(info.Uses[id]) == visitorObj {
						if found == "" {
							found = sel.Sel.Name
							fc = call
						}
					}
				}
			}
			return true
		})
		return found, fc
	}
	isCtorCall := func(n ast.Node) bool {
		f := false
		ast.Inspect(n, func(m ast.Node) bool {
			if call, ok := m.(*ast.CallExpr); ok {
				if id, ok := call.Fun.(*ast.Ident); ok && aliases.Root(info.Uses[id]) == ctorObj {
					f = true
				}
			}
			return true
		})
		return f
	}
	// which objects hold the result of visitor.Error()
	errVars := map[types.Object]bool{}
	ast.Inspect(body, func(n ast.Node) bool {
		if as, ok := n.(*ast.AssignStmt); ok && len(as.Lhs) == 1 && len(as.Rhs) == 1 {
			if name, _ := visitorCall(as.Rhs[0]); name == "Error" {
				if id, ok := as.Lhs[0].(*ast.Ident); ok {
					if o := info.Defs[id]; o != nil {
						errVars[o] = true
					}
				}
			}
		}
		return true
	})
	type pos struct {
		b *cfg.Block
		i int
	}
	// classify the condition that ends a block
	condKind := func(b *cfg.Block) (kind string, negated bool) {
		if len(b.Succs) != 2 || len(b.Nodes) == 0 {
			return "", false
		}
		e, ok := b.Nodes[len(b.Nodes)-1].(ast.Expr)
		if !ok {
			return "", false
		}
		e = ast.Unparen(e)
		if be, ok := e.(*ast.BinaryExpr); ok && be.Op == token.NEQ {
			if id, ok := be.X.(*ast.Ident); ok && errVars[info.Uses[id]] && isNilIdent(info, be.Y) {
				return "err", false
			}
		}
		// visitor.Done() itself, or a disjunction containing it: the FALSE branch knows !Done
		// a conjunction containing !visitor.Done(): the TRUE branch knows !Done
		var polarity func(e ast.Expr) int // +1: e true ⇒ !Done ; -1: e false ⇒ !Done ; 0 unknown
		polarity = func(e ast.Expr) int {
			e = ast.Unparen(e)
			switch x := e.(type) {
			case *ast.CallExpr:
				if name, c := visitorCall(x); c == x && name == "Done" {
					return -1
				}
			case *ast.UnaryExpr:
				if x.Op == token.NOT {
					return -polarity(x.X)
				}
			case *ast.BinaryExpr:
				if x.Op == token.LAND {
					if polarity(x.X) == 1 || polarity(x.Y) == 1 {
						return 1
					}
				}
				if x.Op == token.LOR {
					if polarity(x.X) == -1 || polarity(x.Y) == -1 {
						return -1
					}
				}
			}
			return 0
		}
		switch polarity(e) {
		case -1:
			return "done", false
		case 1:
			return "done", true
		}
		return "", false
	}
	// forward exploration from after a callback
	type state struct {
		b        *cfg.Block
		i        int
		needErr  bool
		needDone bool
	}
	callbacks := 0
	for _, b := range g.Blocks {
		for i, n := range b.Nodes {
			name, call := visitorCall(n)
			if call == nil || (name != "Enter" && name != "Visit" && name != "Exit") {
				continue
			}
			if _, isStmt := n.(*ast.ExprStmt); !isStmt {
				continue
			}
			callbacks++
			construct := "Generic:" + name + "@" + r.Pos(call.Pos())
			construct = "Generic:" + name + "#" + itoa(callbacks)
			seen := map[[4]int]bool{}
			var viol string
			var dfs func(s state)
			dfs = func(s state) {
				if viol != "" {
					return
				}
				key := [4]int{int(s.b.Index), s.i, b2i(s.needErr), b2i(s.needDone)}
				if seen[key] {
					return
				}
				seen[key] = true
				for j := s.i; j < len(s.b.Nodes); j++ {
					nd := s.b.Nodes[j]
					isLastCond := j == len(s.b.Nodes)-1 && len(s.b.Succs) == 2
					if isLastCond {
						break
					}
					if nm, c := visitorCall(nd); c != nil && (nm == "Enter" || nm == "Visit" || nm == "Exit") {
						if _, isStmt := nd.(*ast.ExprStmt); isStmt {
							if s.needErr {
								viol = "reaches visitor." + nm + " at " + r.Pos(c.Pos()) + " without testing visitor.Error()"
							} else if s.needDone {
								viol = "reaches visitor." + nm + " at " + r.Pos(c.Pos()) + " without testing visitor.Done()"
							}
							return
						}
					}
					if isCtorCall(nd) {
						if s.needErr {
							viol = "constructs the next cursor at " + r.Pos(nd.Pos()) + " without testing visitor.Error()"
						} else if s.needDone {
							viol = "descends into the next branch at " + r.Pos(nd.Pos()) + " without testing visitor.Done()"
						}
						return
					}
					if _, isRet := nd.(*ast.ReturnStmt); isRet {
						return
					}
				}
				if len(s.b.Succs) == 0 {
					return
				}
				if len(s.b.Succs) == 2 {
					kind, negated := condKind(s.b)
					cond := s.b.Nodes[len(s.b.Nodes)-1]
					// the condition itself may contain a ctor call etc. (not in this code)
					_ = cond
					switch kind {
					case "err":
						// true branch: must return (checked separately); false branch clears needErr
						dfs(state{s.b.Succs[1], 0, false, s.needDone})
						t := s.b.Succs[0]
						if !blockReturns(t) {
							viol = "the non-nil branch of the visitor.Error() test at " + r.Pos(cond.Pos()) + " does not return"
						}
						return
					case "done":
						// go/cfg swaps successors for `!x`; find which successor is the "done" one by checking the expr form
						// Succs[0] is taken when the *node expression* (visitor.Done()) is true.
						clear, other := s.b.Succs[1], s.b.Succs[0]
						if negated {
							clear, other = other, clear
						}
						dfs(state{clear, 0, s.needErr, false})
						// the other branch (Done may be true) must not call back into the visitor either
						dfs(state{other, 0, s.needErr, s.needDone})
						return
					}
				}
				for _, su := range s.b.Succs {
					dfs(state{su, 0, s.needErr, s.needDone})
				}
			}
			// Exit needs only the error gate before the next callback; Done is re-tested by the loop head or explicit gate
			dfs(state{b, i + 1, true, true})
			if viol == "" {
				r.Pass("C11-generic-stop-gates", construct, call.Pos(), "every path from visitor.%s to the next callback or cursor construction tests Error() (returning) and Done()", name)
			} else {
				r.Fail("C11-generic-stop-gates", construct, call.Pos(), "after visitor.%s a path %s: the walk continues although the visitor asked to stop", name, viol)
			}
		}
	}
	if callbacks < 3 {
		r.Undecide("C11-generic: only %d visitor callbacks found in walk.Generic", callbacks)
	}
	// nesting: every pop statement `stack = stack[...]` is preceded, in its block chain back to the loop head, by visitor.Exit
	checkPopsAfterExit(r, fd, g, visitorCall, func(id *ast.Ident) types.Object {
		if o := info.Uses[id]; o != nil {
			return aliases.Root(o)
		}
		return aliases.Root(info.Defs[id])
	})
	// Enter only under first-visit
	checkEnterFirstVisit(r, fd, info, visitorCall)
	// at least one Enter, one Visit and one Exit callback (the three Exit sites of today's code may be merged into one)
	r.Floor("C11-generic-stop-gates", 3)
}

func b2i(b bool) int {
	if b {
		return 1
	}
	return 0
}

func itoa(i int) string {
	s := ""
	if i == 0 {
		return "0"
	}
	for i > 0 {
		s = string(rune('0'+i%10)) + s
		i /= 10
	}
	return s
}

func blockReturns(b *cfg.Block) bool {
	seen := map[*cfg.Block]bool{}
	var walk func(b *cfg.Block) bool
	walk = func(b *cfg.Block) bool {
		if seen[b] {
			return true
		}
		seen[b] = true
		for _, n := range b.Nodes {
			if _, ok := n.(*ast.ReturnStmt); ok {
				return true
			}
		}
		if len(b.Succs) == 0 {
			return true
		}
		if len(b.Succs) > 1 {
			return false
		}
		return walk(b.Succs[0])
	}
	return walk(b)
}

func checkPopsAfterExit(r *Run, fd *ast.FuncDecl, g *cfg.CFG, visitorCall func(ast.Node) (string, *ast.CallExpr), objOf func(*ast.Ident) types.Object) {
	// pops: assignment in which a variable receives a slice expression of itself with a High bound (the variable may be
	// one position of a multiple assignment that came from an inlined helper's return)
	isPop := func(n ast.Node) bool {
		as, ok := n.(*ast.AssignStmt)
		if !ok || len(as.Lhs) != len(as.Rhs) {
			return false
		}
		for i := range as.Lhs {
			se, ok := ast.Unparen(as.Rhs[i]).(*ast.SliceExpr)
			if !ok || se.High == nil {
				continue
			}
			l, ok1 := as.Lhs[i].(*ast.Ident)
			x, ok2 := se.X.(*ast.Ident)
			if ok1 && ok2 && objOf(l) != nil && objOf(l) == objOf(x) {
				return true
			}
		}
		return false
	}
	preds := map[*cfg.Block][]*cfg.Block{}
	for _, b := range g.Blocks {
		if !b.Live {
			continue // blocks after return/continue are unreachable
		}
		for _, s := range b.Succs {
			preds[s] = append(preds[s], b)
		}
	}
	npops := 0
	for _, b := range g.Blocks {
		for i, n := range b.Nodes {
			if !isPop(n) {
				continue
			}
			npops++
			// backward search: every path back must hit an Exit callback before reaching another pop, a push, or the function entry
			ok := true
			seen := map[*cfg.Block]bool{}
			var back func(bb *cfg.Block, upto int)
			back = func(bb *cfg.Block, upto int) {
				if !ok {
					return
				}
				for j := upto - 1; j >= 0; j-- {
					if nm, c := visitorCall(bb.Nodes[j]); c != nil && nm == "Exit" {
						return
					}
					if isPop(bb.Nodes[j]) {
						ok = false
						return
					}
				}
				if seen[bb] {
					return
				}
				seen[bb] = true
				if len(preds[bb]) == 0 {
					ok = false
					return
				}
				for _, p := range preds[bb] {
					back(p, len(p.Nodes))
				}
			}
			back(b, i)
			construct := "Generic:pop#" + itoa(npops)
			if ok {
				r.Pass("C11-generic-nesting", construct, n.Pos(), "every path to this pop passes visitor.Exit of the popped node")
			} else {
				r.Fail("C11-generic-nesting", construct, n.Pos(), "a cursor is popped on a path that did not call visitor.Exit: enter/exit notifications are not properly nested")
			}
		}
	}
	if npops == 0 {
		r.Undecide("C11-generic: no stack pop recognised in walk.Generic")
	}
	// the consume flag after Exit: Exit may call Consume(). On every path onwards from an Exit callback the first read
	// of visitor.WasConsumed() must be one that throws the value away (a statement of its own). If the first read is a
	// test, the flag set in the child's Exit is taken for the parent's: the parent is exited at once and its remaining
	// children are never visited.
	nexits := 0
	for _, b := range g.Blocks {
		for i, n := range b.Nodes {
			nm, c := visitorCall(n)
			if c == nil || nm != "Exit" {
				continue
			}
			nexits++
			leak := token.NoPos
			seen := map[*cfg.Block]bool{}
			var fwd func(bb *cfg.Block, from int)
			fwd = func(bb *cfg.Block, from int) {
				if leak != token.NoPos {
					return
				}
				for j := from; j < len(bb.Nodes); j++ {
					if nm2, c2 := visitorCall(bb.Nodes[j]); c2 != nil && nm2 == "WasConsumed" {
						if es, isStmt := bb.Nodes[j].(*ast.ExprStmt); isStmt && es.X == ast.Expr(c2) {
							return // cleared
						}
						leak = c2.Pos()
						return
					}
				}
				if seen[bb] {
					return
				}
				seen[bb] = true
				for _, s := range bb.Succs {
					fwd(s, 0)
				}
			}
			fwd(b, i+1)
			construct := "Generic:exit#" + itoa(nexits) + ":consume-cleared"
			if leak == token.NoPos {
				r.Pass("C11-generic-nesting", construct, n.Pos(), "after this Exit the consume flag is cleared before anything tests it")
			} else {
				r.Fail("C11-generic-nesting", construct, leak, "a path leads from this visitor.Exit (%s) to a test of visitor.WasConsumed() without the flag being cleared in between: a Consume() made in a node's Exit is taken for its parent's, the parent is exited at once and its remaining children are never visited", r.Fset.Position(n.Pos()))
			}
		}
	}
}

func checkEnterFirstVisit(r *Run, fd *ast.FuncDecl, info *types.Info, visitorCall func(ast.Node) (string, *ast.CallExpr)) {
	// visitor.Enter must be lexically inside an if whose condition is the first-visit test
	var stack []ast.Node
	found := 0
	ast.Inspect(fd.Body, func(n ast.Node) bool {
		if n == nil {
			stack = stack[:len(stack)-1]
			return true
		}
		stack = append(stack, n)
		es, ok := n.(*ast.ExprStmt)
		if !ok {
			return true
		}
		if nm, c := visitorCall(es); c != nil && nm == "Enter" {
			found++
			guarded := false
			for i := len(stack) - 1; i >= 0; i-- {
				if ifs, ok := stack[i].(*ast.IfStmt); ok {
					if isFirstVisitTest(info, fd, ifs.Cond) {
						// must be in the then-branch
						if i+1 < len(stack) && stack[i+1] == ifs.Body {
							guarded = true
						}
					}
				}
			}
			if guarded {
				r.Pass("C11-generic-nesting", "Generic:Enter-first-visit", c.Pos(), "visitor.Enter is called only on the first visit of a cursor")
			} else {
				r.Fail("C11-generic-nesting", "Generic:Enter-first-visit", c.Pos(), "visitor.Enter is not restricted to the first visit: a node can be entered more than once")
			}
		}
		return true
	})
	if found == 0 {
		r.Undecide("C11-generic: visitor.Enter call not found")
	}
}

func exprStringNoFset(e ast.Expr) string {
	switch x := ast.Unparen(e).(type) {
	case *ast.Ident:
		return x.Name
	case *ast.CallExpr:
		if sel, ok := x.Fun.(*ast.SelectorExpr); ok && len(x.Args) == 0 {
			if id, ok := sel.X.(*ast.Ident); ok {
				return id.Name + "." + sel.Sel.Name + "()"
			}
		}
	}
	return ""
}

// isFirstVisitTest: the condition is a call of the cursor's IsFirstVisit method, or a local that holds the result of
// one and is never assigned again.
func isFirstVisitTest(info *types.Info, fd *ast.FuncDecl, cond ast.Expr) bool {
	isCall := func(e ast.Expr) bool {
		call, ok := ast.Unparen(e).(*ast.CallExpr)
		if !ok || len(call.Args) != 0 {
			return false
		}
		sel, ok := call.Fun.(*ast.SelectorExpr)
		return ok && sel.Sel.Name == "IsFirstVisit"
	}
	if isCall(cond) {
		return true
	}
	if _, ok := ast.Unparen(cond).(*ast.Ident); ok {
		return isCall(resolveLocalCopy(info, fd.Body, cond))
	}
	return false
}
