package main

// C18-R8 number-preserving-decode: property values travel through the dump as JSON numbers and are decoded on the load
// side into untyped containers (map[string]any). encoding/json turns every number decoded into an `any` into a float64
// unless the decoder was told UseNumber: an integer beyond 2^53 then comes back as a different integer. Every decoder
// of package retriever whose target can hold an `any` must call UseNumber (json.Unmarshal cannot), and the json.Number
// values must be converted before they reach the database (a function that type-switches on json.Number is applied to
// the record's property map at every place it is wrapped in graph.Properties).

import (
	"go/ast"
	"go/token"
	"go/types"
	"strings"

	"golang.org/x/tools/go/packages"
)

func typeHoldsAny(t types.Type, seen map[types.Type]bool) bool {
	if t == nil || seen[t] {
		return false
	}
	seen[t] = true
	switch u := t.(type) {
	case *types.Named:
		if u.Obj().Pkg() != nil && u.Obj().Pkg().Path() == "time" {
			return false
		}
		return typeHoldsAny(u.Underlying(), seen)
	case *types.Alias:
		return typeHoldsAny(types.Unalias(t), seen)
	case *types.Pointer:
		return typeHoldsAny(u.Elem(), seen)
	case *types.Slice:
		return typeHoldsAny(u.Elem(), seen)
	case *types.Array:
		return typeHoldsAny(u.Elem(), seen)
	case *types.Map:
		return typeHoldsAny(u.Elem(), seen)
	case *types.Struct:
		for i := 0; i < u.NumFields(); i++ {
			if typeHoldsAny(u.Field(i).Type(), seen) {
				return true
			}
		}
	case *types.Interface:
		return u.NumMethods() == 0
	case *types.TypeParam:
		return true // instantiated with record types that hold property maps
	}
	return false
}

func checkNumberPreservingDecode(r *Run, p *packages.Package) {
	info := p.TypesInfo
	n := 0
	exact := false
	for _, f := range p.Syntax {
		for _, d := range f.Decls {
			fd, ok := d.(*ast.FuncDecl)
			if !ok || fd.Body == nil {
				continue
			}
			// decoders created in this function
			decoders := map[types.Object]*ast.CallExpr{}
			ast.Inspect(fd.Body, func(x ast.Node) bool {
				as, ok := x.(*ast.AssignStmt)
				if !ok || len(as.Lhs) != 1 || len(as.Rhs) != 1 {
					return true
				}
				call, ok := as.Rhs[0].(*ast.CallExpr)
				if !ok {
					return true
				}
				if fn := calleeOf(info, call); fn != nil && funcFullName(fn) == "encoding/json.NewDecoder" {
					if id, ok := as.Lhs[0].(*ast.Ident); ok {
						decoders[info.ObjectOf(id)] = call
					}
				}
				return true
			})
			for dec, created := range decoders {
				holdsAny, usesNumber := false, false
				ast.Inspect(fd.Body, func(x ast.Node) bool {
					call, ok := x.(*ast.CallExpr)
					if !ok {
						return true
					}
					sel, ok := call.Fun.(*ast.SelectorExpr)
					if !ok {
						return true
					}
					id, ok := ast.Unparen(sel.X).(*ast.Ident)
					if !ok || info.Uses[id] != dec {
						return true
					}
					switch sel.Sel.Name {
					case "UseNumber":
						usesNumber = true
					case "Decode":
						if len(call.Args) == 1 && typeHoldsAny(info.TypeOf(call.Args[0]), map[types.Type]bool{}) {
							holdsAny = true
						}
					}
					return true
				})
				if !holdsAny {
					continue
				}
				n++
				construct := funcDisplayName(fd) + ":" + dec.Name()
				if usesNumber {
					exact = true
					r.Pass("C18-R8-number-preserving-decode", construct, created.Pos(), "the decoder of a target that can hold untyped values uses json.Number")
				} else {
					r.Fail("C18-R8-number-preserving-decode", construct, created.Pos(), "%s decodes into a target that can hold untyped property values without UseNumber: every number becomes a float64, so an integer property beyond 2^53 (9007199254740993) is loaded as a different value", funcDisplayName(fd))
				}
			}
			// json.Unmarshal into such a target cannot preserve numbers at all
			ast.Inspect(fd.Body, func(x ast.Node) bool {
				call, ok := x.(*ast.CallExpr)
				if !ok || len(call.Args) != 2 {
					return true
				}
				if fn := calleeOf(info, call); fn != nil && funcFullName(fn) == "encoding/json.Unmarshal" {
					if typeHoldsAny(info.TypeOf(call.Args[1]), map[types.Type]bool{}) {
						n++
						r.Fail("C18-R8-number-preserving-decode", funcDisplayName(fd)+":Unmarshal", call.Pos(), "json.Unmarshal into a target that can hold untyped values turns every number into a float64")
					}
				}
				return true
			})
		}
	}
	if n == 0 {
		r.Undecide("C18-R8: no JSON decoder of an untyped target found in package retriever")
		return
	}
	if !exact {
		return // nothing is decoded as json.Number, so there is nothing to convert
	}
	// conversion: every graph.AsProperties(x.Properties) of a fragment record goes through a function that handles json.Number
	converters := map[*types.Func]bool{}
	for _, f := range p.Syntax {
		for _, d := range f.Decls {
			fd, ok := d.(*ast.FuncDecl)
			if !ok || fd.Body == nil {
				continue
			}
			ast.Inspect(fd.Body, func(x ast.Node) bool {
				if cc, ok := x.(*ast.CaseClause); ok {
					for _, e := range cc.List {
						if tv, has := info.Types[e]; has && tv.IsType() {
							if nt := namedOf(tv.Type); nt != nil && nt.Obj().Pkg() != nil && nt.Obj().Pkg().Path() == "encoding/json" && nt.Obj().Name() == "Number" {
								if fn, ok := info.Defs[fd.Name].(*types.Func); ok {
									converters[fn] = true
								}
							}
						}
					}
				}
				return true
			})
		}
	}
	// closure: functions that call a converter
	for changed := true; changed; {
		changed = false
		for _, f := range p.Syntax {
			for _, d := range f.Decls {
				fd, ok := d.(*ast.FuncDecl)
				if !ok || fd.Body == nil {
					continue
				}
				fn, _ := info.Defs[fd.Name].(*types.Func)
				if fn == nil || converters[fn] {
					continue
				}
				if stmtHasCall(fd.Body, func(c *ast.CallExpr) bool { g := calleeOf(info, c); return g != nil && converters[g] }) && fd.Type.Results != nil && len(fd.Type.Results.List) == 1 {
					if _, isMap := info.TypeOf(fd.Type.Results.List[0].Type).Underlying().(*types.Map); isMap {
						converters[fn] = true
						changed = true
					}
				}
			}
		}
	}
	sites := 0
	for _, f := range p.Syntax {
		for _, d := range f.Decls {
			fd, ok := d.(*ast.FuncDecl)
			if !ok || fd.Body == nil {
				continue
			}
			ast.Inspect(fd.Body, func(x ast.Node) bool {
				call, ok := x.(*ast.CallExpr)
				if !ok || len(call.Args) != 1 {
					return true
				}
				fn := calleeOf(info, call)
				if fn == nil || fn.Name() != "AsProperties" {
					return true
				}
				arg := ast.Unparen(call.Args[0])
				raw := false
				if sel, ok := arg.(*ast.SelectorExpr); ok && sel.Sel.Name == "Properties" {
					if nt := namedOf(info.TypeOf(sel.X)); nt != nil && (nt.Obj().Name() == "FragmentNode" || nt.Obj().Name() == "FragmentEdge") {
						raw = true
					}
				}
				converted := false
				if c2, ok := arg.(*ast.CallExpr); ok {
					if g := calleeOf(info, c2); g != nil && converters[g] {
						converted = true
					}
				}
				if !raw && !converted {
					return true
				}
				sites++
				construct := funcDisplayName(fd) + ":AsProperties"
				if converted {
					r.Pass("C18-R8-number-preserving-decode", construct, call.Pos(), "the record's property map is converted from json.Number before it is stored")
				} else {
					r.Fail("C18-R8-number-preserving-decode", construct, call.Pos(), "the decoded property map of a fragment record is stored as it was decoded: with exact number decoding its numbers are json.Number values, which no driver stores as numbers")
				}
				return true
			})
		}
	}
	if sites == 0 {
		r.Undecide("C18-R8: no place where a fragment record's properties are wrapped in graph.Properties found")
	}
	_ = token.NoPos
}

// checkLineLimitAgreement (R1, limit clause): the reader bounds the length of a record line with a constant (the max
// argument of Scanner.Buffer); the writer of the same records must compare against the same constant, otherwise it
// writes fragments its own reader refuses.
func checkLineLimitAgreement(r *Run, p *packages.Package) {
	info := p.TypesInfo
	var limit types.Object
	var limitPos token.Pos
	for _, f := range p.Syntax {
		ast.Inspect(f, func(x ast.Node) bool {
			call, ok := x.(*ast.CallExpr)
			if !ok || len(call.Args) != 2 {
				return true
			}
			if fn := calleeOf(info, call); fn != nil && funcFullName(fn) == "bufio.Scanner.Buffer" {
				ast.Inspect(call.Args[1], func(y ast.Node) bool {
					if id, ok := y.(*ast.Ident); ok {
						if c, isConst := info.Uses[id].(*types.Const); isConst && c.Pkg() == p.Types {
							limit, limitPos = c, call.Pos()
						}
					}
					return true
				})
			}
			return true
		})
	}
	if limit == nil {
		r.Undecide("C18-R1: the fragment reader's line limit (Scanner.Buffer with a package constant) was not found")
		return
	}
	// writer: the method that calls (*json.Encoder).Encode on a field of its receiver
	found := false
	for _, f := range p.Syntax {
		for _, d := range f.Decls {
			fd, ok := d.(*ast.FuncDecl)
			if !ok || fd.Body == nil || fd.Recv == nil {
				continue
			}
			encodes := stmtHasCall(fd.Body, func(c *ast.CallExpr) bool {
				fn := calleeOf(info, c)
				return fn != nil && funcFullName(fn) == "encoding/json.Encoder.Encode"
			})
			if !encodes {
				continue
			}
			found = true
			compares := false
			ast.Inspect(fd.Body, func(x ast.Node) bool {
				be, ok := x.(*ast.BinaryExpr)
				if !ok || (be.Op != token.GTR && be.Op != token.GEQ && be.Op != token.LSS && be.Op != token.LEQ) {
					return true
				}
				for _, side := range []ast.Expr{be.X, be.Y} {
					ast.Inspect(side, func(y ast.Node) bool {
						if id, ok := y.(*ast.Ident); ok && info.Uses[id] == limit {
							compares = true
						}
						return true
					})
				}
				return true
			})
			construct := funcDisplayName(fd) + ":" + limit.Name()
			if compares {
				r.Pass("C18-R1-line-limit", construct, fd.Pos(), "the record writer applies the reader's limit %s", limit.Name())
			} else {
				r.Fail("C18-R1-line-limit", construct, fd.Pos(), "%s writes records of any length while the reader (%s) refuses lines longer than %s: an entity with a larger property is dumped into a fragment that can never be loaded", funcDisplayName(fd), r.Fset.Position(limitPos), limit.Name())
			}
		}
	}
	if !found {
		r.Undecide("C18-R1: no record writer (a method calling json.Encoder.Encode) found in package retriever")
	}
}

// checkEndpointArgumentRoles (R10): relationships are described by a start and an end ID of the same type, so the
// compiler cannot tell a call that passes them in the wrong order. Wherever a function of the package has parameters
// named for the two roles, the arguments handed to them must not be named for the opposite roles: a swapped pair
// reverses every relationship that passes through the call (the resumed dump's degree and endpoint histograms).
func checkEndpointArgumentRoles(r *Run, p *packages.Package) {
	const rule = "C18-R10-endpoint-argument-roles"
	info := p.TypesInfo
	roleOf := func(name string) string {
		l := strings.ToLower(name)
		hasStart := strings.Contains(l, "start") || strings.Contains(l, "source")
		hasEnd := strings.Contains(l, "end") || strings.Contains(l, "target") || strings.Contains(l, "destination")
		switch {
		case hasStart && !hasEnd:
			return "start"
		case hasEnd && !hasStart:
			return "end"
		}
		return ""
	}
	argRole := func(e ast.Expr) string {
		role := ""
		mixed := false
		ast.Inspect(e, func(x ast.Node) bool {
			var name string
			switch t := x.(type) {
			case *ast.Ident:
				name = t.Name
			case *ast.SelectorExpr:
				name = t.Sel.Name
			}
			if rl := roleOf(name); rl != "" {
				if role != "" && role != rl {
					mixed = true
				}
				role = rl
			}
			return true
		})
		if mixed {
			return ""
		}
		return role
	}
	n := 0
	for _, f := range p.Syntax {
		for _, d := range f.Decls {
			fd, ok := d.(*ast.FuncDecl)
			if !ok || fd.Body == nil {
				continue
			}
			ast.Inspect(fd.Body, func(x ast.Node) bool {
				call, ok := x.(*ast.CallExpr)
				if !ok {
					return true
				}
				callee := calleeOf(info, call)
				if callee == nil {
					return true
				}
				sig := callee.Type().(*types.Signature)
				if sig.Params().Len() != len(call.Args) {
					return true
				}
				type pa struct{ prole, arole string }
				var pairs []pa
				for i := 0; i < sig.Params().Len(); i++ {
					pr := roleOf(sig.Params().At(i).Name())
					if pr == "" {
						continue
					}
					pairs = append(pairs, pa{pr, argRole(call.Args[i])})
				}
				if len(pairs) < 2 {
					return true
				}
				n++
				crossed := 0
				for _, q := range pairs {
					if q.arole != "" && q.arole != q.prole {
						crossed++
					}
				}
				construct := funcDeclName(fd) + "→" + callee.Name() + "@" + itoaCallOrdinal(fd, call)
				if crossed >= 2 {
					r.Fail(rule, construct, call.Pos(), "%s is called with its start and end arguments exchanged (the argument for each role is named for the other): every relationship that goes through this call is recorded reversed", callee.Name())
				} else {
					r.Pass(rule, construct, call.Pos(), "start and end arguments are in the callee's order")
				}
				return true
			})
		}
	}
	if n < 3 {
		r.Undecide("C18-R10: fewer than three calls with start/end parameters found in package retriever (%d)", n)
	}
}

func itoaCallOrdinal(fd *ast.FuncDecl, target *ast.CallExpr) string {
	idx, out := 0, 0
	ast.Inspect(fd.Body, func(x ast.Node) bool {
		if c, ok := x.(*ast.CallExpr); ok {
			idx++
			if c == target {
				out = idx
			}
		}
		return true
	})
	s := ""
	for out > 0 {
		s = string(rune('0'+out%10)) + s
		out /= 10
	}
	if s == "" {
		return "0"
	}
	return s
}

// checkIntegerBeforeFloat (R11): a json.Number that is to become a Go value is tried as an integer first. Float64()
// succeeds for every integer literal, so a conversion that asks it first never reaches the integer case, and integers
// beyond 2^53 are rounded on their way through float64.
func checkIntegerBeforeFloat(r *Run, p *packages.Package) {
	const rule = "C18-R11-integer-before-float"
	info := p.TypesInfo
	n := 0
	for _, name := range sortedKeys(FuncDecls(p)) {
		fd := FuncDecls(p)[name]
		if fd.Body == nil {
			continue
		}
		first := map[types.Object]map[string]token.Pos{}
		ast.Inspect(fd.Body, func(x ast.Node) bool {
			call, ok := x.(*ast.CallExpr)
			if !ok || len(call.Args) != 0 {
				return true
			}
			sel, ok := call.Fun.(*ast.SelectorExpr)
			if !ok || (sel.Sel.Name != "Int64" && sel.Sel.Name != "Float64") {
				return true
			}
			if nt := namedOf(info.TypeOf(sel.X)); nt == nil || nt.Obj().Pkg() == nil || nt.Obj().Pkg().Path() != "encoding/json" || nt.Obj().Name() != "Number" {
				return true
			}
			id, ok := ast.Unparen(sel.X).(*ast.Ident)
			if !ok {
				return true
			}
			o := info.Uses[id]
			if first[o] == nil {
				first[o] = map[string]token.Pos{}
			}
			if _, seen := first[o][sel.Sel.Name]; !seen {
				first[o][sel.Sel.Name] = call.Pos()
			}
			return true
		})
		for o, m := range first {
			ip, hasI := m["Int64"]
			fp, hasF := m["Float64"]
			if !hasF {
				continue
			}
			n++
			construct := funcDeclName(fd) + ":" + o.Name()
			switch {
			case !hasI:
				r.Fail(rule, construct, fp, "the number is converted with Float64() only: an integer beyond 2^53 is rounded (9007199254740993 becomes 9007199254740992)")
			case fp < ip:
				r.Fail(rule, construct, fp, "Float64() is asked before Int64(): it succeeds for every integer literal, so the integer case is never reached and an integer beyond 2^53 is rounded (9007199254740993 becomes 9007199254740992)")
			default:
				r.Pass(rule, construct, ip, "Int64() is tried first, Float64() only for what is not an integer")
			}
		}
	}
	r.Counts[rule+":conversions"] = n
}
