package main

// C18 — dump then load: writer/reader table agreement and writer lifecycle (thin structural clause).

import (
	"go/ast"
	"go/token"
	"go/types"
	"sort"
	"strings"

	"golang.org/x/tools/go/packages"
)

func init() { register("C18", checkC18) }

// switchCaseConsts: constants listed in the case clauses of the first switch over a value of the named type.
func switchCaseConsts(p *packages.Package, fd *ast.FuncDecl, typeName string) (map[string]bool, bool) {
	// the function's own switch, or that of a same-package function it calls directly (the per-entry checks of a
	// validator moved into a helper)
	for _, body := range bodyWithHelpers(p, fd) {
		if set, def := switchCaseConstsIn(p, body, typeName); set != nil {
			return set, def
		}
	}
	return nil, false
}

func switchCaseConstsIn(p *packages.Package, body ast.Node, typeName string) (map[string]bool, bool) {
	out := map[string]bool{}
	hasDefaultErr := false
	found := false
	ast.Inspect(body, func(n ast.Node) bool {
		sw, ok := n.(*ast.SwitchStmt)
		if !ok || sw.Tag == nil || found {
			return true
		}
		tv, ok := p.TypesInfo.Types[sw.Tag]
		if !ok || namedName(tv.Type) != typeName {
			return true
		}
		found = true
		for _, c := range sw.Body.List {
			cc := c.(*ast.CaseClause)
			if cc.List == nil {
				for _, st := range cc.Body {
					if rs, ok := st.(*ast.ReturnStmt); ok && len(rs.Results) >= 1 && !isNilIdent(p.TypesInfo, rs.Results[len(rs.Results)-1]) {
						hasDefaultErr = true
					}
				}
			}
			for _, e := range cc.List {
				if id, ok := ast.Unparen(e).(*ast.Ident); ok {
					if c, ok := p.TypesInfo.Uses[id].(*types.Const); ok {
						out[c.Name()] = true
					}
				}
			}
		}
		return true
	})
	if !found {
		return nil, false
	}
	return out, hasDefaultErr
}

func checkC18(r *Run) propMeta {
	meta := propMeta{Level: "other",
		Explanation: "Decides a thin structural necessary condition of dump/load round-tripping: (R1) table agreement — the codec switches of the compression writer, the decompression reader, the validator and the file-extension table accept the same set and reject everything else with an error; every switch over the fragment phase handles the same phases; dump and load use the same record struct types, every field of FragmentNode/FragmentEdge is populated by the dump and read by the load path; (R2) writer lifecycle — in both phase functions the last partial shard is flushed before the success return and an open writer is aborted on error (shared with C19-R3); (R3) the manifest entry's Count, CompressedBytes, UncompressedBytes and SHA256 are taken from the writer's own counters and hasher in Close, and the loader compares count, size and digest. (R4) on the verifier's side (everything reachable from collectDatabaseMetrics) every keyset scan's total is counted from the database being scanned (countGraphEntitySnapshot), never copied from a manifest or checkpoint; (R5) no graph.ID is compared with the constant 0 (0 is a valid ID; cursor presence has its own boolean). (R6) the graph-name to directory mapping is url.PathEscape with nothing lossy after it; (R7) no metrics-builder map is keyed by a strings.Join of names. NOT decided: graph isomorphism, shard/batch boundary arithmetic, JSON value fidelity of properties, metrics fingerprints — all value-level.",
		Assumptions: []string{"encoding/json round-trips the record structs"},
		TrustedBase: []string{"go/types", "this analyser"}}
	if err := r.Load("./retriever/..."); err != nil {
		r.Fatal("load: %v", err)
	}
	p := r.MustPkg("retriever")
	retrieverPkg = p
	decls := FuncDecls(p)
	info := p.TypesInfo

	// ---- R1 codec tables
	var ref map[string]bool
	refName := ""
	for _, name := range []string{"newCompressionWriter", "newDecompressionReader", "ValidateCompression", "compressionExtension"} {
		fd := decls[name]
		if fd == nil {
			r.Undecide("C18-R1: %s not found", name)
			continue
		}
		set, defErr := switchCaseConsts(p, fd, "CompressionCodec")
		if set == nil {
			r.Undecide("C18-R1: %s has no switch over the codec", name)
			continue
		}
		if ref == nil {
			ref, refName = set, name
		}
		same := strings.Join(sortedKeys(set), ",") == strings.Join(sortedKeys(ref), ",")
		if same && defErr {
			r.Pass("C18-R1-codec-table", name, fd.Pos(), "handles %v and rejects the rest", sortedKeys(set))
		} else {
			r.Fail("C18-R1-codec-table", name, fd.Pos(), "codec table %v (rejecting default: %v) differs from %s's %v: a dump written with one codec cannot be read back, or an unknown codec is silently treated as another", sortedKeys(set), defErr, refName, sortedKeys(ref))
		}
	}
	// ---- R1 phase tables
	var pref map[string]bool
	prefName := ""
	for _, name := range []string{"fragmentPath", roleName("verifyCollectionFragments"), "Manifest.validate"} {
		fd := decls[name]
		if fd == nil {
			r.Undecide("C18-R1: %s not found", name)
			continue
		}
		set, _ := switchCaseConsts(p, fd, "Phase")
		if set == nil {
			r.Undecide("C18-R1: %s has no switch over the phase", name)
			continue
		}
		if pref == nil {
			pref, prefName = set, name
		}
		if strings.Join(sortedKeys(set), ",") == strings.Join(sortedKeys(pref), ",") {
			r.Pass("C18-R1-phase-table", name, fd.Pos(), "handles phases %v", sortedKeys(set))
		} else {
			r.Fail("C18-R1-phase-table", name, fd.Pos(), "phase table %v differs from %s's %v: fragments of a phase the dump writes are skipped on load/verify", sortedKeys(set), prefName, sortedKeys(pref))
		}
	}
	// ---- R1 record types: written type == decoded type; fields populated and read
	for _, rec := range []struct{ typ, dumpFn string }{{"FragmentNode", "dumpNodePhase"}, {"FragmentEdge", "dumpEdgePhase"}} {
		tn, _ := p.Types.Scope().Lookup(rec.typ).(*types.TypeName)
		fd := decls[rec.dumpFn]
		if tn == nil || fd == nil {
			r.Undecide("C18-R1: %s / %s not found", rec.typ, rec.dumpFn)
			continue
		}
		// the value passed to fragmentWriter.Write has this type
		written := false
		var lit *ast.CompositeLit
		ast.Inspect(fd.Body, func(n ast.Node) bool {
			switch x := n.(type) {
			case *ast.CallExpr:
				if sel, ok := x.Fun.(*ast.SelectorExpr); ok && sel.Sel.Name == "Write" && len(x.Args) == 1 {
					if tv, ok := info.Types[x.Args[0]]; ok && namedOf(tv.Type) != nil && namedOf(tv.Type).Obj() == tn {
						written = true
					}
				}
			case *ast.CompositeLit:
				if tv, ok := info.Types[x]; ok && namedOf(tv.Type) != nil && namedOf(tv.Type).Obj() == tn {
					lit = x
				}
			}
			return true
		})
		if written {
			r.Pass("C18-R1-record-type", rec.dumpFn+":writes:"+rec.typ, fd.Pos(), "the dump writes %s records", rec.typ)
		} else {
			r.Fail("C18-R1-record-type", rec.dumpFn+":writes:"+rec.typ, fd.Pos(), "%s no longer writes %s records: writer and reader disagree on the record type", rec.dumpFn, rec.typ)
		}
		st := tn.Type().Underlying().(*types.Struct)
		set := map[string]bool{}
		if lit != nil {
			for _, el := range lit.Elts {
				if kv, ok := el.(*ast.KeyValueExpr); ok {
					if id, ok := kv.Key.(*ast.Ident); ok {
						set[id.Name] = true
					}
				}
			}
		}
		// load-side reads: fields selected in load.go / verify.go functions
		reads := map[*types.Var]token.Pos{}
		loadPath := declsReachableFrom(p, "Load")
		if len(loadPath) < 5 {
			r.Undecide("C18-R1: the load path (functions reachable from retriever.Load) has only %d functions", len(loadPath))
		}
		for d2 := range loadPath {
			if d2.Body != nil {
				fieldsSelectedIn(p, d2.Body, reads)
			}
		}
		for i := 0; i < st.NumFields(); i++ {
			f := st.Field(i)
			construct := rec.typ + "." + f.Name()
			_, readOK := reads[f]
			switch {
			case !set[f.Name()]:
				r.Fail("C18-R1-record-fields", construct, f.Pos(), "the dump never populates %s: the value is lost in every dump", construct)
			case !readOK:
				r.Fail("C18-R1-record-fields", construct, f.Pos(), "the load path never reads %s: the dumped value is dropped when loading", construct)
			default:
				r.Pass("C18-R1-record-fields", construct, f.Pos(), "populated by the dump and read by the load")
			}
		}
	}
	// ---- R2 writer lifecycle (same rule as C19-R3, reported here under C18)
	for _, phase := range []string{"dumpNodePhase", "dumpEdgePhase"} {
		fd := decls[phase]
		if fd == nil {
			continue
		}
		aborts := stmtHasCall(fd.Body, func(c *ast.CallExpr) bool {
			sel, ok := c.Fun.(*ast.SelectorExpr)
			return ok && sel.Sel.Name == "Abort"
		})
		lastFlush := false
		n := len(fd.Body.List)
		if n >= 2 {
			if ifs, ok := fd.Body.List[n-2].(*ast.IfStmt); ok {
				if as, ok := ifs.Init.(*ast.AssignStmt); ok && len(as.Rhs) == 1 {
					if c, ok := as.Rhs[0].(*ast.CallExpr); ok {
						if id, ok := c.Fun.(*ast.Ident); ok && id.Name == "flush" {
							lastFlush = true
						}
					}
				}
			}
		}
		// shard rollover: flush when Count() >= ShardSize
		rollover := false
		// a call of flush that is reached exactly when the writer's count has reached the shard size: inside
		// `if w.Count() >= size { … }`, or after `if w.Count() < size { return nil }`
		isCountVsSize := func(e ast.Expr, neg bool) bool {
			be, ok := ast.Unparen(e).(*ast.BinaryExpr)
			if !ok {
				return false
			}
			isCount := func(x ast.Expr) bool {
				call, ok := ast.Unparen(x).(*ast.CallExpr)
				if !ok || len(call.Args) != 0 {
					return false
				}
				sel, ok := call.Fun.(*ast.SelectorExpr)
				return ok && sel.Sel.Name == "Count"
			}
			isSize := func(x ast.Expr) bool {
				return strings.Contains(exprString(r.Fset, x), "ShardSize")
			}
			op, x, y := be.Op, be.X, be.Y
			if isSize(x) && isCount(y) {
				x, y = y, x
				switch op {
				case token.LSS:
					op = token.GTR
				case token.LEQ:
					op = token.GEQ
				case token.GTR:
					op = token.LSS
				case token.GEQ:
					op = token.LEQ
				}
			}
			if !isCount(x) || !isSize(y) {
				return false
			}
			if neg {
				return op == token.LSS
			}
			return op == token.GEQ || op == token.EQL
		}
		ast.Inspect(fd.Body, func(x ast.Node) bool {
			fl, ok := x.(*ast.FuncLit)
			if !ok {
				return true
			}
			ast.Inspect(fl.Body, func(y ast.Node) bool {
				call, ok := y.(*ast.CallExpr)
				if !ok {
					return true
				}
				if id, ok := call.Fun.(*ast.Ident); !ok || id.Name != "flush" {
					return true
				}
				for _, l := range controlConds(fl.Body, call) {
					e, neg := l.Expr, l.Neg
					for {
						u, isNot := ast.Unparen(e).(*ast.UnaryExpr)
						if !isNot || u.Op != token.NOT {
							break
						}
						e, neg = u.X, !neg
					}
					if isCountVsSize(e, neg) {
						rollover = true
					}
				}
				return true
			})
			return true
		})
		if aborts && lastFlush && rollover {
			r.Pass("C18-R2-writer-lifecycle", phase, fd.Pos(), "shard rollover at Count() >= ShardSize, final partial shard flushed before success, open writer aborted on error")
		} else {
			r.Fail("C18-R2-writer-lifecycle", phase, fd.Pos(), "writer lifecycle incomplete (rollover %v, final flush %v, abort on error %v): the records of the last partial shard are never written", rollover, lastFlush, aborts)
		}
	}
	// ---- R3 manifest entry from the writer's own counters; loader compares them
	checkWriterCells(r, p)
	var vc *ast.FuncDecl
	for _, cand := range declsWhere(p, func(fd *ast.FuncDecl) bool {
		found := false
		ast.Inspect(fd.Body, func(n ast.Node) bool {
			if cl, ok := n.(*ast.CompositeLit); ok && namedName(info.TypeOf(cl)) == "ChecksumMismatchError" {
				found = true
			}
			return !found
		})
		return found
	}) {
		vc = cand // the function that can report a checksum mismatch (today verifyChecksumValues)
	}
	if vc != nil {
		// both an integer-typed and a string-typed parameter pair are compared with != and the branch returns an error
		intCmp, strCmp := false, false
		ast.Inspect(vc.Body, func(n ast.Node) bool {
			ifs, ok := n.(*ast.IfStmt)
			if !ok {
				return true
			}
			returns := false
			for _, st := range ifs.Body.List {
				if _, isRet := st.(*ast.ReturnStmt); isRet {
					returns = true
				}
			}
			if !returns {
				return true
			}
			ast.Inspect(ifs.Cond, func(m ast.Node) bool {
				if be, ok := m.(*ast.BinaryExpr); ok && be.Op == token.NEQ {
					if b, ok := info.TypeOf(be.X).Underlying().(*types.Basic); ok {
						if b.Info()&types.IsInteger != 0 {
							intCmp = true
						}
						if b.Info()&types.IsString != 0 {
							strCmp = true
						}
					}
				}
				return true
			})
			return true
		})
		if intCmp && strCmp {
			r.Pass("C18-R3-manifest-entry", "verifyChecksumValues", vc.Pos(), "digest and compressed size are both compared and a mismatch returns an error")
		} else {
			r.Fail("C18-R3-manifest-entry", "verifyChecksumValues", vc.Pos(), "the checksum comparison no longer covers both digest (string !=: %v) and size (integer !=: %v)", strCmp, intCmp)
		}
	}
	var countField *types.Var
	if tn, ok := p.Types.Scope().Lookup("FileManifest").(*types.TypeName); ok {
		if st, ok := tn.Type().Underlying().(*types.Struct); ok {
			for i := 0; i < st.NumFields(); i++ {
				if st.Field(i).Name() == "Count" {
					countField = st.Field(i)
				}
			}
		}
	}
	for _, name := range []string{"decodeNodeFragmentFile", "decodeEdgeFragmentFile"} {
		if fd := decls[name]; fd != nil && countField != nil {
			// (a shared helper the function ends in is read as part of it.) Every way to a success return — the verified
			// preflight read and the plain read alike — passes the comparison.
			inl := inlineFunc(p, fd, 2)
			pos := comparesWithField(info, inl.Body, countField, token.NEQ)
			unchecked := ""
			if paths, complete := structuredPaths(info, r.Fset, inl.Body.List, 512); complete {
				for _, pth := range paths {
					if len(pth.Leaves) == 0 {
						continue
					}
					rs, isRet := pth.Leaves[len(pth.Leaves)-1].(*ast.ReturnStmt)
					if !isRet || len(rs.Results) == 0 || !isNilIdent(info, rs.Results[len(rs.Results)-1]) {
						continue
					}
					compared := false
					for _, leaf := range pth.Leaves {
						if e, ok := leaf.(ast.Expr); ok && (comparesWithField(info, e, countField, token.NEQ) != token.NoPos || comparesWithField(info, e, countField, token.EQL) != token.NoPos) {
							compared = true
						}
					}
					if !compared && unchecked == "" {
						unchecked = strings.Join(pth.Taken, ", ")
						if unchecked == "" {
							unchecked = "unconditionally"
						}
					}
				}
			} else {
				r.Undecide("C18-R3: too many paths through %s", name)
			}
			if pos != token.NoPos && unchecked == "" {
				r.Pass("C18-R3-manifest-entry", name+":count", pos, "decoded record count is compared with the manifest's FileManifest.Count on every path to a success return")
			} else if pos != token.NoPos {
				r.Fail("C18-R3-manifest-entry", name+":count", pos, "a success return is reached without comparing the decoded record count with the manifest count (path: %s): a fragment with records removed or added passes that read", unchecked)
			} else {
				r.Fail("C18-R3-manifest-entry", name+":count", fd.Pos(), "the decoded record count is no longer compared with the manifest count")
			}
		}
	}
	checkScanTotals(r, p)
	checkInjectiveNaming(r, p)
	checkNumberPreservingDecode(r, p)
	checkIntegerBeforeFloat(r, p)
	checkLineLimitAgreement(r, p)
	checkNodeIDsNotNarrowed(r, "C18-R9-ids-not-narrowed", p)
	checkEndpointArgumentRoles(r, p)
	r.Floor("C18-R8-number-preserving-decode", 1)
	r.Floor("C18-R1-codec-table", 4)
	r.Floor("C18-R1-record-fields", 7)
	r.Floor("C18-R3-manifest-entry", 5)
	return meta
}

// checkScanTotals (R4): a keyset scan stops after `total` entities, so the total decides how much of the database is
// read.  When a database is dumped, verified or measured, that total must be counted from the database being scanned
// (countGraphEntitySnapshot); a total copied from the dump's manifest makes the verifier stop where the manifest says
// the graph ends, so entities the destination has beyond that are never read and "verified" is reported for graphs
// that differ.  (R5) zero is a valid entity ID (Neo4j numbers from 0): the presence of a keyset cursor is carried by
// its own boolean and never inferred from comparing a graph.ID with 0.
func checkScanTotals(r *Run, p *packages.Package) {
	info := p.TypesInfo
	cg := BuildCallGraph(r, func(path string) bool { return strings.HasSuffix(path, "/retriever") })
	oa := newOriginAnalysis(r, cg)
	oa.returnSummaries = true
	// the verifier's "actual" side: everything reachable from collectDatabaseMetrics
	verifierSide := map[*types.Func]bool{}
	if root := cg.Func(modPath + "/retriever." + roleName("collectDatabaseMetrics")); root != nil {
		for fn := range cg.Reach([]*types.Func{root}, nil) {
			verifierSide[fn] = true
		}
	} else {
		r.Undecide("C18-R4: retriever.collectDatabaseMetrics not found")
	}
	scanners := map[string]int{"scanDatabaseNodesFrom": 3, "scanDatabaseRelationshipsFrom": 3, "scanDatabaseNodesWithProgressInterval": 3, "scanDatabaseRelationshipsWithProgressInterval": 3}
	for _, f := range p.Syntax {
		for _, d := range f.Decls {
			fd, ok := d.(*ast.FuncDecl)
			if !ok || fd.Body == nil {
				continue
			}
			if _, isScanner := scanners[fd.Name.Name]; isScanner {
				continue // wrappers forward their own total parameter; judged at their callers
			}
			ast.Inspect(fd.Body, func(n ast.Node) bool {
				call, ok := n.(*ast.CallExpr)
				if !ok {
					return true
				}
				if thisFn, _ := info.Defs[fd.Name].(*types.Func); thisFn == nil || !verifierSide[thisFn] {
					return true // the dump side resumes from the snapshot recorded in its own checkpoint; only the verifier must be independent
				}
				fn := calleeOf(info, call)
				if fn == nil || fn.Pkg() != p.Types {
					return true
				}
				idx, isScanner := scanners[fn.Name()]
				if !isScanner || idx >= len(call.Args) {
					return true
				}
				// confirm the parameter really is the total
				if sig := fn.Type().(*types.Signature); sig.Params().At(idx).Name() != "total" {
					r.Undecide("C18-R4: parameter %d of %s is %s, expected total", idx, fn.Name(), sig.Params().At(idx).Name())
					return true
				}
				o := oa.originsOfExpr(p, fd, call.Args[idx], 0)
				construct := funcDeclName(fd) + ":" + fn.Name() + "(total=" + exprString(r.Fset, call.Args[idx]) + ")"
				counted := false
				var foreign []string
				for k := range o {
					if strings.HasPrefix(k, "call:") && strings.HasSuffix(k, ".countGraphEntitySnapshot") {
						counted = true
					}
					if strings.HasPrefix(k, "field:") && (strings.Contains(k, "Manifest.") || strings.Contains(k, "Checkpoint")) {
						foreign = append(foreign, strings.TrimPrefix(k, "field:"))
					}
				}
				sort.Strings(foreign)
				switch {
				case len(foreign) > 0:
					r.Fail("C18-R4-scan-total", construct, call.Pos(), "the number of entities the scan will read is taken from %s, not counted from the database being scanned: entities beyond that count are never read, so a destination that gained nodes or relationships still verifies", strings.Join(foreign, ", "))
				case counted:
					r.Pass("C18-R4-scan-total", construct, call.Pos(), "the total is counted from the scanned database (countGraphEntitySnapshot)")
				default:
					r.Fail("C18-R4-scan-total", construct, call.Pos(), "the scan total does not come from countGraphEntitySnapshot (origins %v)", sortedKeys(o))
				}
				return true
			})
			// R5: no graph.ID compared with the constant 0
			ast.Inspect(fd.Body, func(n ast.Node) bool {
				be, ok := n.(*ast.BinaryExpr)
				if !ok {
					return true
				}
				switch be.Op {
				case token.EQL, token.NEQ, token.LSS, token.GTR, token.LEQ, token.GEQ:
				default:
					return true
				}
				isID := func(e ast.Expr) bool {
					t := info.TypeOf(e)
					if t == nil {
						return false
					}
					nt := namedOf(t)
					return nt != nil && nt.Obj().Name() == "ID" && nt.Obj().Pkg() != nil && strings.HasSuffix(nt.Obj().Pkg().Path(), "/graph")
				}
				isZero := func(e ast.Expr) bool {
					tv, ok := info.Types[e]
					return ok && tv.Value != nil && tv.Value.ExactString() == "0"
				}
				var idSide, other ast.Expr
				if isID(be.X) && info.Types[be.X].Value == nil {
					idSide, other = be.X, be.Y
				} else if isID(be.Y) && info.Types[be.Y].Value == nil {
					idSide, other = be.Y, be.X
				} else {
					return true
				}
				construct := funcDeclName(fd) + ":" + exprString(r.Fset, be)
				if isZero(other) {
					r.Fail("C18-R5-zero-is-an-id", construct, be.Pos(), "%s is compared with 0 to decide something: 0 is a valid node and relationship ID (Neo4j numbers from 0), so an entity with ID 0 is treated as 'no cursor' and its page is read twice (the scan then aborts as not strictly increasing) or skipped", exprString(r.Fset, idSide))
				} else {
					r.Pass("C18-R5-zero-is-an-id", construct, be.Pos(), "ID compared with another ID")
				}
				return true
			})
		}
	}
	r.Floor("C18-R4-scan-total", 1) // the node and the relationship scan may share one generic scan call
	r.Floor("C18-R5-zero-is-an-id", 1)
}

// checkInjectiveNaming (R6/R7): two graphs of one dump are kept apart only by their directory name, and two kind sets
// only by their interned key.  (R6) graphDirectoryName maps the graph name through url.PathEscape and nothing lossy —
// no truncation (slice expression), no case folding, trimming or replacement; (R7) no map of the metrics builder is
// indexed with a key made by strings.Join, which cannot tell ["A","B"] from ["A,B"]: kind-set keys come from the
// length-prefixed canonical key function.
func checkInjectiveNaming(r *Run, p *packages.Package) {
	info := p.TypesInfo
	decls := FuncDecls(p)
	if fd := decls[roleName("graphDirectoryName")]; fd != nil && fd.Body != nil {
		lossy := ""
		pos := fd.Pos()
		ast.Inspect(fd.Body, func(n ast.Node) bool {
			switch x := n.(type) {
			case *ast.SliceExpr:
				if b, ok := info.TypeOf(x.X).Underlying().(*types.Basic); ok && b.Info()&types.IsString != 0 && lossy == "" {
					lossy, pos = "the name is truncated ("+exprString(r.Fset, x)+")", x.Pos()
				}
			case *ast.CallExpr:
				if fn := calleeOf(info, x); fn != nil && fn.Pkg() != nil && fn.Pkg().Path() == "strings" && lossy == "" {
					switch fn.Name() {
					case "ToLower", "ToUpper", "Map", "Replace", "ReplaceAll", "Trim", "TrimSpace", "TrimLeft", "TrimRight", "TrimPrefix", "TrimSuffix", "Fields", "Title", "ToValidUTF8":
						lossy, pos = "the name goes through strings."+fn.Name(), x.Pos()
					}
				}
			}
			return true
		})
		escapes := stmtHasCall(fd.Body, func(c *ast.CallExpr) bool {
			fn := calleeOf(info, c)
			return fn != nil && funcFullName(fn) == "net/url.PathEscape"
		})
		switch {
		case lossy != "":
			r.Fail("C18-R6-injective-naming", "graphDirectoryName", pos, "%s: two graph names that differ only in what is lost get the same directory, the second graph's fragments overwrite the first's, and the published manifest lists the same files for both", lossy)
		case !escapes:
			r.Fail("C18-R6-injective-naming", "graphDirectoryName", fd.Pos(), "the graph name is no longer mapped through url.PathEscape")
		default:
			r.Pass("C18-R6-injective-naming", "graphDirectoryName", fd.Pos(), "url.PathEscape of the name, nothing lossy")
		}
	} else {
		r.Undecide("C18-R6: graphDirectoryName not found")
	}
	// R7: map keys made with strings.Join
	n := 0
	// the metrics code: the methods of the metrics builder, every function with "metric" in its name, and what they reach
	var metricRoots []string
	for name := range decls {
		if strings.HasPrefix(name, "metricsBuilder.") || strings.Contains(strings.ToLower(name), "metric") {
			metricRoots = append(metricRoots, name)
		}
	}
	sort.Strings(metricRoots)
	metricDecls := declsReachableFrom(p, metricRoots...)
	for _, f := range p.Syntax {
		for _, d := range f.Decls {
			fd, ok := d.(*ast.FuncDecl)
			if !ok || fd.Body == nil || !metricDecls[fd] {
				continue
			}
			joined := map[types.Object]token.Pos{}
			isJoin := func(e ast.Expr) bool {
				call, ok := ast.Unparen(e).(*ast.CallExpr)
				if !ok {
					return false
				}
				fn := calleeOf(info, call)
				return fn != nil && funcFullName(fn) == "strings.Join"
			}
			ast.Inspect(fd.Body, func(x ast.Node) bool {
				if as, ok := x.(*ast.AssignStmt); ok && len(as.Lhs) == len(as.Rhs) {
					for i, l := range as.Lhs {
						if id, ok := l.(*ast.Ident); ok && isJoin(as.Rhs[i]) {
							if obj := info.Defs[id]; obj != nil {
								joined[obj] = as.Pos()
							} else if obj := info.Uses[id]; obj != nil {
								joined[obj] = as.Pos()
							}
						}
					}
				}
				return true
			})
			ast.Inspect(fd.Body, func(x ast.Node) bool {
				ix, ok := x.(*ast.IndexExpr)
				if !ok {
					return true
				}
				if _, isMap := info.TypeOf(ix.X).Underlying().(*types.Map); !isMap {
					return true
				}
				if b, ok := info.TypeOf(ix.Index).Underlying().(*types.Basic); !ok || b.Info()&types.IsString == 0 {
					return true
				}
				n++
				bad := isJoin(ix.Index)
				if id, ok := ast.Unparen(ix.Index).(*ast.Ident); ok {
					if _, j := joined[info.Uses[id]]; j {
						bad = true
					}
				}
				construct := funcDeclName(fd) + ":" + exprString(r.Fset, ix)
				if bad {
					r.Fail("C18-R7-injective-key", construct, ix.Pos(), "a map of the metrics builder is indexed with a strings.Join of names: the key of [\"Admin\",\"Domain\"] equals the key of [\"Admin,Domain\"], so whichever is seen second is counted under the other's kind set and the manifest's histograms no longer describe the fragments")
				} else {
					r.Pass("C18-R7-injective-key", construct, ix.Pos(), "the key is not a separator-joined list")
				}
				return true
			})
		}
	}
	if n == 0 {
		r.Undecide("C18-R7: no string-keyed map access found in the metrics code of package retriever")
	}
}

// checkWriterCells (R3, R9): the manifest entry a fragment writer hands back is made of the writer's own measuring cells,
// each in its place — the compressed size from the counter next to the file, the uncompressed size from the counter in
// front of the compressor, the digest from the hash next to the file — and the writer's line-length guard measures the
// uncompressed bytes (the reader's limit is on the decompressed line). The cells are found by their wiring (c18_roles.go).
func checkWriterCells(r *Run, p *packages.Package) {
	info := p.TypesInfo
	wr := findWriterRoles(p, "FileManifest")
	if wr.Why != "" {
		r.Undecide("C18-R3: the fragment writer's measuring cells could not be identified: %s", wr.Why)
		return
	}
	r.Extra["writer_cells"] = wr.Roles
	var closeFd, writeFd *ast.FuncDecl
	for _, f := range p.Syntax {
		for _, d := range f.Decls {
			fd, ok := d.(*ast.FuncDecl)
			if !ok || fd.Recv == nil || fd.Body == nil || namedOf(info.TypeOf(fd.Recv.List[0].Type)) != wr.Type {
				continue
			}
			if fd.Type.Results != nil && len(fd.Type.Results.List) > 0 && namedName(info.TypeOf(fd.Type.Results.List[0].Type)) == "FileManifest" {
				closeFd = fd
			}
			if stmtHasCall(fd.Body, func(c *ast.CallExpr) bool {
				sel, ok := c.Fun.(*ast.SelectorExpr)
				return ok && sel.Sel.Name == "Encode"
			}) {
				writeFd = fd
			}
		}
	}
	if closeFd == nil {
		r.Undecide("C18-R3: no method of %s returns a FileManifest", wr.Type.Obj().Name())
		return
	}
	recv := recvObj(p, closeFd)
	want := map[string]string{"CompressedBytes": "compressed", "UncompressedBytes": "uncompressed", "SHA256": "hasher"}
	got := map[string]ast.Expr{}
	ast.Inspect(closeFd.Body, func(n ast.Node) bool {
		if cl, ok := n.(*ast.CompositeLit); ok && namedName(info.TypeOf(cl)) == "FileManifest" {
			for _, el := range cl.Elts {
				if kv, ok := el.(*ast.KeyValueExpr); ok {
					if id, ok := kv.Key.(*ast.Ident); ok {
						got[id.Name] = kv.Value
					}
				}
			}
		}
		return true
	})
	for _, k := range sortedKeys(want) {
		v := got[k]
		if v == nil {
			r.Fail("C18-R3-manifest-entry", "FileManifest."+k, closeFd.Pos(), "the manifest entry the writer hands back does not set %s", k)
			continue
		}
		roles := wr.rolesRead(p, recv, v, 0)
		if len(roles) == 1 && roles[want[k]] {
			r.Pass("C18-R3-manifest-entry", "FileManifest."+k, v.Pos(), "taken from the writer's %s cell (identified by the constructor's wiring)", want[k])
		} else {
			r.Fail("C18-R3-manifest-entry", "FileManifest."+k, v.Pos(), "the manifest entry's %s is not taken from the writer's own %s cell (%q reads %v): the manifest no longer describes the file written", k, want[k], exprString(r.Fset, v), sortedKeys(roles))
		}
	}
	// Count: a field of the writer that the encoding method counts up
	if v := got["Count"]; v == nil {
		r.Fail("C18-R3-manifest-entry", "FileManifest.Count", closeFd.Pos(), "the manifest entry the writer hands back does not set Count")
	} else {
		counted := false
		if sel, ok := ast.Unparen(v).(*ast.SelectorExpr); ok && writeFd != nil {
			if fv, ok := info.Uses[sel.Sel].(*types.Var); ok && fv.IsField() {
				ast.Inspect(writeFd.Body, func(n ast.Node) bool {
					if inc, ok := n.(*ast.IncDecStmt); ok && inc.Tok == token.INC {
						if s2, ok := ast.Unparen(inc.X).(*ast.SelectorExpr); ok && info.Uses[s2.Sel] == types.Object(fv) {
							counted = true
						}
					}
					return true
				})
			}
		}
		if counted {
			r.Pass("C18-R3-manifest-entry", "FileManifest.Count", v.Pos(), "taken from the field the encoding method counts up")
		} else {
			r.Fail("C18-R3-manifest-entry", "FileManifest.Count", v.Pos(), "the manifest entry's Count (%q) is not the field the writer's encoding method counts up: the manifest no longer describes the file written", exprString(r.Fset, v))
		}
	}
	// R9: the line-length guard
	if writeFd == nil {
		r.Note("C18-R10: no encoding method found on %s", wr.Type.Obj().Name())
		return
	}
	wrecv := recvObj(p, writeFd)
	guards := 0
	ast.Inspect(writeFd.Body, func(n ast.Node) bool {
		ifs, ok := n.(*ast.IfStmt)
		if !ok || !alwaysLeaves(ifs.Body) {
			return true
		}
		be, ok := ast.Unparen(ifs.Cond).(*ast.BinaryExpr)
		if !ok || (be.Op != token.GTR && be.Op != token.GEQ) {
			return true
		}
		if tv, has := info.Types[be.Y]; !has || tv.Value == nil {
			return true
		}
		// the measured quantity: the left side, with locals replaced by what they were given
		var exprs []ast.Expr
		var expand func(e ast.Expr, depth int)
		expand = func(e ast.Expr, depth int) {
			exprs = append(exprs, e)
			if depth > 3 {
				return
			}
			ast.Inspect(e, func(m ast.Node) bool {
				if id, ok := m.(*ast.Ident); ok {
					if _, isVar := info.Uses[id].(*types.Var); isVar && info.Uses[id] != wrecv {
						if def := resolveLocalCopy(info, writeFd.Body, id); def != ast.Expr(id) {
							expand(def, depth+1)
						} else if as, ok := ifs.Init.(*ast.AssignStmt); ok && len(as.Lhs) == 1 && len(as.Rhs) == 1 {
							if l, ok := as.Lhs[0].(*ast.Ident); ok && info.Defs[l] == info.Uses[id] {
								expand(as.Rhs[0], depth+1)
							}
						}
					}
				}
				return true
			})
		}
		expand(be.X, 0)
		roles := map[string]bool{}
		for _, e := range exprs {
			for k := range wr.rolesRead(p, wrecv, e, 0) {
				roles[k] = true
			}
		}
		if len(roles) == 0 {
			return true
		}
		guards++
		if len(roles) == 1 && roles["uncompressed"] {
			r.Pass("C18-R10-line-guard", wr.Type.Obj().Name()+"."+writeFd.Name.Name, ifs.Pos(), "the line-length guard measures the bytes handed to the compressor, which is what the reader's limit applies to")
		} else {
			r.Fail("C18-R10-line-guard", wr.Type.Obj().Name()+"."+writeFd.Name.Name, ifs.Pos(), "the line-length guard measures %v bytes: the reader limits the decompressed line, so under a compressing codec a record that no reader can load is written (or a loadable one is refused)", sortedKeys(roles))
		}
		return true
	})
	if guards == 0 {
		r.Note("C18-R10: the encoding method of %s has no size guard over the measuring cells", wr.Type.Obj().Name())
	}
}
