package main

// C18 — dump then load: writer/reader table agreement and writer lifecycle (thin structural clause).

import (
	"go/ast"
	"go/token"
	"go/types"
	"strings"

	"golang.org/x/tools/go/packages"
)

func init() { register("C18", checkC18) }

// switchCaseConsts: constants listed in the case clauses of the first switch over a value of the named type.
func switchCaseConsts(p *packages.Package, fd *ast.FuncDecl, typeName string) (map[string]bool, bool) {
	out := map[string]bool{}
	hasDefaultErr := false
	found := false
	ast.Inspect(fd.Body, func(n ast.Node) bool {
		sw, ok := n.(*ast.SwitchStmt)
		if !ok || sw.Tag == nil || found {
			return true
		}
		tv, ok := p.TypesInfo.Types[sw.Tag]
		if !ok || namedName(tv.Type) != typeName {
			return true
		}
		found = true
		for _, c := range sw.Body.List {
			cc := c.(*ast.CaseClause)
			if cc.List == nil {
				for _, st := range cc.Body {
					if rs, ok := st.(*ast.ReturnStmt); ok && len(rs.Results) >= 1 && !isNilIdent(p.TypesInfo, rs.Results[len(rs.Results)-1]) {
						hasDefaultErr = true
					}
				}
			}
			for _, e := range cc.List {
				if id, ok := ast.Unparen(e).(*ast.Ident); ok {
					if c, ok := p.TypesInfo.Uses[id].(*types.Const); ok {
						out[c.Name()] = true
					}
				}
			}
		}
		return true
	})
	if !found {
		return nil, false
	}
	return out, hasDefaultErr
}

func checkC18(r *Run) propMeta {
	meta := propMeta{Level: "other",
		Explanation: "Decides a thin structural necessary condition of dump/load round-tripping: (R1) table agreement — the codec switches of the compression writer, the decompression reader, the validator and the file-extension table accept the same set and reject everything else with an error; every switch over the fragment phase handles the same phases; dump and load use the same record struct types, every field of FragmentNode/FragmentEdge is populated by the dump and read by the load path; (R2) writer lifecycle — in both phase functions the last partial shard is flushed before the success return and an open writer is aborted on error (shared with C19-R3); (R3) the manifest entry's Count, CompressedBytes, UncompressedBytes and SHA256 are taken from the writer's own counters and hasher in Close, and the loader compares count, size and digest. NOT decided: graph isomorphism, shard/batch boundary arithmetic, JSON value fidelity of properties, metrics fingerprints — all value-level.",
		Assumptions: []string{"encoding/json round-trips the record structs"},
		TrustedBase: []string{"go/types", "this analyser"}}
	if err := r.Load("./retriever/..."); err != nil {
		r.Fatal("load: %v", err)
	}
	p := r.MustPkg("retriever")
	decls := FuncDecls(p)
	info := p.TypesInfo

	// ---- R1 codec tables
	var ref map[string]bool
	refName := ""
	for _, name := range []string{"newCompressionWriter", "newDecompressionReader", "ValidateCompression", "compressionExtension"} {
		fd := decls[name]
		if fd == nil {
			r.Undecide("C18-R1: %s not found", name)
			continue
		}
		set, defErr := switchCaseConsts(p, fd, "CompressionCodec")
		if set == nil {
			r.Undecide("C18-R1: %s has no switch over the codec", name)
			continue
		}
		if ref == nil {
			ref, refName = set, name
		}
		same := strings.Join(sortedKeys(set), ",") == strings.Join(sortedKeys(ref), ",")
		if same && defErr {
			r.Pass("C18-R1-codec-table", name, fd.Pos(), "handles %v and rejects the rest", sortedKeys(set))
		} else {
			r.Fail("C18-R1-codec-table", name, fd.Pos(), "codec table %v (rejecting default: %v) differs from %s's %v: a dump written with one codec cannot be read back, or an unknown codec is silently treated as another", sortedKeys(set), defErr, refName, sortedKeys(ref))
		}
	}
	// ---- R1 phase tables
	var pref map[string]bool
	prefName := ""
	for _, name := range []string{"fragmentPath", "verifyCollectionFragments", "Manifest.validate"} {
		fd := decls[name]
		if fd == nil {
			r.Undecide("C18-R1: %s not found", name)
			continue
		}
		set, _ := switchCaseConsts(p, fd, "Phase")
		if set == nil {
			r.Undecide("C18-R1: %s has no switch over the phase", name)
			continue
		}
		if pref == nil {
			pref, prefName = set, name
		}
		if strings.Join(sortedKeys(set), ",") == strings.Join(sortedKeys(pref), ",") {
			r.Pass("C18-R1-phase-table", name, fd.Pos(), "handles phases %v", sortedKeys(set))
		} else {
			r.Fail("C18-R1-phase-table", name, fd.Pos(), "phase table %v differs from %s's %v: fragments of a phase the dump writes are skipped on load/verify", sortedKeys(set), prefName, sortedKeys(pref))
		}
	}
	// ---- R1 record types: written type == decoded type; fields populated and read
	for _, rec := range []struct{ typ, dumpFn string }{{"FragmentNode", "dumpNodePhase"}, {"FragmentEdge", "dumpEdgePhase"}} {
		tn, _ := p.Types.Scope().Lookup(rec.typ).(*types.TypeName)
		fd := decls[rec.dumpFn]
		if tn == nil || fd == nil {
			r.Undecide("C18-R1: %s / %s not found", rec.typ, rec.dumpFn)
			continue
		}
		// the value passed to fragmentWriter.Write has this type
		written := false
		var lit *ast.CompositeLit
		ast.Inspect(fd.Body, func(n ast.Node) bool {
			switch x := n.(type) {
			case *ast.CallExpr:
				if sel, ok := x.Fun.(*ast.SelectorExpr); ok && sel.Sel.Name == "Write" && len(x.Args) == 1 {
					if tv, ok := info.Types[x.Args[0]]; ok && namedOf(tv.Type) != nil && namedOf(tv.Type).Obj() == tn {
						written = true
					}
				}
			case *ast.CompositeLit:
				if tv, ok := info.Types[x]; ok && namedOf(tv.Type) != nil && namedOf(tv.Type).Obj() == tn {
					lit = x
				}
			}
			return true
		})
		if written {
			r.Pass("C18-R1-record-type", rec.dumpFn+":writes:"+rec.typ, fd.Pos(), "the dump writes %s records", rec.typ)
		} else {
			r.Fail("C18-R1-record-type", rec.dumpFn+":writes:"+rec.typ, fd.Pos(), "%s no longer writes %s records: writer and reader disagree on the record type", rec.dumpFn, rec.typ)
		}
		st := tn.Type().Underlying().(*types.Struct)
		set := map[string]bool{}
		if lit != nil {
			for _, el := range lit.Elts {
				if kv, ok := el.(*ast.KeyValueExpr); ok {
					if id, ok := kv.Key.(*ast.Ident); ok {
						set[id.Name] = true
					}
				}
			}
		}
		// load-side reads: fields selected in load.go / verify.go functions
		reads := map[*types.Var]token.Pos{}
		for _, f := range p.Syntax {
			fname := r.Fset.Position(f.Pos()).Filename
			if strings.HasSuffix(fname, "/load.go") {
				for _, d := range f.Decls {
					if d2, ok := d.(*ast.FuncDecl); ok && d2.Body != nil {
						fieldsSelectedIn(p, d2.Body, reads)
					}
				}
			}
		}
		for i := 0; i < st.NumFields(); i++ {
			f := st.Field(i)
			construct := rec.typ + "." + f.Name()
			_, readOK := reads[f]
			switch {
			case !set[f.Name()]:
				r.Fail("C18-R1-record-fields", construct, f.Pos(), "the dump never populates %s: the value is lost in every dump", construct)
			case !readOK:
				r.Fail("C18-R1-record-fields", construct, f.Pos(), "the load path never reads %s: the dumped value is dropped when loading", construct)
			default:
				r.Pass("C18-R1-record-fields", construct, f.Pos(), "populated by the dump and read by the load")
			}
		}
	}
	// ---- R2 writer lifecycle (same rule as C19-R3, reported here under C18)
	for _, phase := range []string{"dumpNodePhase", "dumpEdgePhase"} {
		fd := decls[phase]
		if fd == nil {
			continue
		}
		aborts := stmtHasCall(fd.Body, func(c *ast.CallExpr) bool {
			sel, ok := c.Fun.(*ast.SelectorExpr)
			return ok && sel.Sel.Name == "Abort"
		})
		lastFlush := false
		n := len(fd.Body.List)
		if n >= 2 {
			if ifs, ok := fd.Body.List[n-2].(*ast.IfStmt); ok {
				if as, ok := ifs.Init.(*ast.AssignStmt); ok && len(as.Rhs) == 1 {
					if c, ok := as.Rhs[0].(*ast.CallExpr); ok {
						if id, ok := c.Fun.(*ast.Ident); ok && id.Name == "flush" {
							lastFlush = true
						}
					}
				}
			}
		}
		// shard rollover: flush when Count() >= ShardSize
		rollover := false
		ast.Inspect(fd.Body, func(x ast.Node) bool {
			if ifs, ok := x.(*ast.IfStmt); ok {
				c := strings.ReplaceAll(exprString(r.Fset, ifs.Cond), " ", "")
				if strings.Contains(c, ".Count()>=") && strings.Contains(c, "ShardSize") {
					if stmtHasCall(ifs.Body, func(c2 *ast.CallExpr) bool {
						id, ok := c2.Fun.(*ast.Ident)
						return ok && id.Name == "flush"
					}) {
						rollover = true
					}
				}
			}
			return true
		})
		if aborts && lastFlush && rollover {
			r.Pass("C18-R2-writer-lifecycle", phase, fd.Pos(), "shard rollover at Count() >= ShardSize, final partial shard flushed before success, open writer aborted on error")
		} else {
			r.Fail("C18-R2-writer-lifecycle", phase, fd.Pos(), "writer lifecycle incomplete (rollover %v, final flush %v, abort on error %v): the records of the last partial shard are never written", rollover, lastFlush, aborts)
		}
	}
	// ---- R3 manifest entry from the writer's own counters; loader compares them
	if cl := decls["compressedJSONLinesWriter.Close"]; cl != nil {
		want := map[string]string{"Count": "count", "CompressedBytes": "compressedCounter", "UncompressedBytes": "uncompressedCounter", "SHA256": "hasher"}
		got := map[string]string{}
		ast.Inspect(cl.Body, func(n ast.Node) bool {
			if kv, ok := n.(*ast.KeyValueExpr); ok {
				if id, ok := kv.Key.(*ast.Ident); ok {
					got[id.Name] = exprString(r.Fset, kv.Value)
				}
			}
			return true
		})
		for _, k := range sortedKeys(want) {
			if strings.Contains(got[k], "s."+want[k]) {
				r.Pass("C18-R3-manifest-entry", "FileManifest."+k, cl.Pos(), "taken from the writer's %s", want[k])
			} else {
				r.Fail("C18-R3-manifest-entry", "FileManifest."+k, cl.Pos(), "the manifest entry's %s is not the writer's own %s (%q): the manifest no longer describes the file written", k, want[k], got[k])
			}
		}
	} else {
		r.Undecide("C18-R3: compressedJSONLinesWriter.Close not found")
	}
	if vc := decls["verifyChecksumValues"]; vc != nil {
		txt := exprString(r.Fset, vc.Body)
		if strings.Contains(txt, "expectedSHA256") && strings.Contains(txt, "expectedCompressedBytes") && strings.Count(txt, "!=") >= 2 {
			r.Pass("C18-R3-manifest-entry", "verifyChecksumValues", vc.Pos(), "digest and compressed size are both compared")
		} else {
			r.Fail("C18-R3-manifest-entry", "verifyChecksumValues", vc.Pos(), "the checksum comparison no longer covers both digest and size")
		}
	}
	for _, name := range []string{"decodeNodeFragmentFile", "decodeEdgeFragmentFile"} {
		if fd := decls[name]; fd != nil {
			txt := strings.ReplaceAll(exprString(r.Fset, fd.Body), " ", "")
			if strings.Contains(txt, "count!=fileEntry.Count") {
				r.Pass("C18-R3-manifest-entry", name+":count", fd.Pos(), "decoded record count is compared with the manifest")
			} else {
				r.Fail("C18-R3-manifest-entry", name+":count", fd.Pos(), "the decoded record count is no longer compared with the manifest count")
			}
		}
	}
	r.Floor("C18-R1-codec-table", 4)
	r.Floor("C18-R1-record-fields", 7)
	r.Floor("C18-R3-manifest-entry", 5)
	return meta
}
