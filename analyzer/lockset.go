package main

// E7 — guarded-by / lockset analysis for struct types that own a mutex.

import (
	"fmt"
	"go/ast"
	"go/token"
	"go/types"
	"sort"
	"strings"

	"golang.org/x/tools/go/packages"
)

type lockMode int

const (
	modeNone lockMode = iota
	modeR
	modeW
)

func (m lockMode) String() string { return [...]string{"none", "RLock", "Lock"}[m] }

type fieldAccess struct {
	Field *types.Var
	Write bool
	Pos   token.Pos
	Held  lockMode
	Fn    *types.Func
}

type lockedMethod struct {
	Fn       *types.Func
	Decl     *ast.FuncDecl
	Acquires lockMode // mode acquired at entry with a deferred release (none if it does not lock)
	Complex  bool     // locks in a shape the engine does not model
	Accesses []fieldAccess
	Calls    []lockedCall // calls to other methods of the same type on the same receiver
	LeakPos  token.Pos    // Lock without a deferred/paired Unlock
}

type lockedCall struct {
	Callee *types.Func
	Pos    token.Pos
	Held   lockMode
}

type LockModel struct {
	Pkg        *packages.Package
	Type       *types.Named
	Mutex      *types.Var
	RW         bool
	Methods    map[*types.Func]*lockedMethod
	Guarded    map[*types.Var]bool // fields of Type (and of satellite types) that are mutable after construction
	Satellites []*types.Named
}

func isMutexType(t types.Type) (isMutex, rw bool) {
	n := namedOf(t)
	if n == nil || n.Obj().Pkg() == nil || n.Obj().Pkg().Path() != "sync" {
		return false, false
	}
	switch n.Obj().Name() {
	case "Mutex":
		return true, false
	case "RWMutex":
		return true, true
	}
	return false, false
}

func isAtomicType(t types.Type) bool {
	n := namedOf(t)
	if n == nil || n.Obj().Pkg() == nil {
		return false
	}
	return n.Obj().Pkg().Path() == "sync/atomic"
}

var listMutators = map[string]bool{"PushFront": true, "PushBack": true, "Remove": true, "MoveToFront": true, "MoveToBack": true, "MoveBefore": true, "MoveAfter": true,
	"InsertBefore": true, "InsertAfter": true, "Init": true, "PushBackList": true, "PushFrontList": true}

// BuildLockModel analyses the methods of the named struct type that owns a mutex field.
func BuildLockModel(r *Run, p *packages.Package, typeName string, satellites ...string) *LockModel {
	tn, ok := p.Types.Scope().Lookup(typeName).(*types.TypeName)
	if !ok {
		r.Fatal("%s.%s not found", shortPkg(p.PkgPath), typeName)
	}
	named := tn.Type().(*types.Named)
	st, ok := named.Underlying().(*types.Struct)
	if !ok {
		r.Fatal("%s is not a struct", typeName)
	}
	lm := &LockModel{Pkg: p, Type: named, Methods: map[*types.Func]*lockedMethod{}, Guarded: map[*types.Var]bool{}}
	for i := 0; i < st.NumFields(); i++ {
		if is, rw := isMutexType(st.Field(i).Type()); is {
			lm.Mutex, lm.RW = st.Field(i), rw
		}
	}
	if lm.Mutex == nil {
		r.Fatal("%s has no mutex field", typeName)
	}
	owned := map[*types.Var]*types.Named{}
	for i := 0; i < st.NumFields(); i++ {
		f := st.Field(i)
		if f != lm.Mutex && !isAtomicType(f.Type()) {
			owned[f] = named
		}
	}
	for _, sname := range satellites {
		if stn, ok := p.Types.Scope().Lookup(sname).(*types.TypeName); ok {
			sn := stn.Type().(*types.Named)
			lm.Satellites = append(lm.Satellites, sn)
			if sst, ok := sn.Underlying().(*types.Struct); ok {
				for i := 0; i < sst.NumFields(); i++ {
					f := sst.Field(i)
					if !isAtomicType(f.Type()) {
						owned[f] = sn
					}
				}
			}
		}
	}
	// a struct of the same package held by value in an owned field is part of the owner's memory: its fields are owned too
	for changed := true; changed; {
		changed = false
		for f := range owned {
			n, ok := f.Type().(*types.Named)
			if !ok || n.Obj().Pkg() != p.Types {
				continue
			}
			nst, ok := n.Underlying().(*types.Struct)
			if !ok {
				continue
			}
			for i := 0; i < nst.NumFields(); i++ {
				nf := nst.Field(i)
				if is, _ := isMutexType(nf.Type()); is || isAtomicType(nf.Type()) {
					continue
				}
				if _, have := owned[nf]; !have {
					owned[nf] = n
					changed = true
				}
			}
		}
	}
	info := p.TypesInfo
	// methods
	for _, f := range p.Syntax {
		for _, d := range f.Decls {
			fd, ok := d.(*ast.FuncDecl)
			if !ok || fd.Body == nil {
				continue
			}
			fn, _ := info.Defs[fd.Name].(*types.Func)
			if fn == nil {
				continue
			}
			sig := fn.Type().(*types.Signature)
			var rn *types.Named
			if sig.Recv() != nil {
				rn = namedOf(sig.Recv().Type())
			} else if sig.Params().Len() > 0 && !fn.Exported() {
				// a private function whose first parameter is the owner is a method written as a function
				if pt, isPtr := sig.Params().At(0).Type().(*types.Pointer); isPtr {
					rn = namedOf(pt.Elem())
				}
			}
			if rn == nil || rn.Obj() != named.Obj() {
				continue
			}
			lm.Methods[fn] = lm.analyseMethod(fn, fd, owned)
		}
	}
	// which owned fields are written after construction (in any method): only those need a guard
	for _, m := range lm.Methods {
		for _, a := range m.Accesses {
			if a.Write {
				lm.Guarded[a.Field] = true
			}
		}
	}
	return lm
}

func (lm *LockModel) analyseMethod(fn *types.Func, fd *ast.FuncDecl, owned map[*types.Var]*types.Named) *lockedMethod {
	info := lm.Pkg.TypesInfo
	m := &lockedMethod{Fn: fn, Decl: fd}
	var recv types.Object
	if fd.Recv != nil {
		if len(fd.Recv.List) == 1 && len(fd.Recv.List[0].Names) == 1 {
			recv = info.Defs[fd.Recv.List[0].Names[0]]
		}
	} else if fd.Type.Params != nil && len(fd.Type.Params.List) > 0 && len(fd.Type.Params.List[0].Names) > 0 {
		recv = info.Defs[fd.Type.Params.List[0].Names[0]]
	}
	isMutexCall := func(e ast.Expr) (string, bool) {
		call, ok := ast.Unparen(e).(*ast.CallExpr)
		if !ok {
			return "", false
		}
		sel, ok := call.Fun.(*ast.SelectorExpr)
		if !ok {
			return "", false
		}
		inner, ok := ast.Unparen(sel.X).(*ast.SelectorExpr)
		if !ok {
			return "", false
		}
		if s := info.Selections[inner]; s == nil || originVar(s.Obj()) != lm.Mutex {
			return "", false
		}
		if id, ok := ast.Unparen(inner.X).(*ast.Ident); !ok || info.Uses[id] != recv {
			return "", false
		}
		return sel.Sel.Name, true
	}
	held := modeNone
	// entry idiom and straight-line tracking over top-level statements
	deferred := map[string]bool{}
	for _, st := range fd.Body.List {
		if ds, ok := st.(*ast.DeferStmt); ok {
			if name, ok := isMutexCall(ds.Call); ok {
				deferred[name] = true
			}
		}
	}
	var walkExpr func(n ast.Node, held lockMode)
	record := func(sel *ast.SelectorExpr, write bool, held lockMode) {
		if s := info.Selections[sel]; s != nil && s.Kind() == types.FieldVal {
			if v, ok := s.Obj().(*types.Var); ok {
				v = v.Origin()
				if _, isOwned := owned[v]; isOwned {
					m.Accesses = append(m.Accesses, fieldAccess{Field: v, Write: write, Pos: sel.Pos(), Held: held, Fn: fn})
				}
			}
		}
	}
	writeTargets := map[*ast.SelectorExpr]bool{}
	markWrites := func(n ast.Node) {
		ast.Inspect(n, func(x ast.Node) bool {
			switch s := x.(type) {
			case *ast.AssignStmt:
				for _, l := range s.Lhs {
					l = ast.Unparen(l)
					if ix, ok := l.(*ast.IndexExpr); ok {
						l = ast.Unparen(ix.X)
					}
					if sel, ok := l.(*ast.SelectorExpr); ok {
						writeTargets[sel] = true
					}
				}
			case *ast.IncDecStmt:
				l := ast.Unparen(s.X)
				if ix, ok := l.(*ast.IndexExpr); ok {
					l = ast.Unparen(ix.X)
				}
				if sel, ok := l.(*ast.SelectorExpr); ok {
					writeTargets[sel] = true
				}
			case *ast.CallExpr:
				if id, ok := s.Fun.(*ast.Ident); ok && (id.Name == "delete" || id.Name == "clear") && len(s.Args) >= 1 {
					if sel, ok := ast.Unparen(s.Args[0]).(*ast.SelectorExpr); ok {
						writeTargets[sel] = true
					}
				}
				if sel, ok := s.Fun.(*ast.SelectorExpr); ok && listMutators[sel.Sel.Name] {
					if inner, ok := ast.Unparen(sel.X).(*ast.SelectorExpr); ok {
						if tv, ok := info.Types[inner]; ok {
							if n := namedOf(tv.Type); n != nil && n.Obj().Pkg() != nil && n.Obj().Pkg().Path() == "container/list" {
								writeTargets[inner] = true
							}
						}
					}
				}
			case *ast.UnaryExpr:
				if s.Op == token.AND {
					if sel, ok := ast.Unparen(s.X).(*ast.SelectorExpr); ok {
						writeTargets[sel] = true
					}
				}
			}
			return true
		})
	}
	markWrites(fd.Body)
	walkExpr = func(n ast.Node, held lockMode) {
		ast.Inspect(n, func(x ast.Node) bool {
			switch e := x.(type) {
			case *ast.SelectorExpr:
				record(e, writeTargets[e], held)
			case *ast.CallExpr:
				if callee := calleeOf(info, e); callee != nil {
					// f(s, …) with f a function-form method of the owner
					if sig, ok := callee.Type().(*types.Signature); ok && sig.Recv() == nil && !callee.Exported() && sig.Params().Len() > 0 && len(e.Args) > 0 {
						if pt, isPtr := sig.Params().At(0).Type().(*types.Pointer); isPtr {
							if rn := namedOf(pt.Elem()); rn != nil && rn.Obj() == lm.Type.Obj() {
								if id, ok := ast.Unparen(e.Args[0]).(*ast.Ident); ok && info.Uses[id] == recv {
									m.Calls = append(m.Calls, lockedCall{Callee: callee.Origin(), Pos: e.Pos(), Held: held})
								}
							}
						}
					}
					if sig, ok := callee.Type().(*types.Signature); ok && sig.Recv() != nil {
						if rn := namedOf(sig.Recv().Type()); rn != nil && rn.Obj() == lm.Type.Obj() {
							if sel, ok := e.Fun.(*ast.SelectorExpr); ok {
								if id, ok := ast.Unparen(sel.X).(*ast.Ident); ok && info.Uses[id] == recv {
									m.Calls = append(m.Calls, lockedCall{Callee: callee.Origin(), Pos: e.Pos(), Held: held})
								}
							}
						}
					}
				}
			case *ast.FuncLit:
				// closures run at unknown times: accesses inside are recorded with no lock held unless the closure is
				// invoked immediately (not modelled) — conservative
				walkExprNoLock(lm, m, e.Body, info, owned, writeTargets)
				return false
			}
			return true
		})
	}
	for i, st := range fd.Body.List {
		switch s := st.(type) {
		case *ast.ExprStmt:
			if name, ok := isMutexCall(s.X); ok {
				switch name {
				case "Lock":
					held = modeW
					if i == 0 && deferred["Unlock"] {
						m.Acquires = modeW
					} else if !deferred["Unlock"] && !laterUnlock(fd.Body.List[i+1:], isMutexCall, "Unlock") {
						m.LeakPos = s.Pos()
					}
				case "RLock":
					held = modeR
					if i == 0 && deferred["RUnlock"] {
						m.Acquires = modeR
					} else if !deferred["RUnlock"] && !laterUnlock(fd.Body.List[i+1:], isMutexCall, "RUnlock") {
						m.LeakPos = s.Pos()
					}
				case "Unlock", "RUnlock":
					held = modeNone
				}
				continue
			}
		case *ast.DeferStmt:
			if _, ok := isMutexCall(s.Call); ok {
				continue
			}
		}
		// mutex operations nested inside other statements are not modelled
		nested := false
		ast.Inspect(st, func(x ast.Node) bool {
			if e, ok := x.(ast.Expr); ok {
				if _, isM := isMutexCall(e); isM {
					nested = true
				}
			}
			return true
		})
		if nested {
			m.Complex = true
		}
		walkExpr(st, held)
	}
	return m
}

func walkExprNoLock(lm *LockModel, m *lockedMethod, n ast.Node, info *types.Info, owned map[*types.Var]*types.Named, writeTargets map[*ast.SelectorExpr]bool) {
	ast.Inspect(n, func(x ast.Node) bool {
		if sel, ok := x.(*ast.SelectorExpr); ok {
			if s := info.Selections[sel]; s != nil && s.Kind() == types.FieldVal {
				if v, ok := s.Obj().(*types.Var); ok {
					v = v.Origin()
					if _, isOwned := owned[v]; isOwned {
						m.Accesses = append(m.Accesses, fieldAccess{Field: v, Write: writeTargets[sel], Pos: sel.Pos(), Held: modeNone, Fn: m.Fn})
					}
				}
			}
		}
		return true
	})
}

func laterUnlock(rest []ast.Stmt, isMutexCall func(ast.Expr) (string, bool), want string) bool {
	for _, st := range rest {
		if es, ok := st.(*ast.ExprStmt); ok {
			if name, ok := isMutexCall(es.X); ok && name == want {
				return true
			}
		}
	}
	return false
}

// Check reports the guarded-by, helper-caller, re-entrancy and lock-leak obligations.
func (lm *LockModel) Check(r *Run, prefix string) {
	tname := lm.Type.Obj().Name()
	// required mode of helper methods that do not lock: max over their own accesses and those of helpers they call
	required := map[*types.Func]lockMode{}
	var req func(fn *types.Func, seen map[*types.Func]bool) lockMode
	req = func(fn *types.Func, seen map[*types.Func]bool) lockMode {
		if v, ok := required[fn]; ok {
			return v
		}
		if seen[fn] {
			return modeNone
		}
		seen[fn] = true
		m := lm.Methods[fn]
		if m == nil {
			return modeNone
		}
		need := modeNone
		for _, a := range m.Accesses {
			if !lm.Guarded[a.Field] || a.Held != modeNone {
				continue
			}
			if a.Write {
				need = modeW
			} else if need < modeR {
				need = modeR
			}
		}
		for _, c := range m.Calls {
			if c.Held == modeNone {
				if sub := req(c.Callee, seen); sub > need {
					need = sub
				}
			}
		}
		required[fn] = need
		return need
	}
	fns := make([]*types.Func, 0, len(lm.Methods))
	for fn := range lm.Methods {
		fns = append(fns, fn)
	}
	sort.Slice(fns, func(i, j int) bool { return fns[i].Name() < fns[j].Name() })
	for _, fn := range fns {
		m := lm.Methods[fn]
		if m.Complex {
			r.Undecide("%s: %s.%s takes or releases the lock inside a nested statement; lock state not modelled", prefix, tname, fn.Name())
			continue
		}
		if m.LeakPos.IsValid() {
			r.Fail(prefix+"-lock-release", tname+"."+fn.Name(), m.LeakPos, "the mutex is locked without a deferred or following unlock: an early return leaves it held")
		} else if m.Acquires != modeNone {
			r.Pass(prefix+"-lock-release", tname+"."+fn.Name(), m.Decl.Pos(), "%s at entry with deferred release", m.Acquires)
		}
		// accesses under an insufficient mode while this method itself holds a lock
		for _, a := range m.Accesses {
			if !lm.Guarded[a.Field] {
				continue
			}
			construct := fmt.Sprintf("%s.%s:%s", tname, fn.Name(), a.Field.Name())
			if a.Held == modeW || (a.Held == modeR && !a.Write) {
				r.Pass(prefix+"-guarded-by", construct, a.Pos, "%s of %s under %s", rw(a.Write), a.Field.Name(), a.Held)
				continue
			}
			if a.Held == modeR && a.Write {
				r.Fail(prefix+"-guarded-by", construct, a.Pos, "field %s is written while only the read lock is held: concurrent readers race with this write", a.Field.Name())
				continue
			}
			// no lock held here: acceptable only in an unexported helper all of whose callers hold a sufficient lock
			if fn.Exported() || len(lm.callersOf(fn)) == 0 {
				r.Fail(prefix+"-guarded-by", construct, a.Pos, "%s of shared field %s in %s.%s without holding %s: data race with concurrent callers", rw(a.Write), a.Field.Name(), tname, fn.Name(), lm.Mutex.Name())
				continue
			}
			r.Pass(prefix+"-guarded-by", construct, a.Pos, "%s in lock-free helper; callers checked by %s-helper-callers", rw(a.Write), prefix)
		}
	}
	// helper callers
	for _, fn := range fns {
		m := lm.Methods[fn]
		need := req(fn, map[*types.Func]bool{})
		if m.Acquires != modeNone || need == modeNone {
			continue
		}
		for _, cs := range lm.callersOf(fn) {
			construct := fmt.Sprintf("%s.%s<-%s", tname, fn.Name(), cs.from.Name())
			if cs.held >= need {
				r.Pass(prefix+"-helper-callers", construct, cs.pos, "caller holds %s (needs %s)", cs.held, need)
			} else if lm.Methods[cs.from] != nil && lm.Methods[cs.from].Acquires == modeNone && !cs.from.Exported() {
				r.Pass(prefix+"-helper-callers", construct, cs.pos, "called from another lock-free helper (its callers are checked in turn)")
			} else {
				r.Fail(prefix+"-helper-callers", construct, cs.pos, "%s.%s touches guarded state and needs %s, but %s calls it holding %s", tname, fn.Name(), need, cs.from.Name(), cs.held)
			}
		}
	}
	// re-entrancy: a call made while holding the lock to a method that (transitively) acquires it
	acquires := map[*types.Func]bool{}
	var acq func(fn *types.Func, seen map[*types.Func]bool) bool
	acq = func(fn *types.Func, seen map[*types.Func]bool) bool {
		if seen[fn] {
			return false
		}
		seen[fn] = true
		m := lm.Methods[fn]
		if m == nil {
			return false
		}
		if m.Acquires != modeNone {
			return true
		}
		for _, c := range m.Calls {
			if acq(c.Callee, seen) {
				return true
			}
		}
		return false
	}
	for _, fn := range fns {
		acquires[fn] = acq(fn, map[*types.Func]bool{})
	}
	for _, fn := range fns {
		m := lm.Methods[fn]
		for _, c := range m.Calls {
			if c.Held == modeNone {
				continue
			}
			construct := fmt.Sprintf("%s.%s->%s", tname, fn.Name(), c.Callee.Name())
			if acquires[c.Callee] {
				r.Fail(prefix+"-reentrancy", construct, c.Pos, "%s calls %s while holding %s, and %s acquires the same non-reentrant mutex: self-deadlock", fn.Name(), c.Callee.Name(), c.Held, c.Callee.Name())
			} else {
				r.Pass(prefix+"-reentrancy", construct, c.Pos, "callee does not acquire the mutex")
			}
		}
	}
}

func rw(w bool) string {
	if w {
		return "write"
	}
	return "read"
}

type callerSite struct {
	from *types.Func
	pos  token.Pos
	held lockMode
}

func (lm *LockModel) callersOf(fn *types.Func) []callerSite {
	var out []callerSite
	for from, m := range lm.Methods {
		for _, c := range m.Calls {
			if c.Callee == fn {
				held := c.Held
				out = append(out, callerSite{from, c.Pos, held})
			}
		}
	}
	sort.Slice(out, func(i, j int) bool { return out[i].pos < out[j].pos })
	return out
}

var _ = strings.Contains

func originVar(o types.Object) types.Object {
	if v, ok := o.(*types.Var); ok {
		return v.Origin()
	}
	return o
}
