package main

// C11 — deep copy and complete traversal of the Cypher query model (and the SQL walker).

import (
	"fmt"
	"go/ast"
	"go/token"
	"go/types"
	"strings"

	"golang.org/x/tools/go/packages"
)

func init() { register("C11", checkC11) }

func checkC11(r *Run) propMeta {
	meta := propMeta{Level: "other",
		Explanation: "Decides, from the struct definitions themselves, the structural clause of copy/traversal correctness: (Copy) every model type with a copy() method has a case in cypher.Copy and vice versa, every Copy(x) call site with a concrete static type has a case (otherwise Copy panics), every copy() assigns every field of its type, and every reference-typed field through a fresh copy — never the original reference; the slice/map copy helpers return freshly allocated storage (or nil) on every path, never their argument; (walkers) for the effective cursor of every node type, structural mode places every child field exactly once, semantic ⊆ structural, both constructors start with the nil-node error guard; same child-coverage rule for the PostgreSQL AST walker; (Generic) on every CFG path between two visitor callbacks or a callback and the next cursor construction there is an Error() gate that returns and a Done() gate that leaves, every pop is preceded by Exit of that node and by a read of WasConsumed() after the last callback (so a consume request made in Exit cannot leak to the parent), Enter only on first visit. `any`-typed payload fields (Literal.Value, Parameter.Value) are recorded as opaque and shared by design. NOT decided: behaviour of reflect-based isNilNode on exotic kinds; user visitors.",
		Assumptions: []string{"field classes are derived from declared types: child = (pointer/slice/map of) model struct, Expression/SyntaxNode, MapLiteral, graph.Kinds; scalar = basic underlying type; payload = `any`"},
		TrustedBase: []string{"go/types", "go/cfg", "this analyser"}}
	if err := r.Load("./cypher/...", "./graph/..."); err != nil {
		r.Fatal("load: %v", err)
	}
	checkCopy(r)
	checkCypherWalkers(r)
	checkSQLWalker(r)
	checkGenericProtocol(r)
	checkParallelLists(r, r.MustPkg("cypher/models/walk"))
	checkReceiverCopies(r, r.MustPkg("graph"))
	checkOptionalListBreak(r, "C11-walk-optional-break", r.MustPkg("cypher/models/walk"))
	checkSelfAppendClone(r, "C11-copy-self-append", r.MustPkg("cypher/models/cypher"), r.MustPkg("cypher/models/pgsql"), r.MustPkg("graph"))
	checkCopySliceDepth(r, "C11-copy-slice-deep", r.MustPkg("cypher/models/cypher"))
	return meta
}

// ---- Copy ---------------------------------------------------------------------------------

func checkCopy(r *Run) {
	cp := r.MustPkg("cypher/models/cypher")
	info := cp.TypesInfo
	decls := FuncDecls(cp)
	copyFn := decls["Copy"]
	if copyFn == nil {
		r.Fatal("cypher.Copy not found")
	}
	// case types of the type switch
	caseTypes := []types.Type{}
	var sw *ast.TypeSwitchStmt
	ast.Inspect(copyFn.Body, func(n ast.Node) bool {
		if ts, ok := n.(*ast.TypeSwitchStmt); ok && sw == nil {
			sw = ts
		}
		return true
	})
	if sw == nil {
		r.Fatal("cypher.Copy has no type switch")
	}
	hasNilCase := false
	defaultPanics := false
	// the cases of Copy's own switch, and of the switch of every same-package function that a clause of it hands the
	// value to (the switch may be split over helpers that the default branch tries in turn)
	var collect func(ts *ast.TypeSwitchStmt, depth int)
	seenHelpers := map[*ast.FuncDecl]bool{copyFn: true}
	collect = func(ts *ast.TypeSwitchStmt, depth int) {
		for _, c := range ts.Body.List {
			cc := c.(*ast.CaseClause)
			if cc.List == nil {
				ast.Inspect(cc, func(n ast.Node) bool {
					if call, ok := n.(*ast.CallExpr); ok {
						if id, ok := call.Fun.(*ast.Ident); ok && id.Name == "panic" && depth == 0 {
							defaultPanics = true
						}
					}
					return true
				})
			}
			for _, te := range cc.List {
				if tv, ok := info.Types[te]; ok {
					if tv.IsNil() {
						hasNilCase = true
						continue
					}
					caseTypes = append(caseTypes, tv.Type)
				}
			}
			if depth >= 2 {
				continue
			}
			for _, st := range cc.Body {
				ast.Inspect(st, func(n ast.Node) bool {
					call, ok := n.(*ast.CallExpr)
					if !ok {
						return true
					}
					fn := calleeOf(info, call)
					if fn == nil || fn.Pkg() != cp.Types {
						return true
					}
					hd := decls[declKeyOf(fn)]
					if hd == nil || hd.Body == nil || seenHelpers[hd] || hd.Recv != nil {
						return true
					}
					seenHelpers[hd] = true
					ast.Inspect(hd.Body, func(m ast.Node) bool {
						if inner, ok := m.(*ast.TypeSwitchStmt); ok {
							collect(inner, depth+1)
							return false
						}
						return true
					})
					return true
				})
			}
		}
	}
	collect(sw, 0)
	_ = hasNilCase
	hasCase := func(t types.Type) bool {
		for _, c := range caseTypes {
			if types.Identical(c, t) {
				return true
			}
		}
		return false
	}
	r.Extra["copy_cases"] = len(caseTypes)
	r.Extra["copy_default_panics"] = defaultPanics

	// (a1) every type with a copy() method has a case in the form the method is reachable with
	copyMethods := map[*types.Named]*ast.FuncDecl{}
	for name, fd := range decls {
		if strings.HasSuffix(name, ".copy") && fd.Recv != nil {
			if fn, ok := info.Defs[fd.Name].(*types.Func); ok {
				if n := namedOf(fn.Type().(*types.Signature).Recv().Type()); n != nil {
					copyMethods[n] = fd
				}
			}
		}
	}
	for n, fd := range copyMethods {
		construct := n.Obj().Name()
		if hasCase(types.NewPointer(n)) || hasCase(n) {
			r.Pass("C11-copy-case", construct, fd.Pos(), "has a case in Copy")
		} else {
			r.Fail("C11-copy-case", construct, fd.Pos(), "type has a copy() method but no case in Copy's type switch: Copy(%s) panics with `unable to copy type`", construct)
		}
	}
	// (a2) every Copy(x)/copySlice(x) call site with a concrete static type has a case
	for _, p := range []*packages.Package{cp} {
		for _, f := range p.Syntax {
			for _, d := range f.Decls {
				fd, ok := d.(*ast.FuncDecl)
				if !ok || fd.Body == nil {
					continue
				}
				ast.Inspect(fd.Body, func(n ast.Node) bool {
					call, ok := n.(*ast.CallExpr)
					if !ok || len(call.Args) < 1 {
						return true
					}
					fn := calleeOf(p.TypesInfo, call)
					if fn == nil || fn.Pkg() != cp.Types || fn.Name() != "Copy" {
						return true
					}
					tv, ok := p.TypesInfo.Types[call.Args[0]]
					if !ok {
						return true
					}
					t := tv.Type
					if _, isTP := t.(*types.TypeParam); isTP {
						return true
					}
					construct := funcDeclName(fd) + ":Copy(" + types.TypeString(t, func(p *types.Package) string { return p.Name() }) + ")"
					if _, isIface := t.Underlying().(*types.Interface); isIface {
						r.Pass("C11-copy-callsite", construct, call.Pos(), "interface-typed argument: dynamic type decided by copy-case rule")
						return true
					}
					if hasCase(t) {
						r.Pass("C11-copy-callsite", construct, call.Pos(), "static type has a case")
					} else {
						r.Fail("C11-copy-callsite", construct, call.Pos(), "Copy is called with static type %s, which has no case in the type switch: this call always panics for non-nil values", t)
					}
					return true
				})
			}
		}
	}
	// (b),(c) per copy() method
	for n, fd := range copyMethods {
		checkCopyMethod(r, cp, n, fd)
	}
	checkCopyHelpers(r, cp)
	// (d) every copy() method of a pointer receiver allows for a nil receiver: Copy's type switch hands a typed nil
	// pointer straight to copy(), and copySlice-style helpers hand over nil elements
	for n, fd := range copyMethods {
		if fd.Recv == nil || len(fd.Recv.List) != 1 || len(fd.Recv.List[0].Names) != 1 {
			continue
		}
		if _, isPtr := fd.Recv.List[0].Type.(*ast.StarExpr); !isPtr {
			continue
		}
		if !hasCase(types.NewPointer(n)) {
			continue // helper types embedded by value never reach copy() through a nil pointer
		}
		recv := info.Defs[fd.Recv.List[0].Names[0]]
		guarded := false
		if len(fd.Body.List) > 0 {
			if ifs, ok := fd.Body.List[0].(*ast.IfStmt); ok {
				ast.Inspect(ifs.Cond, func(x ast.Node) bool {
					if be, ok := x.(*ast.BinaryExpr); ok && be.Op == token.EQL {
						if id, ok := ast.Unparen(be.X).(*ast.Ident); ok && info.Uses[id] == recv && isNilIdent(info, ast.Unparen(be.Y)) {
							guarded = true
						}
					}
					return true
				})
			}
		}
		derefs := false
		ast.Inspect(fd.Body, func(x ast.Node) bool {
			if sel, ok := x.(*ast.SelectorExpr); ok {
				if id, ok := ast.Unparen(sel.X).(*ast.Ident); ok && info.Uses[id] == recv {
					if _, isField := info.Uses[sel.Sel].(*types.Var); isField {
						derefs = true
					}
				}
			}
			return true
		})
		if guarded || !derefs {
			r.Pass("C11-copy-nil-guard", n.Obj().Name(), fd.Pos(), "copy() allows for a nil receiver")
		} else {
			r.Fail("C11-copy-nil-guard", n.Obj().Name(), fd.Pos(), "(*%s).copy dereferences its receiver without the nil guard its siblings have: Copy panics on a nil *%s (an empty slot of a list of these nodes, or a typed nil stored in an expression field) instead of copying it as nil", n.Obj().Name(), n.Obj().Name())
		}
	}
	r.Floor("C11-copy-nil-guard", 40)
	r.Floor("C11-copy-case", 50)
	r.Floor("C11-copy-field", 100)
}

func isModelRefType(t types.Type) (ref bool, payload bool) {
	switch u := t.(type) {
	case *types.Pointer:
		if b, ok := u.Elem().Underlying().(*types.Basic); ok && b != nil {
			return true, false // *int64: still a shared reference if copied directly
		}
		return true, false
	case *types.Slice, *types.Map, *types.Chan, *types.Signature:
		return true, false
	case *types.Named:
		switch u.Underlying().(type) {
		case *types.Slice, *types.Map, *types.Pointer, *types.Chan:
			return true, false
		case *types.Interface:
			return true, false
		}
		return false, false
	case *types.Alias:
		return isModelRefType(types.Unalias(t))
	case *types.Interface:
		if u.NumMethods() == 0 {
			return false, true // `any`: opaque payload
		}
		return true, false
	}
	return false, false
}

func checkCopyMethod(r *Run, cp *packages.Package, n *types.Named, fd *ast.FuncDecl) {
	info := cp.TypesInfo
	st, ok := n.Underlying().(*types.Struct)
	if !ok {
		// non-struct node types (MapLiteral): copy builds a fresh map element-wise; check that the result is fresh
		fresh := false
		ast.Inspect(fd.Body, func(m ast.Node) bool {
			if call, ok := m.(*ast.CallExpr); ok {
				if id, ok := call.Fun.(*ast.Ident); ok && id.Name == "make" {
					fresh = true
				}
				if fn := calleeOf(info, call); fn != nil && (strings.HasPrefix(fn.Name(), "New") || (fn.Pkg() == cp.Types && fn.Name() == "Copy")) {
					fresh = true // a constructor, or the package's deep Copy of the underlying container
				}
			}
			if _, ok := m.(*ast.CompositeLit); ok {
				fresh = true
			}
			return true
		})
		if fresh {
			r.Pass("C11-copy-field", n.Obj().Name()+".<value>", fd.Pos(), "non-struct node type: copy() allocates a fresh container")
		} else {
			r.Fail("C11-copy-field", n.Obj().Name()+".<value>", fd.Pos(), "copy() of non-struct node type returns without allocating a fresh container")
		}
		return
	}
	var recvObj types.Object
	if fd.Recv != nil && len(fd.Recv.List) == 1 && len(fd.Recv.List[0].Names) == 1 {
		recvObj = info.Defs[fd.Recv.List[0].Names[0]]
	}
	// collect assignments field -> value expressions
	assigned := map[*types.Var][]ast.Expr{}
	var collectLit func(cl *ast.CompositeLit, stT *types.Struct)
	collectLit = func(cl *ast.CompositeLit, stT *types.Struct) {
		for i, el := range cl.Elts {
			if kv, ok := el.(*ast.KeyValueExpr); ok {
				if k, ok := kv.Key.(*ast.Ident); ok {
					if fv, ok := info.Uses[k].(*types.Var); ok && fv.IsField() {
						assigned[fv] = append(assigned[fv], kv.Value)
						// nested struct literal for embedded struct
						if inner, ok := ast.Unparen(kv.Value).(*ast.CompositeLit); ok {
							if ist, ok := fv.Type().Underlying().(*types.Struct); ok {
								collectLit(inner, ist)
							}
						}
						// … or a same-package function whose whole body returns such a literal (a copy helper for the
						// embedded struct): its fields are judged as if the literal stood here
						if call, ok := ast.Unparen(kv.Value).(*ast.CallExpr); ok {
							if ist, ok := fv.Type().Underlying().(*types.Struct); ok {
								if fn := calleeOf(info, call); fn != nil && fn.Pkg() == cp.Types {
									// (guard clauses that hand back the zero value for a nil or empty receiver may stand in front of it)
									if hd := FuncDecls(cp)[declKeyOf(fn)]; hd != nil && hd.Body != nil && len(hd.Body.List) >= 1 {
										zeroGuardsOnly := true
										for _, st := range hd.Body.List[:len(hd.Body.List)-1] {
											ifs, isIf := st.(*ast.IfStmt)
											if !isIf || ifs.Else != nil || len(ifs.Body.List) != 1 {
												zeroGuardsOnly = false
												continue
											}
											grs, isRet := ifs.Body.List[0].(*ast.ReturnStmt)
											if !isRet || len(grs.Results) != 1 {
												zeroGuardsOnly = false
												continue
											}
											if zl, isLit := ast.Unparen(grs.Results[0]).(*ast.CompositeLit); !isLit || len(zl.Elts) != 0 {
												zeroGuardsOnly = false
											}
										}
										if rs, ok := hd.Body.List[len(hd.Body.List)-1].(*ast.ReturnStmt); ok && len(rs.Results) == 1 && zeroGuardsOnly {
											if inner, ok := ast.Unparen(rs.Results[0]).(*ast.CompositeLit); ok {
												collectLit(inner, ist)
											}
										}
									}
								}
							}
						}
					}
				}
			} else if i < stT.NumFields() {
				assigned[stT.Field(i)] = append(assigned[stT.Field(i)], el)
			}
		}
	}
	ast.Inspect(fd.Body, func(m ast.Node) bool {
		switch x := m.(type) {
		case *ast.CompositeLit:
			if tv, ok := info.Types[x]; ok {
				if nt := namedOf(tv.Type); nt != nil && nt.Obj() == n.Obj() {
					collectLit(x, st)
				}
			}
		case *ast.AssignStmt:
			if len(x.Lhs) == len(x.Rhs) {
				for i, l := range x.Lhs {
					if sel, ok := ast.Unparen(l).(*ast.SelectorExpr); ok {
						if s := info.Selections[sel]; s != nil && s.Kind() == types.FieldVal {
							// assignment to a field of a value other than the receiver
							if id, ok := ast.Unparen(sel.X).(*ast.Ident); ok && info.Uses[id] == recvObj {
								continue
							}
							if fv, ok := s.Obj().(*types.Var); ok {
								assigned[fv] = append(assigned[fv], x.Rhs[i])
							}
						}
					}
				}
			}
		}
		return true
	})
	// `copied := *s` style shallow copy assigns every field directly
	shallow := false
	ast.Inspect(fd.Body, func(m ast.Node) bool {
		if as, ok := m.(*ast.AssignStmt); ok && len(as.Rhs) == 1 {
			if star, ok := ast.Unparen(as.Rhs[0]).(*ast.StarExpr); ok {
				if id, ok := star.X.(*ast.Ident); ok && info.Uses[id] == recvObj {
					shallow = true
				}
			}
		}
		return true
	})
	var visitFields func(stT *types.Struct, prefix string)
	visitFields = func(stT *types.Struct, prefix string) {
		for i := 0; i < stT.NumFields(); i++ {
			f := stT.Field(i)
			construct := prefix + f.Name()
			vals := assigned[f]
			if ist, ok := f.Type().Underlying().(*types.Struct); ok && f.Embedded() {
				delegated := false
				for _, v := range vals {
					if call, ok := ast.Unparen(v).(*ast.CallExpr); ok {
						if fn := calleeOf(info, call); fn != nil && (fn.Name() == "copy" || fn.Name() == "Copy" || fn.Name() == "Clone") {
							delegated = true
						}
					}
				}
				if delegated {
					r.Pass("C11-copy-field", construct, fd.Pos(), "embedded struct copied through its own copy method (judged as a type of its own)")
					continue
				}
				if len(vals) == 0 && !shallow {
					r.Fail("C11-copy-field", construct, fd.Pos(), "copy() does not assign embedded struct %s: its content is lost in the copy", f.Name())
					continue
				}
				visitFields(ist, construct+".")
				continue
			}
			ref, payload := isModelRefType(f.Type())
			if len(vals) == 0 {
				if shallow {
					if ref {
						r.Fail("C11-copy-field", construct, fd.Pos(), "copy() starts from a shallow `*s` copy and never replaces reference field %s: the copy shares it with the original", f.Name())
					} else {
						r.Pass("C11-copy-field", construct, fd.Pos(), "copied by value (shallow struct copy)")
					}
					continue
				}
				r.Fail("C11-copy-field", construct, fd.Pos(), "copy() does not assign field %s: the copy silently loses it", f.Name())
				continue
			}
			bad := ""
			for _, v := range vals {
				if aliasesReceiverField(info, v, recvObj, f) {
					bad = exprString(r.Fset, v)
				}
			}
			switch {
			case payload && bad != "":
				r.Fail("C11-copy-field", construct, vals[0].Pos(), "field %s of type any is assigned from %s itself: when the value is a slice or a map (a list parameter, a literal built from a Go slice) copy and original share it, and a change to an element of one is visible in the other", f.Name(), bad)
			case payload:
				r.Pass("C11-copy-field", construct, fd.Pos(), "payload of type any: assigned through a copying call")
			case ref && bad != "":
				r.Fail("C11-copy-field", construct, vals[0].Pos(), "reference-typed field %s is assigned from %s itself: copy and original share the same %s, a later change to one is visible in the other", f.Name(), bad, f.Type())
			default:
				r.Pass("C11-copy-field", construct, fd.Pos(), "assigned%s", map[bool]string{true: " through a fresh copy", false: " by value"}[ref])
			}
		}
	}
	visitFields(st, n.Obj().Name()+".")
}

// aliasesReceiverField: v is `s.F` (the same field of the receiver), possibly parenthesised, sliced
// (s.F[:]) or converted — i.e. not passed through a copying call.
func aliasesReceiverField(info *types.Info, v ast.Expr, recv types.Object, f *types.Var) bool {
	v = ast.Unparen(v)
	switch x := v.(type) {
	case *ast.SelectorExpr:
		if s := info.Selections[x]; s != nil && s.Obj() == f {
			return true
		}
		// any other field of the receiver that is a reference is also an alias
		if s := info.Selections[x]; s != nil && s.Kind() == types.FieldVal {
			root := x.X
			for {
				if sel, ok := ast.Unparen(root).(*ast.SelectorExpr); ok {
					root = sel.X
					continue
				}
				break
			}
			if id, ok := ast.Unparen(root).(*ast.Ident); ok && info.Uses[id] == recv {
				return true
			}
		}
	case *ast.SliceExpr:
		return aliasesReceiverField(info, x.X, recv, f)
	case *ast.CallExpr:
		// type conversion T(s.F)
		if tv, ok := info.Types[x.Fun]; ok && tv.IsType() && len(x.Args) == 1 {
			return aliasesReceiverField(info, x.Args[0], recv, f)
		}
	}
	return false
}

// ---- walkers --------------------------------------------------------------------------------

type cursorCase struct {
	fn     string
	clause *ast.CaseClause
	typ    types.Type
	bound  types.Object // the type-switch variable in this clause
	// the value the switch is over (`node` in `switch typedNode := node.(type)`): inside the clause it has the clause's type
	subject types.Object
}

// dispatchChain expands a cursor constructor into the ordered list of case-bearing functions it consults.
func dispatchChain(p *packages.Package, decls map[string]*ast.FuncDecl, name string, seen map[string]bool) []string {
	if seen[name] {
		return nil
	}
	seen[name] = true
	fd := decls[name]
	if fd == nil {
		return nil
	}
	var chain []string
	hasSwitch := false
	ast.Inspect(fd.Body, func(n ast.Node) bool {
		if _, ok := n.(*ast.TypeSwitchStmt); ok {
			hasSwitch = true
		}
		return true
	})
	if hasSwitch {
		chain = append(chain, name)
	}
	// calls in source order to same-package functions taking the node and returning a cursor
	ast.Inspect(fd.Body, func(n ast.Node) bool {
		call, ok := n.(*ast.CallExpr)
		if !ok {
			return true
		}
		fn := calleeOf(p.TypesInfo, call)
		if fn == nil || fn.Pkg() != p.Types || fn.Name() == name {
			return true
		}
		sig := fn.Type().(*types.Signature)
		if sig.Results().Len() >= 1 && sig.Results().Len() <= 2 && strings.Contains(sig.Results().At(0).Type().String(), "Cursor") && len(call.Args) == 1 {
			if _, isId := call.Args[0].(*ast.Ident); isId {
				chain = append(chain, dispatchChain(p, decls, fn.Name(), seen)...)
			}
		}
		return true
	})
	return chain
}

func casesOf(p *packages.Package, fd *ast.FuncDecl, fnName string) []cursorCase {
	var out []cursorCase
	ast.Inspect(fd.Body, func(n ast.Node) bool {
		ts, ok := n.(*ast.TypeSwitchStmt)
		if !ok {
			return true
		}
		subject := typeSwitchSubject(p.TypesInfo, ts)
		for _, c := range ts.Body.List {
			cc := c.(*ast.CaseClause)
			for _, te := range cc.List {
				if tv, ok := p.TypesInfo.Types[te]; ok && !tv.IsNil() {
					out = append(out, cursorCase{fn: fnName, clause: cc, typ: tv.Type, bound: p.TypesInfo.Implicits[cc], subject: subject})
				}
			}
		}
		return false
	})
	return out
}

// effectiveCases: first matching case per type along the chain.
func effectiveCases(p *packages.Package, decls map[string]*ast.FuncDecl, chain []string) map[string]cursorCase {
	out := map[string]cursorCase{}
	for _, fn := range chain {
		for _, c := range casesOf(p, decls[fn], fn) {
			k := types.TypeString(c.typ, nil)
			if _, ok := out[k]; !ok {
				out[k] = c
			}
		}
	}
	return out
}

// fieldsPlaced: fields of the node type that the case body uses outside of pure nil/len tests, following
// same-package helper functions that receive the typed node.
func fieldsPlaced(p *packages.Package, c cursorCase, owner *types.Named) map[*types.Var]int {
	out := map[*types.Var]int{}
	var scan func(stmts []ast.Stmt, depth int)
	scan = func(stmts []ast.Stmt, depth int) {
		info := p.TypesInfo
		ignore := map[*ast.SelectorExpr]bool{}
		for _, st := range stmts {
			ast.Inspect(st, func(n ast.Node) bool {
				switch x := n.(type) {
				case *ast.IfStmt:
					ast.Inspect(x.Cond, func(m ast.Node) bool {
						if sel, ok := m.(*ast.SelectorExpr); ok {
							ignore[sel] = true
						}
						return true
					})
				case *ast.CallExpr:
					if id, ok := x.Fun.(*ast.Ident); ok && (id.Name == "len" || id.Name == "cap") {
						for _, a := range x.Args {
							ast.Inspect(a, func(m ast.Node) bool {
								if sel, ok := m.(*ast.SelectorExpr); ok {
									ignore[sel] = true
								}
								return true
							})
						}
					}
				}
				return true
			})
		}
		for _, st := range stmts {
			ast.Inspect(st, func(n ast.Node) bool {
				switch x := n.(type) {
				case *ast.CallExpr:
					if depth < 2 {
						if fn := calleeOf(info, x); fn != nil && fn.Pkg() == p.Types {
							passesNode := false
							for _, a := range x.Args {
								a = ast.Unparen(a)
								if st, ok := a.(*ast.StarExpr); ok {
									a = ast.Unparen(st.X)
								}
								if id, ok := a.(*ast.Ident); ok && c.bound != nil && info.Uses[id] == c.bound {
									passesNode = true
								}
							}
							// the switch's subject handed to a function that dispatches on its type again: inside this clause the
							// callee takes the clause for the same type (directly, or in a function it hands the value on to)
							if !passesNode && c.subject != nil {
								for ai, a := range x.Args {
									if id, ok := ast.Unparen(a).(*ast.Ident); ok && info.Uses[id] == c.subject {
										for v, n := range delegatedFields(p, fn, ai, c.typ, owner, 0) {
											out[v] += n
										}
									}
								}
							}
							if passesNode || depth > 0 {
								for _, f := range p.Syntax {
									for _, d := range f.Decls {
										if fd, ok := d.(*ast.FuncDecl); ok && info.Defs[fd.Name] == fn && fd.Body != nil && passesNode {
											scan(fd.Body.List, depth+1)
										}
									}
								}
							}
						}
					}
				case *ast.SelectorExpr:
					if ignore[x] {
						return true
					}
					if s := info.Selections[x]; s != nil {
						switch s.Kind() {
						case types.FieldVal:
							if v, ok := s.Obj().(*types.Var); ok {
								out[v]++
							}
						case types.MethodVal:
							if fn, ok := s.Obj().(*types.Func); ok {
								for _, fv := range fieldsReadByMethod(p, fn) {
									out[fv]++
								}
							}
						}
					}
				}
				return true
			})
		}
	}
	scan(c.clause.Body, 0)
	return out
}

var methodFieldCache = map[*types.Func][]*types.Var{}

func fieldsReadByMethod(p *packages.Package, fn *types.Func) []*types.Var {
	if v, ok := methodFieldCache[fn]; ok {
		return v
	}
	var out []*types.Var
	// find declaration in any loaded package
	for _, pk := range allModulePackages {
		if pk.Types != fn.Pkg() {
			continue
		}
		for _, f := range pk.Syntax {
			for _, d := range f.Decls {
				if fd, ok := d.(*ast.FuncDecl); ok && pk.TypesInfo.Defs[fd.Name] == fn && fd.Body != nil {
					set := map[*types.Var]token.Pos{}
					fieldsSelectedIn(pk, fd.Body, set)
					for v := range set {
						out = append(out, v)
					}
				}
			}
		}
	}
	methodFieldCache[fn] = out
	return out
}

var allModulePackages []*packages.Package

func setModulePackages(r *Run) {
	allModulePackages = nil
	for path, p := range r.ByPath {
		if strings.HasPrefix(path, modPath) {
			allModulePackages = append(allModulePackages, p)
		}
	}
	methodFieldCache = map[*types.Func][]*types.Var{}
}

// isChildField: declared type denotes a model child (not scalar, not payload).
func isChildField(f *types.Var, modelPkgs map[*types.Package]bool) bool {
	var is func(t types.Type, depth int) bool
	is = func(t types.Type, depth int) bool {
		if depth > 4 {
			return false
		}
		switch u := t.(type) {
		case *types.Alias:
			return is(types.Unalias(t), depth+1)
		case *types.Pointer:
			return is(u.Elem(), depth+1)
		case *types.Slice:
			return is(u.Elem(), depth+1)
		case *types.Array:
			return is(u.Elem(), depth+1)
		case *types.Map:
			return is(u.Elem(), depth+1)
		case *types.Named:
			if u.Obj().Pkg() == nil {
				return false
			}
			switch uu := u.Underlying().(type) {
			case *types.Struct:
				return modelPkgs[u.Obj().Pkg()]
			case *types.Interface:
				return modelPkgs[u.Obj().Pkg()]
			case *types.Slice, *types.Map:
				if modelPkgs[u.Obj().Pkg()] {
					return true
				}
				_ = uu
				return u.Obj().Name() == "Kinds" // graph.Kinds: kind metadata is a modelled child
			}
			return false
		}
		return false
	}
	return is(f.Type(), 0)
}

func checkCypherWalkers(r *Run) {
	setModulePackages(r)
	wp := r.MustPkg("cypher/models/walk")
	cp := r.MustPkg("cypher/models/cypher")
	decls := FuncDecls(wp)
	structChain := dispatchChain(wp, decls, walkerRoot(wp, "CypherStructural", "newCypherStructuralWalkCursor"), map[string]bool{})
	semChain := dispatchChain(wp, decls, walkerRoot(wp, "Cypher", "newCypherWalkCursor"), map[string]bool{})
	if len(structChain) < 3 || len(semChain) < 3 {
		r.Fatal("walker dispatch chains not recognised (structural %v, semantic %v)", structChain, semChain)
	}
	r.Extra["structural_chain"] = structChain
	r.Extra["semantic_chain"] = semChain
	structCases := effectiveCases(wp, decls, structChain)
	semCases := effectiveCases(wp, decls, semChain)
	modelPkgs := map[*types.Package]bool{cp.Types: true}
	exempt := r.LoadTable("c11_walker_exempt")

	// nil-root guard
	for _, name := range []string{walkerRoot(wp, "CypherStructural", "newCypherStructuralWalkCursor"), walkerRoot(wp, "Cypher", "newCypherWalkCursor"), walkerRoot(wp, "PgSQL", "newSQLWalkCursor")} {
		fd := decls[name]
		ok := false
		if fd != nil && len(fd.Body.List) > 0 {
			if ifs, isIf := fd.Body.List[0].(*ast.IfStmt); isIf {
				if call, isCall := ast.Unparen(ifs.Cond).(*ast.CallExpr); isCall {
					if fn := calleeOf(wp.TypesInfo, call); fn != nil && fn.Name() == "isNilNode" {
						for _, st := range ifs.Body.List {
							if rs, isRet := st.(*ast.ReturnStmt); isRet && len(rs.Results) == 2 {
								if id, isId := rs.Results[1].(*ast.Ident); !isId || id.Name != "nil" {
									ok = true
								}
							}
						}
					}
				}
			}
		}
		if ok {
			r.Pass("C11-walk-nil-guard", name, fd.Pos(), "first statement rejects a nil node with an error")
		} else {
			r.Fail("C11-walk-nil-guard", name, token.NoPos, "cursor constructor does not start with `if isNilNode(node) { return nil, <error> }`: nil branches are skipped or dereferenced instead of reported")
		}
	}

	// node types: every struct type of package cypher with a case in Copy or a copy() method
	cdecls := FuncDecls(cp)
	for _, nt := range structTypesOf(cp) {
		if cdecls[nt.Obj().Name()+".copy"] == nil {
			continue
		}
		name := nt.Obj().Name()
		keyPtr := types.TypeString(types.NewPointer(nt), nil)
		keyVal := types.TypeString(nt, nil)
		sc, ok := structCases[keyPtr]
		if !ok {
			sc, ok = structCases[keyVal]
		}
		if !ok {
			if reason, ex := r.InTable(exempt, "c11_walker_exempt", "nocursor|"+name); ex {
				r.Pass("C11-walk-structural-cursor", name, nt.Obj().Pos(), "exempt: %s", reason)
			} else {
				r.Fail("C11-walk-structural-cursor", name, nt.Obj().Pos(), "model type %s has no cursor in the structural walker: walking a model that contains it fails with `unable to negotiate cypher model type`", name)
			}
			continue
		}
		r.Pass("C11-walk-structural-cursor", name, sc.clause.Pos(), "cursor in %s", sc.fn)
		placed := fieldsPlaced(wp, sc, nt)
		st := nt.Underlying().(*types.Struct)
		var each func(stT *types.Struct)
		each = func(stT *types.Struct) {
			for i := 0; i < stT.NumFields(); i++ {
				f := stT.Field(i)
				if ist, ok := f.Type().Underlying().(*types.Struct); ok && f.Embedded() {
					each(ist)
					continue
				}
				if !isChildField(f, modelPkgs) {
					// a value of the model package that is not a child in the structural sense (an operator, a sort order) but
					// that the walker hands out as a node of its own: it, too, is handed out once
					if nf := namedOf(f.Type()); nf != nil && modelPkgs[nf.Obj().Pkg()] && placed[f] > 1 {
						if _, isBasic := nf.Underlying().(*types.Basic); isBasic {
							r.Fail("C11-walk-structural-child", name+"."+f.Name(), sc.clause.Pos(), "structural walker (%s) places field %s %d times: the walk reports it more than once", sc.fn, f.Name(), placed[f])
						}
					}
					continue
				}
				construct := name + "." + f.Name()
				n := placed[f]
				switch {
				case n == 1:
					r.Pass("C11-walk-structural-child", construct, sc.clause.Pos(), "placed once in Branches by %s", sc.fn)
				case n == 0:
					if reason, ex := r.InTable(exempt, "c11_walker_exempt", "struct|"+construct); ex {
						r.Pass("C11-walk-structural-child", construct, sc.clause.Pos(), "exempt: %s", reason)
					} else {
						r.Fail("C11-walk-structural-child", construct, sc.clause.Pos(), "structural walker (%s) never visits child field %s of %s", sc.fn, f.Name(), name)
					}
				default:
					r.Fail("C11-walk-structural-child", construct, sc.clause.Pos(), "structural walker (%s) places child field %s %d times: the child is visited more than once", sc.fn, f.Name(), n)
				}
			}
		}
		each(st)
		// a child placed only in the else-branch of a test on ANOTHER child field is skipped whenever that sibling is present
		for _, body := range sc.clause.Body {
			ast.Inspect(body, func(n ast.Node) bool {
				ifs, ok := n.(*ast.IfStmt)
				if !ok || ifs.Else == nil {
					return true
				}
				condFields := map[string]bool{}
				ast.Inspect(ifs.Cond, func(m ast.Node) bool {
					if sel, ok := m.(*ast.SelectorExpr); ok {
						if sl := wp.TypesInfo.Selections[sel]; sl != nil && sl.Kind() == types.FieldVal {
							if id, ok := ast.Unparen(sel.X).(*ast.Ident); ok && sc.bound != nil && wp.TypesInfo.Uses[id] == sc.bound {
								condFields[sel.Sel.Name] = true
							}
						}
					}
					return true
				})
				if len(condFields) == 0 {
					return true
				}
				ast.Inspect(ifs.Else, func(m ast.Node) bool {
					call, ok := m.(*ast.CallExpr)
					if !ok {
						return true
					}
					if sel, ok := call.Fun.(*ast.SelectorExpr); !ok || !strings.HasPrefix(sel.Sel.Name, "AddBranch") {
						return true
					}
					for _, a := range call.Args {
						ast.Inspect(a, func(k ast.Node) bool {
							if fsel, ok := k.(*ast.SelectorExpr); ok {
								if sl := wp.TypesInfo.Selections[fsel]; sl != nil && sl.Kind() == types.FieldVal {
									if id, ok := ast.Unparen(fsel.X).(*ast.Ident); ok && sc.bound != nil && wp.TypesInfo.Uses[id] == sc.bound && !condFields[fsel.Sel.Name] {
										r.Fail("C11-walk-structural-child", name+"."+fsel.Sel.Name+":exclusive", call.Pos(), "structural walker (%s) visits child field %s of %s only in the else-branch of a test on %v: when both are set (the model and Copy allow it) the child is silently skipped", sc.fn, fsel.Sel.Name, name, sortedKeys(condFields))
									}
								}
							}
							return true
						})
					}
					return true
				})
				return true
			})
		}
		// semantic ⊆ structural
		if mc, ok := semCases[keyPtr]; ok {
			sem := fieldsPlaced(wp, mc, nt)
			for f, n := range sem {
				if n > 0 && placed[f] == 0 && isChildField(f, modelPkgs) {
					r.Fail("C11-walk-semantic-subset", name+"."+f.Name(), mc.clause.Pos(), "semantic walker visits %s.%s but the structural walker does not: structural is not a superset", name, f.Name())
				} else if n > 0 && isChildField(f, modelPkgs) {
					r.Pass("C11-walk-semantic-subset", name+"."+f.Name(), mc.clause.Pos(), "also visited structurally")
				}
			}
		}
	}
	r.Floor("C11-walk-structural-cursor", 45)
	r.Floor("C11-walk-structural-child", 60)
}

// ---- SQL walker ---------------------------------------------------------------------------------

func checkSQLWalker(r *Run) {
	wp := r.MustPkg("cypher/models/walk")
	pg := r.MustPkg("cypher/models/pgsql")
	decls := FuncDecls(wp)
	chain := dispatchChain(wp, decls, walkerRoot(wp, "PgSQL", "newSQLWalkCursor"), map[string]bool{})
	if len(chain) == 0 {
		r.Fatal("newSQLWalkCursor dispatch not recognised")
	}
	cases := effectiveCases(wp, decls, chain)
	modelPkgs := map[*types.Package]bool{pg.Types: true}
	exempt := r.LoadTable("c11_walker_exempt")
	// node types: struct types of pgsql with a NodeType() method
	for _, nt := range structTypesOf(pg) {
		ms := types.NewMethodSet(types.NewPointer(nt))
		if ms.Lookup(pg.Types, "NodeType") == nil {
			continue
		}
		name := nt.Obj().Name()
		var found []cursorCase
		var labels []string
		if c, ok := cases[types.TypeString(nt, nil)]; ok {
			found = append(found, c)
			labels = append(labels, name)
		}
		if c, ok := cases[types.TypeString(types.NewPointer(nt), nil)]; ok {
			found = append(found, c)
			labels = append(labels, "*"+name)
		}
		if len(found) == 0 {
			// the walker reports (does not skip) such nodes: Generic returns the constructor's error
			r.Pass("C11-sqlwalk-cursor", name, nt.Obj().Pos(), "no cursor: walk.PgSQL returns a negotiation error for this type (reported, not skipped); the consequence for rewriters is judged under C03")
			continue
		}
		for ci, c := range found {
			label := labels[ci]
			r.Pass("C11-sqlwalk-cursor", label, c.clause.Pos(), "cursor in %s", c.fn)
			placed := fieldsPlaced(wp, c, nt)
			st := nt.Underlying().(*types.Struct)
			for i := 0; i < st.NumFields(); i++ {
				f := st.Field(i)
				if !isChildField(f, modelPkgs) {
					continue
				}
				construct := label + "." + f.Name()
				if placed[f] >= 1 {
					r.Pass("C11-sqlwalk-child", construct, c.clause.Pos(), "visited")
				} else if reason, ex := r.InTable(exempt, "c11_walker_exempt", "sql|"+name+"."+f.Name()); ex {
					r.Pass("C11-sqlwalk-child", construct, c.clause.Pos(), "exempt: %s", reason)
				} else if len(fieldIntroductions(r, f)) == 0 {
					r.Pass("C11-sqlwalk-child", construct, c.clause.Pos(), "never populated anywhere in the module")
				} else {
					r.Fail("C11-sqlwalk-child", construct, c.clause.Pos(), "walk.PgSQL never visits child field %s of %s although the translator populates it: identifiers stored there are invisible to every SQL rewriter", f.Name(), name)
				}
			}
		}
	}
	r.Floor("C11-sqlwalk-cursor", 30)
}

var _ = fmt.Sprintf

// checkCopyHelpers: the slice/map copy helpers that copy() methods delegate to must hand back fresh storage on every
// path.  Returning the argument itself — even only for an empty slice — shares the backing array: an empty slice with
// spare capacity (a list drained with [:0], or made with make(T, 0, n)) then has original and copy append into the
// same slot, and a change to one shows up in the other.
func checkCopyHelpers(r *Run, cp *packages.Package) {
	info := cp.TypesInfo
	n := 0
	for _, f := range cp.Syntax {
		for _, d := range f.Decls {
			fd, ok := d.(*ast.FuncDecl)
			if !ok || fd.Body == nil || fd.Recv != nil || fd.Type.Params == nil || fd.Type.Results == nil || len(fd.Type.Results.List) != 1 {
				continue
			}
			if !strings.HasPrefix(strings.ToLower(fd.Name.Name), "copy") || fd.Name.Name == "Copy" {
				continue
			}
			// parameters of slice or map type
			params := map[types.Object]bool{}
			for _, pl := range fd.Type.Params.List {
				for _, nm := range pl.Names {
					obj := info.Defs[nm]
					if obj == nil {
						continue
					}
					switch u := obj.Type().Underlying().(type) {
					case *types.Slice, *types.Map:
						params[obj] = true
					case *types.TypeParam:
						_ = u
					default:
						if tp, ok := obj.Type().(*types.TypeParam); ok {
							if core := coreTypeOf(tp); core != nil {
								switch core.(type) {
								case *types.Slice, *types.Map:
									params[obj] = true
								}
							}
						}
					}
					if tp, ok := obj.Type().(*types.TypeParam); ok {
						if core := coreTypeOf(tp); core != nil {
							switch core.(type) {
							case *types.Slice, *types.Map:
								params[obj] = true
							}
						}
					}
				}
			}
			if len(params) == 0 {
				continue
			}
			n++
			construct := "cypher." + fd.Name.Name
			// may `e` denote (storage of) a parameter?
			var aliases func(e ast.Expr, depth int) bool
			aliases = func(e ast.Expr, depth int) bool {
				if depth > 6 {
					return true
				}
				switch x := ast.Unparen(e).(type) {
				case *ast.Ident:
					obj := info.Uses[x]
					if params[obj] {
						return true
					}
					if _, isNil := obj.(*types.Nil); isNil || obj == nil {
						return false
					}
					// every assignment to the local
					al := false
					ast.Inspect(fd.Body, func(m ast.Node) bool {
						switch s := m.(type) {
						case *ast.AssignStmt:
							for i, l := range s.Lhs {
								if id, ok := l.(*ast.Ident); ok && (info.Defs[id] == obj || info.Uses[id] == obj) && len(s.Lhs) == len(s.Rhs) {
									if aliases(s.Rhs[i], depth+1) {
										al = true
									}
								}
							}
						case *ast.ValueSpec:
							for i, nm := range s.Names {
								if info.Defs[nm] == obj && i < len(s.Values) && aliases(s.Values[i], depth+1) {
									al = true
								}
							}
						}
						return true
					})
					return al
				case *ast.SliceExpr:
					return aliases(x.X, depth+1)
				case *ast.CallExpr:
					if id, ok := ast.Unparen(x.Fun).(*ast.Ident); ok {
						if _, isBuiltin := info.Uses[id].(*types.Builtin); isBuiltin {
							switch id.Name {
							case "make", "new":
								return false
							case "append":
								return len(x.Args) > 0 && aliases(x.Args[0], depth+1)
							}
						}
					}
					if tv, ok := info.Types[x.Fun]; ok && tv.IsType() && len(x.Args) == 1 {
						return aliases(x.Args[0], depth+1) // conversion
					}
					return false
				case *ast.CompositeLit:
					return false
				}
				return false
			}
			bad := token.NoPos
			ast.Inspect(fd.Body, func(m ast.Node) bool {
				if _, isLit := m.(*ast.FuncLit); isLit {
					return false
				}
				if ret, ok := m.(*ast.ReturnStmt); ok && len(ret.Results) == 1 && bad == token.NoPos {
					if aliases(ret.Results[0], 0) && !knownNilAt(info, fd, ret, ret.Results[0]) {
						bad = ret.Pos()
					}
				}
				return true
			})
			if bad == token.NoPos {
				r.Pass("C11-copy-helper-fresh", construct, fd.Pos(), "every return hands back storage allocated in the helper (or nil)")
			} else {
				r.Fail("C11-copy-helper-fresh", construct, bad, "%s returns its argument (or a slice of it) on some path: the copy shares the backing array with the original, so appending to an empty-but-allocated child list of one writes into the other", fd.Name.Name)
			}
		}
	}
	if n == 0 {
		r.Undecide("C11-copy-helper-fresh: no slice/map copy helper found in the cypher model package (copySlice confirmed by reading)")
	}
}

func coreTypeOf(tp *types.TypeParam) types.Type {
	iface, ok := tp.Constraint().Underlying().(*types.Interface)
	if !ok {
		return nil
	}
	var core types.Type
	for i := 0; i < iface.NumEmbeddeds(); i++ {
		switch e := iface.EmbeddedType(i).(type) {
		case *types.Union:
			for j := 0; j < e.Len(); j++ {
				core = e.Term(j).Type().Underlying()
			}
		default:
			core = e.Underlying()
		}
	}
	return core
}

// walkerRoot: the cursor constructor the exported walker hands to Generic (its third argument), whatever its private
// name; fallback is the name it has today.
func walkerRoot(wp *packages.Package, exported, fallback string) string {
	fd := FuncDecls(wp)[exported]
	if fd == nil || fd.Body == nil {
		return fallback
	}
	name := fallback
	ast.Inspect(fd.Body, func(n ast.Node) bool {
		call, ok := n.(*ast.CallExpr)
		if !ok || len(call.Args) != 3 {
			return true
		}
		if fn := calleeOf(wp.TypesInfo, call); fn == nil || fn.Name() != "Generic" {
			return true
		}
		if id, ok := ast.Unparen(call.Args[2]).(*ast.Ident); ok {
			if f, ok := wp.TypesInfo.Uses[id].(*types.Func); ok && f.Pkg() == wp.Types {
				name = f.Name()
			}
		}
		return true
	})
	return name
}

// knownNilAt: e is an identifier and a condition controlling at says `e == nil`: handing it back hands back nil, which
// shares nothing.
func knownNilAt(info *types.Info, fd *ast.FuncDecl, at ast.Node, e ast.Expr) bool {
	id, ok := ast.Unparen(e).(*ast.Ident)
	if !ok {
		return false
	}
	obj := info.Uses[id]
	var holds func(c ast.Expr, neg bool) bool
	holds = func(c ast.Expr, neg bool) bool {
		c = ast.Unparen(c)
		switch t := c.(type) {
		case *ast.UnaryExpr:
			if t.Op == token.NOT {
				return holds(t.X, !neg)
			}
		case *ast.BinaryExpr:
			if (t.Op == token.LAND && !neg) || (t.Op == token.LOR && neg) {
				return holds(t.X, neg) || holds(t.Y, neg)
			}
			op := t.Op
			if neg {
				switch op {
				case token.EQL:
					op = token.NEQ
				case token.NEQ:
					op = token.EQL
				}
			}
			if op != token.EQL {
				return false
			}
			a, b := ast.Unparen(t.X), ast.Unparen(t.Y)
			if isNilIdent(info, a) {
				a, b = b, a
			}
			aid, isID := a.(*ast.Ident)
			return isID && isNilIdent(info, b) && info.Uses[aid] == obj
		}
		return false
	}
	for _, l := range controlConds(fd.Body, at) {
		if holds(l.Expr, l.Neg) {
			return true
		}
	}
	return false
}

func typeSwitchSubject(info *types.Info, ts *ast.TypeSwitchStmt) types.Object {
	var x ast.Expr
	switch a := ts.Assign.(type) {
	case *ast.AssignStmt:
		if len(a.Rhs) == 1 {
			if ta, ok := ast.Unparen(a.Rhs[0]).(*ast.TypeAssertExpr); ok {
				x = ta.X
			}
		}
	case *ast.ExprStmt:
		if ta, ok := ast.Unparen(a.X).(*ast.TypeAssertExpr); ok {
			x = ta.X
		}
	}
	if id, ok := ast.Unparen(x).(*ast.Ident); ok {
		return info.Uses[id]
	}
	return nil
}

// delegatedFields: fn receives, as argument idx, a value whose dynamic type is typ; the fields of typ it places in a
// cursor: those of the clause for typ of its own type switch over that parameter, or of a function it hands the
// parameter on to.
func delegatedFields(p *packages.Package, fn *types.Func, idx int, typ types.Type, owner *types.Named, depth int) map[*types.Var]int {
	out := map[*types.Var]int{}
	if depth > 2 {
		return out
	}
	info := p.TypesInfo
	fd := FuncDecls(p)[declKeyOf(fn)]
	if fd == nil || fd.Body == nil {
		return out
	}
	var param types.Object
	i := 0
	if fd.Type.Params != nil {
		for _, pl := range fd.Type.Params.List {
			for _, nm := range pl.Names {
				if i == idx {
					param = info.Defs[nm]
				}
				i++
			}
		}
	}
	if param == nil {
		return out
	}
	for _, c := range casesOf(p, fd, fn.Name()) {
		if c.subject == param && types.Identical(c.typ, typ) {
			return fieldsPlaced(p, c, owner)
		}
	}
	ast.Inspect(fd.Body, func(n ast.Node) bool {
		call, ok := n.(*ast.CallExpr)
		if !ok {
			return true
		}
		callee := calleeOf(info, call)
		if callee == nil || callee.Pkg() != p.Types || callee == fn {
			return true
		}
		for ai, a := range call.Args {
			if id, ok := ast.Unparen(a).(*ast.Ident); ok && info.Uses[id] == param {
				for v, n := range delegatedFields(p, callee, ai, typ, owner, depth+1) {
					out[v] += n
				}
			}
		}
		return true
	})
	return out
}
