package main

// C13 — ID-set providers: structural rules over the two bitmap siblings and the thread-safe wrappers.

import (
	"fmt"
	"go/ast"
	"go/token"
	"go/types"
	"reflect"
	"sort"
	"strings"

	"golang.org/x/tools/go/packages"
)

func init() { register("C13", checkC13) }

var roaringMutators = map[string]bool{"Add": true, "AddMany": true, "AddInt": true, "AddRange": true, "Remove": true, "RemoveRange": true, "CheckedAdd": true, "CheckedRemove": true,
	"Clear": true, "And": true, "Or": true, "Xor": true, "AndNot": true, "Flip": true, "FlipInt": true, "AndAny": true, "RunOptimize": false}

// native operation that must implement each provider method
var nativeOp = map[string]string{"Clear": "Clear", "Contains": "Contains", "CheckedAdd": "CheckedAdd", "Add": "AddMany", "Remove": "Remove",
	"Xor": "Xor", "And": "And", "Or": "Or", "AndNot": "AndNot", "Cardinality": "GetCardinality", "Clone": "Clone", "Slice": "ToArray"}

func checkC13(r *Run) propMeta {
	meta := propMeta{Level: "other",
		Explanation: "Decides structural necessary conditions of exact set algebra across implementation pairings: (R1) no provider method mutates the receiver's storage inside an iteration over that same storage (roaring iterators are invalidated by mutation, which silently skips elements); (R2) each method's native branch calls the roaring operation of the same meaning on the receiver's bitmap with the operand's bitmap, the element-wise fallback of And removes exactly the elements the operand does NOT contain and AndNot exactly those it DOES contain, Or adds the operand's elements, and the 32- and 64-bit siblings have identical method sets and branch shapes; (R3) the thread-safe wrappers implement every interface method as lock; defer unlock; delegate the same method with the same arguments and return its result, and Clone wraps a clone with a new mutex; the delegate is touched nowhere without the lock; (R4) Clone builds on bitmap.Clone(). NOT decided: exactness of roaring's own operations, container-boundary values, deadlock between two wrappers used as each other's operand (informational).",
		Assumptions: []string{"roaring native operations are exact and their iterators must not observe concurrent mutation (library contract)", "sync.Mutex semantics"},
		TrustedBase: []string{"go/types", "this analyser"}}
	if err := r.Load("./cardinality/..."); err != nil {
		r.Fatal("load: %v", err)
	}
	p := r.MustPkg("cardinality")
	assertionHelperType = pureAssertionHelper(FuncDecls(p), p.Types)
	defer func() { assertionHelperType = nil }()
	checkStopOnFalse(r, p)
	sibs := []string{"bitmap32", "bitmap64"}
	shapes := map[string]map[string]string{}
	for _, tname := range sibs {
		shapes[tname] = checkBitmapType(r, p, tname)
	}
	// sibling agreement
	a, b := shapes[sibs[0]], shapes[sibs[1]]
	names := map[string]bool{}
	for k := range a {
		names[k] = true
	}
	for k := range b {
		names[k] = true
	}
	for _, m := range sortedKeys(names) {
		if !ast.IsExported(m) {
			continue // private helpers are read as part of the methods that call them
		}
		construct := "bitmap32/bitmap64." + m
		switch {
		case a[m] == "" || b[m] == "":
			r.Fail("C13-R2-sibling-agreement", construct, token.NoPos, "method %s exists on only one of the two bitmap siblings", m)
		case normShape(m, a[m]) != normShape(m, b[m]):
			r.Fail("C13-R2-sibling-agreement", construct, token.NoPos, "the siblings implement %s with different shapes: bitmap32 %s vs bitmap64 %s", m, a[m], b[m])
		default:
			r.Pass("C13-R2-sibling-agreement", construct, token.NoPos, "same shape: %s", a[m])
		}
	}
	checkWidenBeforeArithmetic(r, p)
	checkWrapper(r, p, "threadSafeDuplex", "Duplex", "ThreadSafeDuplex")
	checkWrapper(r, p, "threadSafeSimplex", "Simplex", "ThreadSafeSimplex")
	checkValueReceiverWrites(r, p)
	checkNoPackageState(r, p, "C13-R7-no-package-state", "the ID-set implementation", "an operation that leaves a scratch bitmap dirty (an early return before it is cleared) hands its contents to whichever operation takes it next, on any set", "bitmap32", "bitmap64", "threadSafeDuplex")
	r.Floor("C13-R6-operand-under-lock", 4)
	r.Floor("C13-R1-self-iteration", 4)
	r.Floor("C13-R2-native-op", 16)
	r.Floor("C13-R3-wrapper", 15)
	return meta
}

func methodsOfType(p *packages.Package, tname string) map[string]*ast.FuncDecl {
	out := map[string]*ast.FuncDecl{}
	for _, f := range p.Syntax {
		for _, d := range f.Decls {
			if fd, ok := d.(*ast.FuncDecl); ok && fd.Recv != nil && fd.Body != nil && recvTypeName(fd.Recv.List[0].Type) == tname {
				out[fd.Name.Name] = fd
			}
		}
	}
	return out
}

func recvObj(p *packages.Package, fd *ast.FuncDecl) types.Object {
	if fd.Recv != nil && len(fd.Recv.List) == 1 && len(fd.Recv.List[0].Names) == 1 {
		return p.TypesInfo.Defs[fd.Recv.List[0].Names[0]]
	}
	return nil
}

// checkBitmapType returns a shape string per method for sibling comparison.
func checkBitmapType(r *Run, p *packages.Package, tname string) map[string]string {
	info := p.TypesInfo
	methods := methodsOfType(p, tname)
	if len(methods) == 0 {
		r.Fatal("cardinality.%s has no methods", tname)
	}
	tn, _ := p.Types.Scope().Lookup(tname).(*types.TypeName)
	var bitmapField *types.Var
	if st, ok := tn.Type().Underlying().(*types.Struct); ok {
		for i := 0; i < st.NumFields(); i++ {
			if n := namedOf(st.Field(i).Type()); n != nil && n.Obj().Name() == "Bitmap" {
				bitmapField = st.Field(i)
			}
		}
	}
	if bitmapField == nil {
		r.Fatal("%s has no roaring bitmap field", tname)
	}
	onOwnBitmap := func(fd *ast.FuncDecl, e ast.Expr) bool {
		sel, ok := ast.Unparen(e).(*ast.SelectorExpr)
		if !ok {
			return false
		}
		s := info.Selections[sel]
		if s == nil || s.Obj() != bitmapField {
			return false
		}
		id, ok := ast.Unparen(sel.X).(*ast.Ident)
		return ok && info.Uses[id] == recvObj(p, fd)
	}
	// mutating methods of the type: call a roaring mutator on the own bitmap (directly)
	mutating := map[string]bool{}
	for name, fd := range methods {
		ast.Inspect(fd.Body, func(n ast.Node) bool {
			if call, ok := n.(*ast.CallExpr); ok {
				if sel, ok := call.Fun.(*ast.SelectorExpr); ok && roaringMutators[sel.Sel.Name] && onOwnBitmap(fd, sel.X) {
					mutating[name] = true
				}
			}
			return true
		})
	}
	// iterating methods: methods that hand the receiver's values to a function parameter, one call per value — the
	// parameter is called inside a loop, or handed on to another iterating method of the same receiver
	iterating := map[string]bool{}
	for changed := true; changed; {
		changed = false
		for name, fd := range methods {
			if iterating[name] || fd.Type.Params == nil {
				continue
			}
			var fparams []types.Object
			for _, pl := range fd.Type.Params.List {
				for _, nm := range pl.Names {
					if o := info.Defs[nm]; o != nil {
						if _, isFunc := o.Type().Underlying().(*types.Signature); isFunc {
							fparams = append(fparams, o)
						}
					}
				}
			}
			if len(fparams) == 0 {
				continue
			}
			isParam := func(e ast.Expr) bool {
				id, ok := ast.Unparen(e).(*ast.Ident)
				if !ok {
					return false
				}
				for _, o := range fparams {
					if info.Uses[id] == o {
						return true
					}
				}
				return false
			}
			orecv := recvObj(p, fd)
			var visit func(n ast.Node, inLoop bool)
			visit = func(n ast.Node, inLoop bool) {
				ast.Inspect(n, func(m ast.Node) bool {
					switch x := m.(type) {
					case *ast.ForStmt:
						if m != n {
							visit(x.Body, true)
							return false
						}
					case *ast.RangeStmt:
						if m != n {
							visit(x.Body, true)
							return false
						}
					case *ast.CallExpr:
						if inLoop && isParam(x.Fun) {
							iterating[name] = true
						}
						if sel, ok := x.Fun.(*ast.SelectorExpr); ok && iterating[sel.Sel.Name] {
							if id, ok := ast.Unparen(sel.X).(*ast.Ident); ok && info.Uses[id] == orecv {
								for _, a := range x.Args {
									if isParam(a) {
										iterating[name] = true
									}
								}
							}
						}
					}
					return true
				})
			}
			visit(fd.Body, false)
			if iterating[name] {
				changed = true
			}
		}
	}
	shapes := map[string]string{}
	for _, name := range sortedKeys(methods) {
		fd := methods[name]
		recv := recvObj(p, fd)
		var shape []string
		// ---- R1: closures passed to the receiver's own Each / loops over the own iterator
		// (an unexported helper method called on the receiver is read as part of the method that calls it)
		type selfIter struct {
			body  ast.Node
			owner *ast.FuncDecl
		}
		var selfIterBodies []selfIter
		var collect func(owner *ast.FuncDecl, depth int)
		collect = func(owner *ast.FuncDecl, depth int) {
			orecv := recvObj(p, owner)
			ast.Inspect(owner.Body, func(n ast.Node) bool {
				switch x := n.(type) {
				case *ast.CallExpr:
					if sel, ok := x.Fun.(*ast.SelectorExpr); ok {
						if id, ok := ast.Unparen(sel.X).(*ast.Ident); ok && info.Uses[id] == orecv {
							if sel.Sel.Name == "Each" || iterating[sel.Sel.Name] {
								for _, a := range x.Args {
									if fl, ok := a.(*ast.FuncLit); ok {
										selfIterBodies = append(selfIterBodies, selfIter{fl.Body, owner})
									}
								}
							}
							if hd := methods[sel.Sel.Name]; hd != nil && hd != owner && !ast.IsExported(sel.Sel.Name) && depth < 2 {
								collect(hd, depth+1)
							}
						}
					}
				case *ast.ForStmt:
					// for itr := s.bitmap.Iterator(); itr.HasNext(); { ... }
					matched := false
					if as, ok := x.Init.(*ast.AssignStmt); ok && len(as.Rhs) == 1 {
						if call, ok := as.Rhs[0].(*ast.CallExpr); ok {
							if sel, ok := call.Fun.(*ast.SelectorExpr); ok && strings.Contains(sel.Sel.Name, "Iterator") && onOwnBitmap(owner, sel.X) {
								selfIterBodies = append(selfIterBodies, selfIter{x.Body, owner})
								matched = true
							}
						}
					}
					// the iterator is a local declared before the loop that drives it
					if !matched {
						for obj := range ownIteratorLocals(info, owner, onOwnBitmap) {
							uses := false
							for _, part := range []ast.Node{x.Init, x.Cond, x.Post} {
								if part == nil || reflect.ValueOf(part).IsNil() {
									continue
								}
								ast.Inspect(part, func(m ast.Node) bool {
									if id, ok := m.(*ast.Ident); ok && info.Uses[id] == obj {
										uses = true
									}
									return true
								})
							}
							if uses {
								selfIterBodies = append(selfIterBodies, selfIter{x.Body, owner})
							}
						}
					}
				}
				return true
			})
		}
		if ast.IsExported(name) {
			collect(fd, 0)
		}
		for i, si := range selfIterBodies {
			body := si.body
			orecv := recvObj(p, si.owner)
			bad := ""
			var badPos token.Pos
			ast.Inspect(body, func(n ast.Node) bool {
				call, ok := n.(*ast.CallExpr)
				if !ok {
					return true
				}
				sel, ok := call.Fun.(*ast.SelectorExpr)
				if !ok {
					return true
				}
				if id, ok := ast.Unparen(sel.X).(*ast.Ident); ok && info.Uses[id] == orecv && mutating[sel.Sel.Name] {
					bad, badPos = "s."+sel.Sel.Name, call.Pos()
				}
				if roaringMutators[sel.Sel.Name] && onOwnBitmap(si.owner, sel.X) {
					bad, badPos = "s.bitmap."+sel.Sel.Name, call.Pos()
				}
				return true
			})
			construct := fmt.Sprintf("%s.%s:self-iteration#%d", tname, name, i+1)
			if bad == "" {
				r.Pass("C13-R1-self-iteration", construct, body.Pos(), "the receiver's storage is not mutated while it is being iterated")
			} else {
				r.Fail("C13-R1-self-iteration", construct, badPos, "%s mutates the receiver's bitmap inside an iteration over that same bitmap: the roaring iterator is invalidated and elements are skipped (wrong set result)", bad)
			}
		}
		// ---- R2: native op and fallback predicate
		branches, exclusive, hasDispatch := typeBranchesOf(info, fd.Body.List)
		want, hasWant := nativeOp[name]
		if !hasDispatch {
			// simple delegation: must call the expected native op on the own bitmap
			if hasWant {
				got := ""
				ast.Inspect(fd.Body, func(n ast.Node) bool {
					if call, ok := n.(*ast.CallExpr); ok {
						if sel, ok := call.Fun.(*ast.SelectorExpr); ok && onOwnBitmap(fd, sel.X) {
							got = sel.Sel.Name
						}
					}
					return true
				})
				construct := tname + "." + name
				if got == want {
					r.Pass("C13-R2-native-op", construct, fd.Pos(), "delegates to bitmap.%s", got)
				} else {
					r.Fail("C13-R2-native-op", construct, fd.Pos(), "%s.%s must be implemented by bitmap.%s but calls bitmap.%s", tname, name, want, got)
				}
				shape = append(shape, "native:"+got)
				// the operand of the native call, when it comes from a helper of the package that turns any operand
				// into a bitmap: that helper decides what an operand of another implementation contributes
				if hd := operandHelperOf(p, fd, onOwnBitmap); hd != nil {
					good, why := operandHelperVerdict(r, p, hd, tname, bitmapField)
					if good {
						r.Pass("C13-R2-fallback", construct+":fallback", fd.Pos(), "copy-then-native (%s)", why)
					} else {
						r.Fail("C13-R2-fallback", construct+":fallback", hd.Pos(), "%s runs bitmap.%s against what %s returns for the operand, and that is not the operand's set: %s", name, got, hd.Name.Name, why)
					}
					shape = append(shape, "fallback:copy-then-native")
				}
			}
		} else {
			if !exclusive {
				r.Fail("C13-R2-native-op", tname+"."+name+":native", fd.Pos(), "the same-type branch of %s does not leave, so the element-wise fallback runs as well for an operand of the same type: the operation is applied twice", name)
			}
			for _, br := range branches {
				caseName := namedName(br.Type)
				if caseName == tname {
					// native branch: s.bitmap.<want>(typed.bitmap)
					got, argOK := "", false
					for _, st := range br.Body {
						ast.Inspect(st, func(n ast.Node) bool {
							if call, ok := n.(*ast.CallExpr); ok {
								if sel, ok := call.Fun.(*ast.SelectorExpr); ok && onOwnBitmap(fd, sel.X) {
									got = sel.Sel.Name
									if len(call.Args) == 1 {
										if as, ok := ast.Unparen(call.Args[0]).(*ast.SelectorExpr); ok {
											if s := info.Selections[as]; s != nil && s.Obj() == bitmapField {
												if id, ok := ast.Unparen(as.X).(*ast.Ident); ok && info.Uses[id] == br.Operand {
													argOK = true
												}
											}
										}
									}
								}
							}
							return true
						})
					}
					construct := tname + "." + name + ":native"
					if !exclusive {
						// already reported above
					} else if got == want && argOK {
						r.Pass("C13-R2-native-op", construct, br.Pos, "bitmap.%s(operand.bitmap)", got)
					} else {
						r.Fail("C13-R2-native-op", construct, br.Pos, "the same-type branch of %s must call bitmap.%s on the operand's bitmap but calls bitmap.%s (operand bitmap passed: %v)", name, want, got, argOK)
					}
					shape = append(shape, "native:"+got)
				} else if strings.HasPrefix(caseName, "Duplex") {
					kind, detail, pos := fallbackKind(p, methods, br, recv)
					construct := tname + "." + name + ":fallback"
					expected := map[string]string{"And": "remove-if-not-contained", "AndNot": "remove-if-contained", "Or": "add-each-of-operand", "Xor": "copy-then-native-xor"}[name]
					if kind == expected {
						r.Pass("C13-R2-fallback", construct, br.Pos, "%s (%s)", kind, detail)
					} else {
						r.Fail("C13-R2-fallback", construct, pos, "the element-wise fallback of %s must be %s but is %s (%s)", name, expected, kind, detail)
					}
					shape = append(shape, "fallback:"+kind)
				}
			}
		}
		shapes[name] = "(" + strings.Join(shape, ",") + ")"
	}
	// R4 clone independence
	if cl := methods["Clone"]; cl != nil {
		ok := false
		ast.Inspect(cl.Body, func(n ast.Node) bool {
			if kv, isKV := n.(*ast.KeyValueExpr); isKV {
				if call, isCall := kv.Value.(*ast.CallExpr); isCall {
					if sel, isSel := call.Fun.(*ast.SelectorExpr); isSel && sel.Sel.Name == "Clone" && onOwnBitmap(cl, sel.X) {
						ok = true
					}
				}
			}
			return true
		})
		if ok {
			r.Pass("C13-R4-clone", tname+".Clone", cl.Pos(), "the clone owns bitmap.Clone()")
		} else {
			r.Fail("C13-R4-clone", tname+".Clone", cl.Pos(), "Clone does not build the copy from bitmap.Clone(): original and clone share storage")
		}
	}
	return shapes
}

// fallbackKind classifies the element-wise fallback branch. Helper methods of the same type that the branch calls on
// the receiver with the operand as an argument are read as part of the branch (the operand and constant boolean
// arguments are followed into their parameters).
func fallbackKind(p *packages.Package, methods map[string]*ast.FuncDecl, br typeBranch, recv types.Object) (kind, detail string, pos token.Pos) {
	info := p.TypesInfo
	pos = br.Pos
	// find `operand.Contains(x)` occurrences and their polarity inside an if condition guarding a removal/collection
	var polarity []string
	addsEach, nativeXor := false, false
	var scan func(stmts []ast.Stmt, operand, recv types.Object, consts map[types.Object]bool, depth int, top bool)
	scan = func(stmts []ast.Stmt, operand, recv types.Object, consts map[types.Object]bool, depth int, top bool) {
		// containsTest: is e `operand.Contains(v)`?
		containsTest := func(e ast.Expr) bool {
			call, ok := ast.Unparen(e).(*ast.CallExpr)
			if !ok {
				return false
			}
			sel, ok := call.Fun.(*ast.SelectorExpr)
			if !ok || sel.Sel.Name != "Contains" {
				return false
			}
			id, ok := ast.Unparen(sel.X).(*ast.Ident)
			return ok && info.Uses[id] == operand
		}
		boolConst := func(e ast.Expr) (bool, bool) {
			if tv, ok := info.Types[e]; ok && tv.Value != nil {
				switch tv.Value.ExactString() {
				case "true":
					return true, true
				case "false":
					return false, true
				}
			}
			if id, ok := ast.Unparen(e).(*ast.Ident); ok {
				if v, ok := consts[info.Uses[id]]; ok {
					return v, true
				}
			}
			return false, false
		}
		// locals of the scanned statements that are defined once (`found := operand.Contains(v)`, also in an if's init)
		localDef := map[types.Object]ast.Expr{}
		localWrites := map[types.Object]int{}
		for _, st := range stmts {
			ast.Inspect(st, func(n ast.Node) bool {
				if as, ok := n.(*ast.AssignStmt); ok && len(as.Lhs) == len(as.Rhs) {
					for i, l := range as.Lhs {
						if id, ok := l.(*ast.Ident); ok {
							o := info.Defs[id]
							if o == nil {
								o = info.Uses[id]
							}
							if o != nil {
								localWrites[o]++
								localDef[o] = as.Rhs[i]
							}
						}
					}
				}
				return true
			})
		}
		// membership(cond): +1 the condition holds exactly when the operand contains the value, -1 exactly when it does not
		var membership func(e ast.Expr) int
		membership = func(e ast.Expr) int {
			e = ast.Unparen(e)
			if containsTest(e) {
				return 1
			}
			switch x := e.(type) {
			case *ast.Ident:
				if o := info.Uses[x]; o != nil && localWrites[o] == 1 {
					return membership(localDef[o])
				}
			case *ast.UnaryExpr:
				if x.Op == token.NOT {
					return -membership(x.X)
				}
			case *ast.BinaryExpr:
				if x.Op == token.EQL || x.Op == token.NEQ {
					for _, pair := range [][2]ast.Expr{{x.X, x.Y}, {x.Y, x.X}} {
						if m := membership(pair[0]); m != 0 {
							if b, ok := boolConst(pair[1]); ok {
								if b != (x.Op == token.EQL) {
									m = -m
								}
								return m
							}
						}
					}
				}
			}
			return 0
		}
		for _, st := range stmts {
			ast.Inspect(st, func(n ast.Node) bool {
				switch x := n.(type) {
				case *ast.IfStmt:
					if m := membership(x.Cond); m != 0 {
						// body must remove (directly or by collecting for removal)
						removes := false
						ast.Inspect(x.Body, func(m ast.Node) bool {
							if c2, ok := m.(*ast.CallExpr); ok {
								if s2, ok := c2.Fun.(*ast.SelectorExpr); ok && (s2.Sel.Name == "Remove" || s2.Sel.Name == "Add" || s2.Sel.Name == "AddMany") {
									removes = true
								}
								if id2, ok := c2.Fun.(*ast.Ident); ok && id2.Name == "append" {
									removes = true
								}
							}
							return true
						})
						if removes {
							if m < 0 {
								polarity = append(polarity, "remove-if-not-contained")
							} else {
								polarity = append(polarity, "remove-if-contained")
							}
							if top {
								pos = x.Pos()
							}
						}
					}
				case *ast.CallExpr:
					// a package-level helper handed the operand
					if fid, ok := ast.Unparen(x.Fun).(*ast.Ident); ok && depth < 2 {
						if callee := calleeOf(info, x); callee != nil && callee.Pkg() == p.Types {
							if hd := FuncDecls(p)[callee.Name()]; hd != nil && hd.Recv == nil && hd.Body != nil && hd.Type.Params != nil {
								_ = fid
								var params []types.Object
								for _, pl := range hd.Type.Params.List {
									for _, nm := range pl.Names {
										params = append(params, info.Defs[nm])
									}
								}
								var innerOperand types.Object
								innerConsts := map[types.Object]bool{}
								for i, a := range x.Args {
									if i >= len(params) {
										break
									}
									if aid, ok := ast.Unparen(a).(*ast.Ident); ok && info.Uses[aid] == operand {
										innerOperand = params[i]
									} else if b, ok := boolConst(a); ok {
										innerConsts[params[i]] = b
									}
								}
								if innerOperand != nil {
									scan(hd.Body.List, innerOperand, nil, innerConsts, depth+1, false)
								}
							}
						}
					}
					if sel, ok := x.Fun.(*ast.SelectorExpr); ok {
						if sel.Sel.Name == "Each" {
							if id, ok := ast.Unparen(sel.X).(*ast.Ident); ok && info.Uses[id] == operand {
								// iterating the operand: what does the callback do?
								for _, a := range x.Args {
									if fl, ok := a.(*ast.FuncLit); ok {
										ast.Inspect(fl.Body, func(m ast.Node) bool {
											if c2, ok := m.(*ast.CallExpr); ok {
												if s2, ok := c2.Fun.(*ast.SelectorExpr); ok && s2.Sel.Name == "Add" {
													if id2, ok := ast.Unparen(s2.X).(*ast.Ident); ok && info.Uses[id2] == recv {
														addsEach = true
													}
												}
											}
											return true
										})
									}
								}
							}
						}
						if sel.Sel.Name == "Xor" {
							nativeXor = true
						}
						// a helper method of the receiver that is handed a predicate over the values — the operand's
						// Contains itself, or a function literal that returns it (negated or not) — and removes the
						// receiver's values the predicate selects
						if id, ok := ast.Unparen(sel.X).(*ast.Ident); ok && info.Uses[id] == recv && len(x.Args) == 1 {
							if hd := methods[sel.Sel.Name]; hd != nil && removesWherePredicate(p, hd) {
								m := 0
								switch a := ast.Unparen(x.Args[0]).(type) {
								case *ast.SelectorExpr:
									if aid, ok := ast.Unparen(a.X).(*ast.Ident); ok && info.Uses[aid] == operand && a.Sel.Name == "Contains" {
										m = 1
									}
								case *ast.FuncLit:
									if len(a.Body.List) == 1 {
										if rs, ok := a.Body.List[0].(*ast.ReturnStmt); ok && len(rs.Results) == 1 {
											m = membership(rs.Results[0])
										}
									}
								}
								if m != 0 {
									if m < 0 {
										polarity = append(polarity, "remove-if-not-contained")
									} else {
										polarity = append(polarity, "remove-if-contained")
									}
									if top {
										pos = x.Pos()
									}
								}
							}
						}
						// own.AndNot(recv.selectValues(pred)): a helper method of the receiver that returns, as a fresh bitmap, the
						// receiver's values a predicate selects, handed to the native AndNot (drop the selected) or And (keep them)
						if (sel.Sel.Name == "AndNot" || sel.Sel.Name == "And") && len(x.Args) == 1 {
							if root := rootIdent(sel.X); root != nil && info.Uses[root] == recv {
								if inner, ok := ast.Unparen(x.Args[0]).(*ast.CallExpr); ok && len(inner.Args) == 1 {
									if isel, ok := ast.Unparen(inner.Fun).(*ast.SelectorExpr); ok {
										if iid, ok := ast.Unparen(isel.X).(*ast.Ident); ok && info.Uses[iid] == recv {
											if hd := methods[isel.Sel.Name]; hd != nil && selectsWherePredicate(p, hd) {
												m := 0
												switch a := ast.Unparen(inner.Args[0]).(type) {
												case *ast.SelectorExpr:
													if aid, ok := ast.Unparen(a.X).(*ast.Ident); ok && info.Uses[aid] == operand && a.Sel.Name == "Contains" {
														m = 1
													}
												case *ast.FuncLit:
													if len(a.Body.List) == 1 {
														if rs, ok := a.Body.List[0].(*ast.ReturnStmt); ok && len(rs.Results) == 1 {
															m = membership(rs.Results[0])
														}
													}
												}
												if sel.Sel.Name == "And" {
													m = -m
												}
												if m != 0 {
													if m < 0 {
														polarity = append(polarity, "remove-if-not-contained")
													} else {
														polarity = append(polarity, "remove-if-contained")
													}
													if top {
														pos = x.Pos()
													}
												}
											}
										}
									}
								}
							}
						}
						// a helper method called on the receiver with the operand among its arguments
						if id, ok := ast.Unparen(sel.X).(*ast.Ident); ok && info.Uses[id] == recv && depth < 2 {
							if hd := methods[sel.Sel.Name]; hd != nil && hd.Body != nil && hd.Type.Params != nil && calleeOf(info, x) != nil && calleeOf(info, x).Pkg() == p.Types {
								var params []types.Object
								for _, pl := range hd.Type.Params.List {
									for _, nm := range pl.Names {
										params = append(params, info.Defs[nm])
									}
								}
								var innerOperand types.Object
								innerConsts := map[types.Object]bool{}
								for i, a := range x.Args {
									if i >= len(params) {
										break
									}
									if aid, ok := ast.Unparen(a).(*ast.Ident); ok && info.Uses[aid] == operand {
										innerOperand = params[i]
									} else if b, ok := boolConst(a); ok {
										innerConsts[params[i]] = b
									}
								}
								if innerOperand != nil {
									var innerRecv types.Object
									if hd.Recv != nil && len(hd.Recv.List) == 1 && len(hd.Recv.List[0].Names) == 1 {
										innerRecv = info.Defs[hd.Recv.List[0].Names[0]]
									}
									scan(hd.Body.List, innerOperand, innerRecv, innerConsts, depth+1, false)
								}
							}
						}
					}
				}
				return true
			})
		}
	}
	scan(br.Body, br.Operand, recv, map[types.Object]bool{}, 0, true)
	sort.Strings(polarity)
	switch {
	case len(polarity) == 1:
		return polarity[0], "operand.Contains polarity read from the guarding condition", pos
	case len(polarity) > 1:
		return "mixed:" + strings.Join(polarity, "+"), "several Contains tests", pos
	case nativeXor:
		return "copy-then-native-xor", "operand copied into a fresh bitmap, then native Xor", pos
	case addsEach:
		return "add-each-of-operand", "iterates the operand and adds to the receiver", pos
	}
	return "unrecognised", "no Contains test, operand iteration or native call found", pos
}

// checkWrapper: every method of the interface is implemented as lock; defer unlock; delegate.
func checkWrapper(r *Run, p *packages.Package, tname, ifaceName, ctorName string) {
	info := p.TypesInfo
	methods := methodsOfType(p, tname)
	itn, _ := p.Types.Scope().Lookup(ifaceName).(*types.TypeName)
	if itn == nil || len(methods) == 0 {
		r.Undecide("C13-R3: %s / %s not found", tname, ifaceName)
		return
	}
	iface, _ := itn.Type().Underlying().(*types.Interface)
	if iface == nil {
		r.Undecide("C13-R3: %s is not an interface", ifaceName)
		return
	}
	tn, _ := p.Types.Scope().Lookup(tname).(*types.TypeName)
	var provider, lock *types.Var
	// the delegate and the mutex are fields of the wrapper or of a struct it holds by value
	var findPair func(st *types.Struct, depth int)
	findPair = func(st *types.Struct, depth int) {
		for i := 0; i < st.NumFields(); i++ {
			f := st.Field(i)
			if is, _ := isMutexType(f.Type()); is {
				lock = f.Origin()
			} else if n := namedOf(f.Type()); n != nil && n.Obj().Name() == ifaceName {
				provider = f.Origin()
			} else if _, isTP := f.Type().(*types.TypeParam); isTP && depth > 0 {
				provider = f.Origin() // `guarded[P]{provider P; …}` instantiated with the interface
			} else if inner, ok := f.Type().Underlying().(*types.Struct); ok && depth < 2 {
				if n := namedOf(f.Type()); n != nil && n.Obj().Pkg() == p.Types {
					if ost, ok := n.Origin().Underlying().(*types.Struct); ok {
						inner = ost
					}
					findPair(inner, depth+1)
				}
			}
		}
	}
	if st, ok := tn.Type().Underlying().(*types.Struct); ok {
		findPair(st, 0)
	}
	if provider == nil || lock == nil {
		r.Undecide("C13-R3: %s has no (delegate, mutex) field pair", tname)
		return
	}
	isSel := func(fd *ast.FuncDecl, e ast.Expr, f *types.Var) bool {
		sel, ok := ast.Unparen(e).(*ast.SelectorExpr)
		if !ok {
			return false
		}
		s := info.Selections[sel]
		if s == nil || originVar(s.Obj()) != f {
			return false
		}
		// s.F, or s.<sub-struct held by value>.F
		root := ast.Unparen(sel.X)
		for {
			inner, ok := root.(*ast.SelectorExpr)
			if !ok {
				break
			}
			root = ast.Unparen(inner.X)
		}
		id, ok := root.(*ast.Ident)
		return ok && info.Uses[id] == recvObj(p, fd)
	}
	viewHelpers := map[*ast.FuncDecl]bool{} // private methods judged as the body of the interface methods that delegate to them
	for i := 0; i < iface.NumMethods(); i++ {
		im := iface.Method(i)
		construct := tname + "." + im.Name()
		fd := methods[im.Name()]
		if fd == nil {
			r.Fail("C13-R3-wrapper", construct, token.NoPos, "wrapper does not implement %s.%s", ifaceName, im.Name())
			continue
		}
		body := fd.Body.List
		why := ""
		// a method whose whole body hands its parameters to a private method of the wrapper (`s.combine(other, Duplex[T].And)`)
		// is judged by that method's body: its parameters stand for the arguments, a parameter bound to a method expression
		// stands for that method
		view := fd
		wrappedByCaller := false
		aliasOf := map[types.Object]types.Object{}
		methodValue := map[types.Object]string{}
		alias := func(o types.Object) types.Object {
			if a, ok := aliasOf[o]; ok {
				return a
			}
			return o
		}
		if len(body) == 1 {
			var sole *ast.CallExpr
			switch st := body[0].(type) {
			case *ast.ExprStmt:
				sole, _ = st.X.(*ast.CallExpr)
			case *ast.ReturnStmt:
				if len(st.Results) == 1 {
					sole, _ = ast.Unparen(st.Results[0]).(*ast.CallExpr)
				}
			}
			// `return Ctor(s.snapshot())`: the wrapping happens here, the locked delegation in the private method
			if sole != nil {
				if id, ok := sole.Fun.(*ast.Ident); ok && id.Name == ctorName && len(sole.Args) == 1 {
					if c2, ok := ast.Unparen(sole.Args[0]).(*ast.CallExpr); ok && len(c2.Args) == 0 {
						if sel, ok := c2.Fun.(*ast.SelectorExpr); ok {
							if rid, ok := ast.Unparen(sel.X).(*ast.Ident); ok && info.Uses[rid] == recvObj(p, fd) {
								if hd := methods[sel.Sel.Name]; hd != nil && hd.Body != nil && !ast.IsExported(sel.Sel.Name) {
									sole = c2
									wrappedByCaller = true
								}
							}
						}
					}
				}
			}
			if sole != nil {
				if sel, ok := sole.Fun.(*ast.SelectorExpr); ok {
					if id, ok := ast.Unparen(sel.X).(*ast.Ident); ok && info.Uses[id] == recvObj(p, fd) {
						isIfaceMethod := false
						for k := 0; k < iface.NumMethods(); k++ {
							if iface.Method(k).Name() == sel.Sel.Name {
								isIfaceMethod = true
							}
						}
						if hd := methods[sel.Sel.Name]; hd != nil && !isIfaceMethod && hd.Body != nil && hd.Type.Params != nil {
							var hparams []types.Object
							for _, pl := range hd.Type.Params.List {
								for _, nm := range pl.Names {
									hparams = append(hparams, info.Defs[nm])
								}
							}
							if len(hparams) == len(sole.Args) {
								for k, a := range sole.Args {
									switch av := ast.Unparen(a).(type) {
									case *ast.Ident:
										aliasOf[hparams[k]] = info.Uses[av]
									case *ast.SelectorExpr:
										if tv, ok := info.Types[av.X]; ok && tv.IsType() {
											methodValue[hparams[k]] = av.Sel.Name
										}
									}
								}
								view = hd
								body = hd.Body.List
								viewHelpers[hd] = true
							}
						}
					}
				}
			}
		}
		// optional prologue, before the lock is taken: `<local> := <package function>(<parameter>)` — the operand helper
		prologue := map[types.Object]types.Object{} // local -> the parameter it was made from
		var helpers []*types.Func
		for len(body) > 3 {
			as, ok := body[0].(*ast.AssignStmt)
			if !ok || as.Tok != token.DEFINE || len(as.Lhs) != 1 || len(as.Rhs) != 1 {
				break
			}
			call, ok := as.Rhs[0].(*ast.CallExpr)
			if !ok || len(call.Args) != 1 {
				break
			}
			fn := calleeOf(info, call)
			argID, isID := ast.Unparen(call.Args[0]).(*ast.Ident)
			lhsID, isLhs := as.Lhs[0].(*ast.Ident)
			if fn == nil || fn.Type().(*types.Signature).Recv() != nil || !isID || !isLhs {
				break
			}
			if _, isParam := info.Uses[argID].(*types.Var); !isParam {
				break
			}
			prologue[info.Defs[lhsID]] = alias(info.Uses[argID])
			helpers = append(helpers, fn)
			body = body[1:]
		}
		if len(body) != 3 {
			why = fmt.Sprintf("body has %d statements, expected lock; defer unlock; delegate", len(body))
		} else {
			// 1: s.lock.Lock()
			if es, ok := body[0].(*ast.ExprStmt); !ok {
				why = "first statement is not s.lock.Lock()"
			} else if call, ok := es.X.(*ast.CallExpr); !ok {
				why = "first statement is not s.lock.Lock()"
			} else if sel, ok := call.Fun.(*ast.SelectorExpr); !ok || sel.Sel.Name != "Lock" || !isSel(view, sel.X, lock) {
				why = "first statement is not s.lock.Lock()"
			}
			if ds, ok := body[1].(*ast.DeferStmt); !ok {
				why = "second statement is not defer s.lock.Unlock()"
			} else if sel, ok := ds.Call.Fun.(*ast.SelectorExpr); !ok || sel.Sel.Name != "Unlock" || !isSel(view, sel.X, lock) {
				why = "second statement is not defer s.lock.Unlock()"
			}
			// 3: delegate
			var call *ast.CallExpr
			switch s := body[2].(type) {
			case *ast.ExprStmt:
				call, _ = s.X.(*ast.CallExpr)
				if im.Type().(*types.Signature).Results().Len() > 0 {
					why = "result of the delegate is dropped"
				}
			case *ast.ReturnStmt:
				if len(s.Results) == 1 {
					call, _ = ast.Unparen(s.Results[0]).(*ast.CallExpr)
				}
			}
			if call == nil {
				if why == "" {
					why = "third statement does not delegate"
				}
			} else if why == "" {
				inner := call
				wrapped := wrappedByCaller
				// Clone: Ctor(s.provider.Clone())
				if id, ok := call.Fun.(*ast.Ident); ok && id.Name == ctorName && len(call.Args) == 1 {
					if c2, ok := ast.Unparen(call.Args[0]).(*ast.CallExpr); ok {
						inner = c2
						wrapped = true
					}
				}
				sel, ok := inner.Fun.(*ast.SelectorExpr)
				// `operation(s.provider, operand)` with operation standing for the method expression Duplex[T].M
				if fid, isID := ast.Unparen(inner.Fun).(*ast.Ident); isID && methodValue[info.Uses[fid]] != "" && len(inner.Args) >= 1 {
					sel = &ast.SelectorExpr{X: inner.Args[0], Sel: &ast.Ident{NamePos: fid.Pos(), Name: methodValue[info.Uses[fid]]}}
					ok = true
					inner = &ast.CallExpr{Fun: sel, Lparen: inner.Lparen, Args: inner.Args[1:], Rparen: inner.Rparen}
				}
				switch {
				case !ok || !isSel(view, sel.X, provider):
					why = "does not call the wrapped provider"
				case sel.Sel.Name != im.Name():
					why = fmt.Sprintf("delegates to %s instead of %s", sel.Sel.Name, im.Name())
				case im.Name() == "Clone" && !wrapped:
					why = "Clone returns the delegate's clone without wrapping it in a new thread-safe wrapper"
				default:
					// arguments: the method's parameters in order
					var params []types.Object
					if fd.Type.Params != nil {
						for _, pl := range fd.Type.Params.List {
							for _, nm := range pl.Names {
								params = append(params, info.Defs[nm])
							}
						}
					}
					if len(inner.Args) != len(params) {
						why = "delegate is not called with the method's parameters"
					} else {
						for k, a := range inner.Args {
							id, ok := ast.Unparen(a).(*ast.Ident)
							if !ok || (alias(info.Uses[id]) != params[k] && prologue[info.Uses[id]] != params[k]) {
								why = "delegate is not called with the method's parameters in order"
								continue
							}
							// R6: a set operand (an interface value that may be another wrapper, or this one) is not read under
							// the receiver's lock unless it went through a helper that tells wrappers apart
							if _, isTP := types.Unalias(params[k].Type()).(*types.TypeParam); !isTP && types.IsInterface(params[k].Type()) && tname == "threadSafeDuplex" {
								c6 := tname + "." + im.Name() + ":" + params[k].Name()
								if prologue[info.Uses[id]] != params[k] {
									r.Fail("C13-R6-operand-under-lock", c6, a.Pos(), "%s.%s hands the operand %s to the wrapped provider while holding its own lock: if the operand is a thread-safe provider it is read through its lock from inside this critical section, which never returns when the operand is the receiver itself (w.%s(w)) and deadlocks two goroutines that combine the same pair in opposite order", tname, im.Name(), params[k].Name(), im.Name())
								} else if !helperUnwraps(p, helpers, tname) {
									r.Fail("C13-R6-operand-under-lock", c6, a.Pos(), "the operand helper never tests whether the operand is a %s", tname)
								} else {
									r.Pass("C13-R6-operand-under-lock", c6, a.Pos(), "the operand is replaced, before the lock is taken, by the result of a helper that recognises thread-safe operands")
								}
							}
						}
					}
				}
			}
		}
		if why == "" {
			r.Pass("C13-R3-wrapper", construct, fd.Pos(), "lock; defer unlock; delegate %s with the same arguments", im.Name())
		} else {
			r.Fail("C13-R3-wrapper", construct, fd.Pos(), "thread-safe wrapper method is not a locked delegation: %s", why)
		}
	}
	// the delegate field is used only inside these methods (after the lock) and in the constructor literal
	for _, f := range p.Syntax {
		for _, d := range f.Decls {
			fd, ok := d.(*ast.FuncDecl)
			if !ok || fd.Body == nil {
				continue
			}
			if viewHelpers[fd] {
				continue
			}
			if fd.Recv != nil && recvTypeName(fd.Recv.List[0].Type) == tname {
				if _, isIfaceMethod := methods[fd.Name.Name]; isIfaceMethod {
					implemented := false
					for i := 0; i < iface.NumMethods(); i++ {
						if iface.Method(i).Name() == fd.Name.Name {
							implemented = true
						}
					}
					if implemented {
						continue
					}
				}
			}
			ast.Inspect(fd.Body, func(n ast.Node) bool {
				if sel, ok := n.(*ast.SelectorExpr); ok {
					if s := info.Selections[sel]; s != nil && originVar(s.Obj()) == provider {
						// the field may be shared with a sibling wrapper through a common sub-struct: an access whose base
						// variable is a different wrapper type is that wrapper's business
						if id := rootIdent(sel.X); id != nil {
							if bn := namedOf(info.TypeOf(id)); bn != nil && bn.Obj().Pkg() == p.Types && bn.Obj().Name() != tname && strings.HasPrefix(bn.Obj().Name(), "threadSafe") {
								return true
							}
						}
						if fd.Recv != nil && recvTypeName(fd.Recv.List[0].Type) == tname && !ast.IsExported(fd.Name.Name) && lockedOnSameBase(info, fd, sel, lock) {
							r.Pass("C13-R3-wrapper", tname+"."+provider.Name()+"@"+funcDeclName(fd), sel.Pos(), "a private method of the wrapper reads the wrapped provider under the wrapper's lock")
							return true
						}
						if fd.Recv == nil && lockedOnSameBase(info, fd, sel, lock) {
							r.Pass("C13-R3-wrapper", tname+"."+provider.Name()+"@"+funcDeclName(fd), sel.Pos(), "a helper reads the wrapped provider of another wrapper under that wrapper's lock")
							return true
						}
						r.Fail("C13-R3-wrapper", tname+"."+provider.Name()+"@"+funcDeclName(fd), sel.Pos(), "the wrapped provider is accessed in %s outside a locked delegation", funcDeclName(fd))
					}
				}
				return true
			})
		}
	}
	// constructor creates a fresh mutex
	if ctor := FuncDecls(p)[ctorName]; ctor != nil {
		fresh := false
		ast.Inspect(ctor.Body, func(n ast.Node) bool {
			if kv, ok := n.(*ast.KeyValueExpr); ok {
				if k, ok := kv.Key.(*ast.Ident); ok && info.Uses[k] != nil && originVar(info.Uses[k]) == lock {
					if u, ok := ast.Unparen(kv.Value).(*ast.UnaryExpr); ok && u.Op == token.AND {
						if _, ok := u.X.(*ast.CompositeLit); ok {
							fresh = true
						}
					}
				}
			}
			return true
		})
		if fresh {
			r.Pass("C13-R3-wrapper", ctorName+":fresh-mutex", ctor.Pos(), "every wrapper (and so every clone) gets its own mutex")
		} else {
			r.Fail("C13-R3-wrapper", ctorName+":fresh-mutex", ctor.Pos(), "the constructor does not allocate a fresh mutex")
		}
	}
}

// helperUnwraps: one of the operand helpers type-asserts (or type-switches) its argument to the wrapper type.
func helperUnwraps(p *packages.Package, helpers []*types.Func, tname string) bool {
	decls := FuncDecls(p)
	for _, h := range helpers {
		fd := decls[h.Name()]
		if fd == nil || fd.Body == nil {
			continue
		}
		found := false
		ast.Inspect(fd.Body, func(n ast.Node) bool {
			var te ast.Expr
			switch t := n.(type) {
			case *ast.TypeAssertExpr:
				te = t.Type
			case *ast.CaseClause:
				for _, e := range t.List {
					if namedName(p.TypesInfo.TypeOf(e)) == tname {
						found = true
					}
				}
			}
			if te != nil && namedName(p.TypesInfo.TypeOf(te)) == tname {
				found = true
			}
			return true
		})
		if found {
			return true
		}
	}
	return false
}

// lockedOnSameBase: in a plain function, `w.provider` is read after `w.lock.Lock()` and `defer w.lock.Unlock()` on
// the same variable w.
func lockedOnSameBase(info *types.Info, fd *ast.FuncDecl, sel *ast.SelectorExpr, lock *types.Var) bool {
	base := rootIdent(sel.X)
	if base == nil {
		return false
	}
	locked, deferred := false, false
	ast.Inspect(fd.Body, func(n ast.Node) bool {
		check := func(call *ast.CallExpr, name string) bool {
			fs, ok := call.Fun.(*ast.SelectorExpr)
			if !ok || fs.Sel.Name != name {
				return false
			}
			ls, ok := ast.Unparen(fs.X).(*ast.SelectorExpr)
			if !ok {
				return false
			}
			if s := info.Selections[ls]; s == nil || originVar(s.Obj()) != lock {
				return false
			}
			id := rootIdent(ls.X)
			return id != nil && info.Uses[id] == info.Uses[base] && call.Pos() < sel.Pos()
		}
		switch t := n.(type) {
		case *ast.ExprStmt:
			if call, ok := t.X.(*ast.CallExpr); ok && check(call, "Lock") {
				locked = true
			}
		case *ast.DeferStmt:
			if check(t.Call, "Unlock") {
				deferred = true
			}
		}
		return true
	})
	return locked && deferred
}

// checkValueReceiverWrites (R5): the bitmap providers are small structs passed by value that hold a pointer to the
// real bitmap.  A method with a value receiver that assigns one of the receiver's fields changes only its private
// copy: the operation silently does nothing for the caller (an And that builds the intersection in a fresh bitmap and
// stores it with `s.bitmap = …` leaves the receiver unchanged).
func checkValueReceiverWrites(r *Run, p *packages.Package) {
	info := p.TypesInfo
	n := 0
	for _, f := range p.Syntax {
		for _, d := range f.Decls {
			fd, ok := d.(*ast.FuncDecl)
			if !ok || fd.Body == nil || fd.Recv == nil || len(fd.Recv.List) == 0 || len(fd.Recv.List[0].Names) == 0 {
				continue
			}
			recv := info.Defs[fd.Recv.List[0].Names[0]]
			if recv == nil {
				continue
			}
			if _, isPtr := recv.Type().(*types.Pointer); isPtr {
				continue
			}
			if _, isStruct := recv.Type().Underlying().(*types.Struct); !isStruct {
				continue
			}
			n++
			bad := token.NoPos
			field := ""
			ast.Inspect(fd.Body, func(x ast.Node) bool {
				as, ok := x.(*ast.AssignStmt)
				if !ok {
					return true
				}
				for _, l := range as.Lhs {
					if sel, ok := ast.Unparen(l).(*ast.SelectorExpr); ok {
						if id, ok := ast.Unparen(sel.X).(*ast.Ident); ok && info.Uses[id] == recv && bad == token.NoPos {
							bad, field = as.Pos(), sel.Sel.Name
						}
					}
				}
				return true
			})
			construct := funcDeclName(fd)
			// a method that returns its (modified) receiver copy is a builder-style method, not a lost write
			returnsSelf := false
			ast.Inspect(fd.Body, func(x ast.Node) bool {
				if ret, ok := x.(*ast.ReturnStmt); ok {
					for _, e := range ret.Results {
						if id, ok := ast.Unparen(e).(*ast.Ident); ok && info.Uses[id] == recv {
							returnsSelf = true
						}
					}
				}
				return true
			})
			if bad != token.NoPos && !returnsSelf {
				r.Fail("C13-R5-value-receiver-write", construct, bad, "%s has a value receiver and assigns its field %s: only the method's private copy changes, so for the caller the operation does nothing", construct, field)
			} else {
				r.Pass("C13-R5-value-receiver-write", construct, fd.Pos(), "no receiver field is assigned through the value receiver")
			}
		}
	}
	_ = n
	r.Floor("C13-R5-value-receiver-write", 20)
}

// rootIdent: the identifier a selector chain starts from (`w` in `w.cell.provider`).
func rootIdent(e ast.Expr) *ast.Ident {
	for {
		switch x := ast.Unparen(e).(type) {
		case *ast.SelectorExpr:
			e = x.X
		case *ast.Ident:
			return x
		default:
			return nil
		}
	}
}

// normShape: the siblings may reach the same result in different ways — a fallback that is the right one for the
// operation (judged by C13-R2-fallback) compares equal to any other right one.
func normShape(method, shape string) string {
	expected := map[string]string{"And": "remove-if-not-contained", "AndNot": "remove-if-contained", "Or": "add-each-of-operand", "Xor": "copy-then-native-xor"}[method]
	if expected != "" {
		shape = strings.ReplaceAll(shape, "fallback:"+expected, "fallback:ok")
	}
	return strings.ReplaceAll(shape, "fallback:copy-then-native", "fallback:ok")
}

// operandHelperOf: the same-package function whose first result fd passes to a method of its own bitmap.
func operandHelperOf(p *packages.Package, fd *ast.FuncDecl, onOwnBitmap func(fd *ast.FuncDecl, e ast.Expr) bool) *ast.FuncDecl {
	info := p.TypesInfo
	decls := FuncDecls(p)
	var out *ast.FuncDecl
	ast.Inspect(fd.Body, func(n ast.Node) bool {
		as, ok := n.(*ast.AssignStmt)
		if !ok || len(as.Rhs) != 1 || len(as.Lhs) < 1 {
			return true
		}
		call, ok := ast.Unparen(as.Rhs[0]).(*ast.CallExpr)
		if !ok {
			return true
		}
		fn := calleeOf(info, call)
		if fn == nil || fn.Pkg() != p.Types {
			return true
		}
		lid, ok := as.Lhs[0].(*ast.Ident)
		if !ok {
			return true
		}
		obj := info.ObjectOf(lid)
		used := false
		ast.Inspect(fd.Body, func(m ast.Node) bool {
			if c2, ok := m.(*ast.CallExpr); ok {
				if sel, ok := c2.Fun.(*ast.SelectorExpr); ok && onOwnBitmap(fd, sel.X) {
					for _, a := range c2.Args {
						if id, ok := ast.Unparen(a).(*ast.Ident); ok && info.Uses[id] == obj {
							used = true
						}
					}
				}
			}
			return true
		})
		if used {
			out = decls[declKeyOf(fn)]
		}
		return true
	})
	return out
}

// removesWherePredicate: hd(pred) iterates the receiver's own values, asks pred about each, never adds to the
// receiver's bitmap, and removes from it (Remove, RemoveRange, AndNot) — outside the iteration.
func removesWherePredicate(p *packages.Package, hd *ast.FuncDecl) bool {
	info := p.TypesInfo
	if hd.Body == nil || hd.Type.Params == nil || len(hd.Type.Params.List) != 1 || len(hd.Type.Params.List[0].Names) != 1 {
		return false
	}
	pred := info.Defs[hd.Type.Params.List[0].Names[0]]
	if _, isFunc := pred.Type().Underlying().(*types.Signature); !isFunc {
		return false
	}
	recv := recvObj(p, hd)
	asksEach, removes, adds := false, false, false
	ast.Inspect(hd.Body, func(n ast.Node) bool {
		call, ok := n.(*ast.CallExpr)
		if !ok {
			return true
		}
		if id, ok := ast.Unparen(call.Fun).(*ast.Ident); ok && info.Uses[id] == pred {
			asksEach = true
		}
		if sel, ok := call.Fun.(*ast.SelectorExpr); ok {
			if root := rootIdent(sel.X); root != nil && info.Uses[root] == recv {
				switch sel.Sel.Name {
				case "Remove", "RemoveRange", "AndNot", "CheckedRemove":
					removes = true
				case "Add", "AddMany", "AddRange", "Or", "CheckedAdd":
					adds = true
				}
			}
		}
		return true
	})
	return asksEach && removes && !adds
}

// selectsWherePredicate: hd(pred) iterates the receiver's own values, asks pred about each, adds the values for which it
// holds to a bitmap it made itself, returns that bitmap, and neither adds to nor removes from the receiver's bitmap.
func selectsWherePredicate(p *packages.Package, hd *ast.FuncDecl) bool {
	info := p.TypesInfo
	if hd.Body == nil || hd.Type.Params == nil || len(hd.Type.Params.List) != 1 || len(hd.Type.Params.List[0].Names) != 1 {
		return false
	}
	pred := info.Defs[hd.Type.Params.List[0].Names[0]]
	if _, isFunc := pred.Type().Underlying().(*types.Signature); !isFunc {
		return false
	}
	recv := recvObj(p, hd)
	// the returned local
	var result types.Object
	for _, st := range hd.Body.List {
		if rs, ok := st.(*ast.ReturnStmt); ok && len(rs.Results) == 1 {
			if id, ok := ast.Unparen(rs.Results[0]).(*ast.Ident); ok {
				result = info.Uses[id]
			}
		}
	}
	if result == nil || result == recv {
		return false
	}
	positive, touchesOwn, other := false, false, false
	ast.Inspect(hd.Body, func(n ast.Node) bool {
		switch x := n.(type) {
		case *ast.IfStmt:
			c, ok := ast.Unparen(x.Cond).(*ast.CallExpr)
			if !ok {
				return true
			}
			if id, ok := ast.Unparen(c.Fun).(*ast.Ident); !ok || info.Uses[id] != pred {
				return true
			}
			// body: result.Add(v) only
			for _, st := range x.Body.List {
				es, ok := st.(*ast.ExprStmt)
				if !ok {
					other = true
					continue
				}
				call, ok := es.X.(*ast.CallExpr)
				if !ok {
					other = true
					continue
				}
				sel, ok := call.Fun.(*ast.SelectorExpr)
				if !ok || (sel.Sel.Name != "Add" && sel.Sel.Name != "CheckedAdd") {
					other = true
					continue
				}
				if id, ok := ast.Unparen(sel.X).(*ast.Ident); ok && info.Uses[id] == result {
					positive = true
				} else {
					other = true
				}
			}
			if x.Else != nil {
				other = true
			}
		case *ast.CallExpr:
			if sel, ok := x.Fun.(*ast.SelectorExpr); ok {
				if root := rootIdent(sel.X); root != nil && info.Uses[root] == recv {
					switch sel.Sel.Name {
					case "Remove", "RemoveRange", "AndNot", "CheckedRemove", "Add", "AddMany", "AddRange", "Or", "CheckedAdd", "And", "Xor", "Clear":
						touchesOwn = true
					}
				}
				// the result is filled nowhere else
				if id, ok := ast.Unparen(sel.X).(*ast.Ident); ok && info.Uses[id] == result {
					switch sel.Sel.Name {
					case "Remove", "AndNot", "Or", "And", "Xor", "AddMany", "AddRange":
						other = true
					}
				}
			}
		}
		return true
	})
	return positive && !touchesOwn && !other
}

// ownIteratorLocals: locals of fd initialised from an iterator over the receiver's own bitmap.
func ownIteratorLocals(info *types.Info, fd *ast.FuncDecl, onOwnBitmap func(fd *ast.FuncDecl, e ast.Expr) bool) map[types.Object]bool {
	out := map[types.Object]bool{}
	isIter := func(e ast.Expr) bool {
		call, ok := ast.Unparen(e).(*ast.CallExpr)
		if !ok {
			return false
		}
		sel, ok := call.Fun.(*ast.SelectorExpr)
		return ok && strings.Contains(sel.Sel.Name, "Iterator") && onOwnBitmap(fd, sel.X)
	}
	ast.Inspect(fd.Body, func(n ast.Node) bool {
		switch x := n.(type) {
		case *ast.ValueSpec:
			for i, nm := range x.Names {
				if i < len(x.Values) && isIter(x.Values[i]) {
					out[info.Defs[nm]] = true
				}
			}
		case *ast.AssignStmt:
			if len(x.Lhs) == len(x.Rhs) {
				for i, l := range x.Lhs {
					if id, ok := l.(*ast.Ident); ok && isIter(x.Rhs[i]) {
						out[info.ObjectOf(id)] = true
					}
				}
			}
		}
		return true
	})
	return out
}
