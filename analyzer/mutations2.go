package main

// Self-test mutations added with the rules that the seeded changes (seeded/<id>) led to. Each mirrors the mechanism of
// a seeded change in the smallest form that still compiles.

func init() {
	add := func(prop string, ms ...Mutation) { mutations[prop] = append(mutations[prop], ms...) }
	add("C01",
		Mutation{Name: "fast-path-ignores-endpoint-variable", File: "cypher/models/pgsql/translate/count_fast_path.go",
			Old: "return nodePattern == nil || nodePattern.Variable != nil || len(nodePattern.Kinds) > 0 || nodePattern.Properties != nil",
			New: "return nodePattern == nil || len(nodePattern.Kinds) > 0 || nodePattern.Properties != nil", Expect: "C01-R5-recogniser-total|"},
		Mutation{Name: "aggregate-lowering-ignores-left-kinds", File: "cypher/models/pgsql/optimize/lowering_plan.go",
			Old: "\t\tlen(leftNode.Kinds) > 0 ||\n", New: "", Expect: "aggregateTraversalMatch.leftNode"},
		Mutation{Name: "order-restoration-extra-guard", File: "cypher/models/pgsql/translate/path_functions.go",
			Old: "\tif pathBinding.PathDirectionReversed {\n\t\treversePathCompositeExpressions(edgeArrayReferences)",
			New: "\tif pathBinding.PathDirectionReversed && len(edgeArrayReferences) > 2 {\n\t\treversePathCompositeExpressions(edgeArrayReferences)", Expect: "C01-R6-order-restoration|pathCompositeEdgesExpression"},
	)
	add("C01",
		Mutation{Name: "like-escape-drops-backslash", File: "cypher/models/pgsql/translate/expression.go",
			Old: "\t\t\t\t\"\\\\\", \"\\\\\\\\\",\n\t\t\t\t\"%\", \"\\\\%\",", New: "\t\t\t\t\"%\", \"\\\\%\",", Expect: "C01-R8-like-escape"},
		Mutation{Name: "binding-copy-drops-reversed-flag", File: "cypher/models/pgsql/translate/tracking.go",
			Old: "\t\tPathDirectionReversed: s.PathDirectionReversed,\n\t}\n}\n\nfunc (s *BoundIdentifier) Dematerialize()", New: "\t}\n}\n\nfunc (s *BoundIdentifier) Dematerialize()", Expect: "C01-R7-translator-copy-complete|cypher/models/pgsql/translate.BoundIdentifier.Copy:PathDirectionReversed"},
	)
	add("C02",
		Mutation{Name: "usage-classifier-exempts-a-read", File: "cypher/models/pgsql/translate/collect_id_membership.go",
			Old: "return isProjectionItem && projectionItem.Alias == variable",
			New: "return isProjectionItem && (projectionItem.Alias == variable || (projectionItem.Alias == nil && projectionItem.Expression == variable))", Expect: "C02-R3-usage-classifier"},
		Mutation{Name: "path-reversed-set-after-flip", File: "cypher/models/pgsql/translate/expansion.go",
			Old: "\ttraversalStep.Frame.Export(expansionModel.PathBinding.Identifier)\n",
			New: "\ttraversalStep.Frame.Export(expansionModel.PathBinding.Identifier)\n\tif part.PathDirectionReversed {\n\t\ttraversalStep.PathReversed = true\n\t}\n", Expect: "C02-R4-set-before-toggle"},
	)
	add("C03",
		Mutation{Name: "properties-qualified-before-source-frame", File: "cypher/models/pgsql/translate/create.go",
			Old: "\t\tsourceFrame, carried, err := s.buildCreateSourceFrame(idAlias, pgsql.TableEdge)\n",
			New: "\t\tif _, err := s.buildPropertiesObject(edgeCreate.Properties); err != nil {\n\t\t\treturn err\n\t\t}\n\n\t\tsourceFrame, carried, err := s.buildCreateSourceFrame(idAlias, pgsql.TableEdge)\n", Expect: "C03-e-frame-before-qualify|Translator.buildEdgeCreations"},
		Mutation{Name: "liveness-ignores-relationship-properties", File: "cypher/models/pgsql/optimize/source_references.go",
			Old: "\t\t\ts.addMatchPatternDeclaration(typedNode.Variable)\n\t\t\ts.addPatternPropertyReferences(typedNode.Properties)\n\t\t}\n\n\tcase *cypher.RelationshipPattern:",
			New: "\t\t\ts.addMatchPatternDeclaration(typedNode.Variable)\n\t\t}\n\n\tcase *cypher.RelationshipPattern:", Expect: "C03-f-liveness-arm-coverage|sourceReferenceCollector.Enter:NodePattern"},
	)
	add("C04",
		Mutation{Name: "order-by-alias-unquoted", File: "cypher/models/pgsql/translate/projection.go",
			Old: "\t\t\taliases[binding.Identifier] = projection.Alias.Value\n",
			New: "\t\t\taliases[binding.Identifier] = pgsql.Identifier(cypher.UnescapePropertyKeyName(projection.Alias.Value.String()))\n", Expect: "C04-R3-identifier-position|rewriteOrderByProjectionAlias"},
	)
	add("C06",
		Mutation{Name: "alias-table-first", File: "cypher/models/pgsql/translate/tracking.go",
			Old: "\tif binding, bound := s.Lookup(identifier); bound {\n\t\treturn binding.DataType, true\n\t}\n\n\tif binding, bound := s.AliasedLookup(identifier); bound {\n\t\treturn binding.DataType, true\n\t}",
			New: "\tif binding, bound := s.AliasedLookup(identifier); bound {\n\t\treturn binding.DataType, true\n\t}\n\n\tif binding, bound := s.Lookup(identifier); bound {\n\t\treturn binding.DataType, true\n\t}", Expect: "C06-R4-generated-first|Scope.LookupDataType"},
		Mutation{Name: "alias-substituted-before-frame-rewrite", File: "cypher/models/pgsql/translate/projection.go",
			Old: "\t\t\tif err := RewriteFrameBindings(s.scope, orderByExpression); err != nil {\n\t\t\t\treturn err\n\t\t\t}\n\n\t\t\trewriteOrderByProjectionAlias(orderByExpression, projectionAliases)",
			New: "\t\t\trewriteOrderByProjectionAlias(orderByExpression, projectionAliases)\n\n\t\t\tif err := RewriteFrameBindings(s.scope, orderByExpression); err != nil {\n\t\t\t\treturn err\n\t\t\t}", Expect: "C06-R5-alias-after-frame-rewrite"},
	)
	add("C07",
		Mutation{Name: "float-shortest-exponent-format", File: "cypher/models/cypher/format/format.go",
			Old: "strconv.FormatFloat(value, 'f', -1, 64)", New: "strconv.FormatFloat(value, 'g', -1, 64)", Expect: "C07-R4-number-language"},
	)
	add("C08",
		Mutation{Name: "listener-drops-lexer-errors", File: "cypher/frontend/context.go",
			Old: "e antlr.RecognitionException) {\n\ts.AddErrors(&SyntaxError{",
			New: "e antlr.RecognitionException) {\n\tif offendingSymbol == nil {\n\t\treturn\n\t}\n\ts.AddErrors(&SyntaxError{", Expect: "C08-R7-error-listener|Context.SyntaxError"},
		Mutation{Name: "tokens-pulled-before-listener", File: "cypher/frontend/parse.go",
			Old: "\t// Set up the lexer and parser to report errors to the context\n", New: "\ttokenStream.Fill()\n\n", Expect: "C08-R7-error-listener|parseCypher:lexer"},
	)
	add("C10",
		Mutation{Name: "render-memoised-apply-only-invalidates", File: "query/neo4j/neo4j.go",
			Old: "\tprepared bool\n}", New: "\tprepared bool\n\trendered string\n}", Expect: "C10-R4-render-function-of-model|QueryBuilder.Prepare",
			Also: []Edit{
				{"query/neo4j/neo4j.go", "func (s *QueryBuilder) Apply(criteria graph.Criteria) {\n", "func (s *QueryBuilder) Apply(criteria graph.Criteria) {\n\ts.rendered = \"\"\n"},
				{"query/neo4j/neo4j.go", "func (s *QueryBuilder) Render() (string, error) {\n\tbuffer := &bytes.Buffer{}\n", "func (s *QueryBuilder) Render() (string, error) {\n\tif s.rendered != \"\" {\n\t\treturn s.rendered, nil\n\t}\n\tbuffer := &bytes.Buffer{}\n"},
				{"query/neo4j/neo4j.go", "\t\treturn buffer.String(), nil\n", "\t\ts.rendered = buffer.String()\n\t\treturn s.rendered, nil\n"},
			}},
	)
	add("C11",
		Mutation{Name: "copy-helper-returns-empty-input", File: "cypher/models/cypher/copy.go",
			Old: "\tvar valueCopy []T\n\n\tif slice != nil {", New: "\tvar valueCopy []T\n\n\tif len(slice) == 0 {\n\t\treturn slice\n\t}\n\n\tif slice != nil {", Expect: "C11-copy-helper-fresh"},
		Mutation{Name: "consume-flag-leaks-after-exit", File: "cypher/models/walk/walk.go",
			Old: "\t\t\t// Clear any consume flag set by Exit before visiting the next sibling.\n\t\t\tvisitor.WasConsumed()\n", New: "", Expect: "consume-cleared"},
	)
	add("C14",
		Mutation{Name: "both-direction-union-in-place", File: "container/adjacencymap.go",
			Old: "combinedAdjacent := outboundAdjacent.Clone()", New: "combinedAdjacent := outboundAdjacent", Expect: "C14-R4-stored-set-readonly"},
	)
	add("C15",
		Mutation{Name: "cached-reach-mutated-in-place", File: "algo/reach.go",
			Old: "\t\t\tif cachedReach, cached := s.cachedComponentReach(nextAdjacentComponent, direction); cached {\n\t\t\t\tnextCursor.reach.Or(cachedReach)\n\t\t\t} else {\n\t\t\t\tstack.PushBack(",
			New: "\t\t\tif cachedReach, cached := s.cachedComponentReach(nextAdjacentComponent, direction); cached {\n\t\t\t\tcachedReach.Or(nextCursor.reach)\n\t\t\t\tnextCursor.reach.Or(cachedReach)\n\t\t\t} else {\n\t\t\t\tstack.PushBack(", Expect: "C15-R1-cached-set-readonly"},
		Mutation{Name: "partial-cursor-cached", File: "algo/reach.go",
			Old: "\t\t\tif !nextCursor.partial {\n\t\t\t\ts.cacheComponentReach(nextCursor, direction)\n\t\t\t}", New: "\t\t\ts.cacheComponentReach(nextCursor, direction)", Expect: "componentReachDFS:gate"},
		Mutation{Name: "skipped-component-not-flagged", File: "algo/reach.go",
			Old: "\t\t\t} else {\n\t\t\t\tnextCursor.partial = true\n\t\t\t}", New: "\t\t\t}", Expect: "C15-R3-cache-complete-reach|componentReachDFS:adjacent-branch#2"},
		Mutation{Name: "partial-flag-not-propagated", File: "algo/reach.go",
			Old: "\t\tif s.partial && s.ancestor.ancestor != nil {\n\t\t\ts.ancestor.partial = true\n\t\t}\n", New: "", Expect: "reachCursor.Complete:propagates"},
		Mutation{Name: "inbound-served-from-outbound-cache", File: "algo/reach.go",
			Old: "\t\tentry, found = s.inboundComponentReach.Get(component)", New: "\t\tentry, found = s.outboundComponentReach.Get(component)", Expect: "C15-R4-direction-role|ReachabilityCache.cachedComponentReach:Inbound"},
	)
	add("C16",
		Mutation{Name: "delete-absent-key-decrements-size", File: "cache/nemap.go",
			Old: "\t_, exists := s.store[key]\n\n\tif exists {\n\t\tdelete(s.store, key)\n\t\ts.stats.Delete()\n\t}", New: "\tdelete(s.store, key)\n\ts.stats.Delete()", Expect: "delete↔present"},
		Mutation{Name: "put-split-into-two-critical-sections", File: "cache/sieve.go",
			Old:    "func (s *Sieve[K, V]) Put(key K, value V) {\n\ts.rwLock.Lock()\n\tdefer s.rwLock.Unlock()\n\n\tif existingEntry, exists := s.store[key]; exists {\n\t\t// Update the entry values\n\t\texistingEntry.value = value\n\t\texistingEntry.visited.Store(true)\n\t} else {\n\t\ts.putEntry(key, value)\n\t}\n}",
			New:    "func (s *Sieve[K, V]) updateEntry(key K, value V) bool {\n\ts.rwLock.Lock()\n\tdefer s.rwLock.Unlock()\n\n\texistingEntry, exists := s.store[key]\n\tif exists {\n\t\texistingEntry.value = value\n\t\texistingEntry.visited.Store(true)\n\t}\n\treturn exists\n}\n\nfunc (s *Sieve[K, V]) Put(key K, value V) {\n\tif !s.updateEntry(key, value) {\n\t\ts.putEntry(key, value)\n\t}\n}",
			Expect: "C16-R6-one-critical-section|Sieve.Put",
			Also:   []Edit{{"cache/sieve.go", "func (s *Sieve[K, V]) putEntry(key K, value V) {\n", "func (s *Sieve[K, V]) putEntry(key K, value V) {\n\ts.rwLock.Lock()\n\tdefer s.rwLock.Unlock()\n\n"}}},
	)
	add("C16",
		Mutation{Name: "combined-accumulates-into-live-counters", File: "cache/cache.go",
			Old: "\tsize.Add(s.Size())\n\tsize.Add(other.Size())\n", New: "\tsize.Add(s.Size())\n\tsize.Add(other.Size())\n\ts.size.Add(other.Size())\n", Expect: "Stats.Combined:size.Add"},
		Mutation{Name: "put-relocks-after-self-locking-refresh", File: "cache/sieve.go",
			Old: "func (s *Sieve[K, V]) Put(key K, value V) {\n\ts.rwLock.Lock()\n\tdefer s.rwLock.Unlock()\n",
			New: "func (s *Sieve[K, V]) Put(key K, value V) {\n\tif _, cached := s.Get(key); cached {\n\t\t_ = cached\n\t}\n\n\ts.rwLock.Lock()\n\tdefer s.rwLock.Unlock()\n", Expect: "C16-R6-one-critical-section|Sieve.Put"},
	)
	add("C17",
		Mutation{Name: "pipe-direct-hand-off", File: "util/channels/pipe.go",
			Old: "\t\t\t\t\tbuffer.PushBack(next)\n", New: "\t\t\t\t\tselect {\n\t\t\t\t\tcase readerC <- next:\n\t\t\t\t\tdefault:\n\t\t\t\t\t\tbuffer.PushBack(next)\n\t\t\t\t\t}\n", Expect: "send-source"},
	)
	add("C18",
		Mutation{Name: "zero-id-as-no-cursor", File: "retriever/scan.go",
			Old: "\t\tif hasAfterID {\n\t\t\tnodeQuery = ", New: "\t\tif hasAfterID && afterID != 0 {\n\t\t\tnodeQuery = ", Expect: "C18-R5-zero-is-an-id"},
		Mutation{Name: "verify-plans-scan-from-manifest-counts", File: "retriever/verify.go",
			Old: "metricsEntry, err := collectDatabaseGraphMetrics(ctx, db, graphEntry.Name, batchSize, progress, progressInterval)",
			New: "metricsEntry, err := collectDatabaseGraphMetrics(ctx, db, graphEntry, batchSize, progress, progressInterval)", Expect: "C18-R4-scan-total",
			Also: []Edit{
				{"retriever/verify.go", "func collectDatabaseGraphMetrics(ctx context.Context, db graph.Database, graphName string, batchSize int,", "func collectDatabaseGraphMetrics(ctx context.Context, db graph.Database, graphEntry GraphManifest, batchSize int,"},
				{"retriever/verify.go", "\ttargetGraph := graph.Graph{\n\t\tName: graphName,\n\t}\n\n\tcountStartedAt := time.Now()", "\tgraphName := graphEntry.Name\n\ttargetGraph := graph.Graph{\n\t\tName: graphName,\n\t}\n\n\tcountStartedAt := time.Now()"},
				{"retriever/verify.go", "\tentitySnapshot, err := countGraphEntitySnapshot(ctx, db, targetGraph)\n\tif err != nil {\n\t\treturn GraphMetrics{}, err\n\t}\n\n\tslog.Info(\"retriever metrics graph counts ready\",", "\tentitySnapshot := graphEntitySnapshot{NodeCount: graphEntry.NodeCount, EdgeCount: graphEntry.EdgeCount}\n\n\tslog.Info(\"retriever metrics graph counts ready\","},
			}},
	)
	add("C19",
		Mutation{Name: "salt-digest-after-blanking", File: "retriever/dump_checkpoint.go",
			Old: "\t\tsalt := config.Salt\n\t\tconfig.Salt = \"\"\n", New: "\t\tconfig.Salt = \"\"\n", Expect: "C19-R6-identity|newDumpCheckpointIdentity:config.Salt",
			Also: []Edit{{"retriever/dump_checkpoint.go", "sha256Hex([]byte(salt))", "sha256Hex([]byte(config.Salt))"}}},
		Mutation{Name: "edge-cursor-advanced-after-flush", File: "retriever/dump.go",
			Old: "\t\tlastWrittenID = relationship.ID\n\t\thasLastWrittenID = true\n\n\t\tif fragmentWriter.Count() >= options.ShardSize {\n\t\t\tif err := flush(); err != nil {\n\t\t\t\treturn err\n\t\t\t}\n\t\t}\n",
			New: "\t\tif fragmentWriter.Count() >= options.ShardSize {\n\t\t\tif err := flush(); err != nil {\n\t\t\t\treturn err\n\t\t\t}\n\t\t}\n\t\tlastWrittenID = relationship.ID\n\t\thasLastWrittenID = true\n", Expect: "dumpEdgePhase:cursor"},
	)
	add("C20",
		Mutation{Name: "preflight-resolver-shared-across-graphs", File: "retriever/load.go",
			Old: "\tfor _, graphEntry := range nextManifest.Graphs {\n\t\tnodeIDs := newNodeIDResolver(graphEntry.NodeCount)\n",
			New: "\tnodeIDs := newNodeIDResolver(0)\n\tfor _, graphEntry := range nextManifest.Graphs {\n", Expect: "verifyCollectionFragments:newNodeIDResolver"},
		Mutation{Name: "reader-hashes-part-of-the-header", File: "retriever/archive_envelope.go",
			Old: "\t\trecipient:  recipient,\n\t\theaderHash: sha256.Sum256(headerBytes),", New: "\t\trecipient:  recipient,\n\t\theaderHash: sha256.Sum256(headerBytes[:len(headerBytes)/2]),", Expect: "header-hash-over-wire-bytes"},
	)
}
