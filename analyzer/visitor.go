package main

// E3 — visitor model of package cypher/frontend.

import (
	"fmt"
	"go/ast"
	"go/constant"
	"go/token"
	"go/types"
	"sort"
	"strings"

	"golang.org/x/tools/go/packages"
)

// ---- boolean guards over presence atoms ------------------------------------------

type bexpr struct {
	Op   string // "atom", "not", "and", "or", "true", "false"
	Atom string
	Kids []*bexpr
}

var bTrue = &bexpr{Op: "true"}
var bFalse = &bexpr{Op: "false"}

func bAnd(a, b *bexpr) *bexpr {
	if a.Op == "true" {
		return b
	}
	if b.Op == "true" {
		return a
	}
	if a.Op == "false" || b.Op == "false" {
		return bFalse
	}
	return &bexpr{Op: "and", Kids: []*bexpr{a, b}}
}
func bOr(a, b *bexpr) *bexpr {
	if a.Op == "false" {
		return b
	}
	if b.Op == "false" {
		return a
	}
	if a.Op == "true" || b.Op == "true" {
		return bTrue
	}
	return &bexpr{Op: "or", Kids: []*bexpr{a, b}}
}
func bNot(a *bexpr) *bexpr {
	switch a.Op {
	case "true":
		return bFalse
	case "false":
		return bTrue
	case "not":
		return a.Kids[0]
	}
	return &bexpr{Op: "not", Kids: []*bexpr{a}}
}
func bAtom(s string) *bexpr { return &bexpr{Op: "atom", Atom: s} }

func (b *bexpr) String() string {
	switch b.Op {
	case "atom":
		return b.Atom
	case "not":
		return "!" + b.Kids[0].String()
	case "and":
		return "(" + b.Kids[0].String() + " && " + b.Kids[1].String() + ")"
	case "or":
		return "(" + b.Kids[0].String() + " || " + b.Kids[1].String() + ")"
	}
	return b.Op
}

func (b *bexpr) atoms(set map[string]bool) {
	if b.Op == "atom" {
		set[b.Atom] = true
	}
	for _, k := range b.Kids {
		k.atoms(set)
	}
}

func (b *bexpr) eval(env map[string]bool) bool {
	switch b.Op {
	case "true":
		return true
	case "false":
		return false
	case "atom":
		return env[b.Atom]
	case "not":
		return !b.Kids[0].eval(env)
	case "and":
		return b.Kids[0].eval(env) && b.Kids[1].eval(env)
	case "or":
		return b.Kids[0].eval(env) || b.Kids[1].eval(env)
	}
	return false
}

// tri-valued evaluation against a grammar derivation: 1 true, 0 false, -1 unknown
func (b *bexpr) evalDeriv(d []string) int {
	switch b.Op {
	case "true":
		return 1
	case "false":
		return 0
	case "atom":
		return atomOnDeriv(b.Atom, d)
	case "not":
		v := b.Kids[0].evalDeriv(d)
		if v < 0 {
			return -1
		}
		return 1 - v
	case "and":
		x, y := b.Kids[0].evalDeriv(d), b.Kids[1].evalDeriv(d)
		if x == 0 || y == 0 {
			return 0
		}
		if x < 0 || y < 0 {
			return -1
		}
		return 1
	case "or":
		x, y := b.Kids[0].evalDeriv(d), b.Kids[1].evalDeriv(d)
		if x == 1 || y == 1 {
			return 1
		}
		if x < 0 || y < 0 {
			return -1
		}
		return 0
	}
	return -1
}

func atomOnDeriv(atom string, d []string) int {
	switch {
	case strings.HasPrefix(atom, "present("):
		sym := atom[len("present(") : len(atom)-1]
		for _, s := range d {
			if s == sym {
				return 1
			}
		}
		return 0
	case atom == "anyTerminal", strings.HasPrefix(atom, "scan:") && strings.Contains(atom, "antlr.Terminal"):
		// a scan of the children for terminal nodes: holds on a derivation that has a terminal
		for _, s := range d {
			if !strings.HasPrefix(s, "R:") {
				return 1
			}
		}
		return 0
	}
	return -1
}

// equivalent over all assignments of the union of atoms (≤ 12 atoms)
func bEquiv(a, b *bexpr) (bool, map[string]bool) {
	set := map[string]bool{}
	a.atoms(set)
	b.atoms(set)
	names := sortedKeys(set)
	if len(names) > 12 {
		return false, nil
	}
	for m := 0; m < 1<<len(names); m++ {
		env := map[string]bool{}
		for i, n := range names {
			env[n] = m&(1<<i) != 0
		}
		if a.eval(env) != b.eval(env) {
			return false, env
		}
	}
	return true, nil
}

// ---- handler events --------------------------------------------------------------

type stackEvent struct {
	Push  bool
	Type  string // visitor type pushed / asserted on pop; "" unknown
	Guard *bexpr
	Pos   token.Pos
	Via   string
}

type captureEvent struct {
	Kind  string // "text" (whole subtree), "token:NAME" presence, "count:NAME", "children" (all direct terminals), "rule:oC_X" typed child access
	Guard *bexpr
	Pos   token.Pos
}

type handlerInfo struct {
	Decl     *ast.FuncDecl
	Events   []stackEvent
	Captures []captureEvent
	AddsErr  *bexpr // guard under which ctx.AddErrors is called (or-ed), nil if never
	Opaque   bool   // contains constructs the extractor could not model on a push/pop path
	// field paths of the receiver the handler unconditionally sets to a non-nil value (`s.Clause.Match = NewMatch(…)`):
	// what the handlers of the rules below, run by the same visitor, may rely on
	Establishes []string
	// field paths of the receiver, of pointer type, that the handler looks through (`s.Clause.Match.Where`), each with the
	// guard under which it does
	Derefs []derefEvent
}

type derefEvent struct {
	Path  string
	Guard *bexpr
	Pos   token.Pos
}

type VisitorType struct {
	Name     string
	Named    *types.Named
	Enter    map[string]*handlerInfo // rule name (oC_X) -> handler declared on this type
	Exit     map[string]*handlerInfo
	IsFilter bool
}

type VisitorModel struct {
	pkg            *packages.Package
	run            *Run
	Types          map[string]*VisitorType
	BaseKind       map[string]string // "Enter:oC_X" -> "unsupported"|"empty"|"other"
	ctxEnter       *types.Func
	ctxExit        *types.Func
	ctxAddErrs     *types.Func
	decls          map[*types.Func]*ast.FuncDecl
	Root           string
	tokenConst     map[string]string // const name CypherLexerX / CypherParserX -> X
	errHelperDepth int
}

func ruleOfMethod(name string) (kind, rule string, ok bool) {
	if strings.HasPrefix(name, "EnterOC_") {
		return "Enter", "oC_" + name[len("EnterOC_"):], true
	}
	if strings.HasPrefix(name, "ExitOC_") {
		return "Exit", "oC_" + name[len("ExitOC_"):], true
	}
	return "", "", false
}

func BuildVisitorModel(r *Run) *VisitorModel {
	pkg := r.MustPkg("cypher/frontend")
	vm := &VisitorModel{pkg: pkg, run: r, Types: map[string]*VisitorType{}, BaseKind: map[string]string{}, decls: map[*types.Func]*ast.FuncDecl{}}
	scope := pkg.Types.Scope()
	ctxObj, _ := scope.Lookup("Context").(*types.TypeName)
	baseObj, _ := scope.Lookup("BaseVisitor").(*types.TypeName)
	if ctxObj == nil || baseObj == nil {
		r.Fatal("frontend.Context / frontend.BaseVisitor not found")
	}
	ms := types.NewMethodSet(types.NewPointer(ctxObj.Type()))
	for i := 0; i < ms.Len(); i++ {
		fn := ms.At(i).Obj().(*types.Func)
		switch fn.Name() {
		case "Enter":
			vm.ctxEnter = fn
		case "Exit":
			vm.ctxExit = fn
		case "AddErrors":
			vm.ctxAddErrs = fn
		}
	}
	if vm.ctxEnter == nil || vm.ctxExit == nil || vm.ctxAddErrs == nil {
		r.Fatal("Context.Enter/Exit/AddErrors not found")
	}
	for _, f := range pkg.Syntax {
		for _, d := range f.Decls {
			if fd, ok := d.(*ast.FuncDecl); ok {
				if fn, ok := pkg.TypesInfo.Defs[fd.Name].(*types.Func); ok {
					vm.decls[fn] = fd
				}
			}
		}
	}
	// visitor types: named struct types embedding BaseVisitor (directly)
	for _, name := range scope.Names() {
		tn, ok := scope.Lookup(name).(*types.TypeName)
		if !ok || tn == baseObj {
			continue
		}
		st, ok := tn.Type().Underlying().(*types.Struct)
		if !ok {
			continue
		}
		emb := false
		for i := 0; i < st.NumFields(); i++ {
			if st.Field(i).Embedded() && types.Identical(st.Field(i).Type(), baseObj.Type()) {
				emb = true
			}
		}
		if !emb {
			continue
		}
		vt := &VisitorType{Name: name, Named: tn.Type().(*types.Named), Enter: map[string]*handlerInfo{}, Exit: map[string]*handlerInfo{}}
		vm.Types[name] = vt
	}
	// handlers
	for fn, fd := range vm.decls {
		sig := fn.Type().(*types.Signature)
		if sig.Recv() == nil {
			continue
		}
		recv := namedName(sig.Recv().Type())
		kind, rule, ok := ruleOfMethod(fn.Name())
		if !ok {
			continue
		}
		if recv == "BaseVisitor" {
			vm.BaseKind[kind+":"+rule] = vm.classifyBase(fd)
			continue
		}
		vt := vm.Types[recv]
		if vt == nil {
			continue
		}
		hi := vm.analyseHandler(fd)
		if kind == "Enter" {
			vt.Enter[rule] = hi
		} else {
			vt.Exit[rule] = hi
		}
	}
	return vm
}

func (vm *VisitorModel) classifyBase(fd *ast.FuncDecl) string {
	if fd.Body == nil || len(fd.Body.List) == 0 {
		return "empty"
	}
	if len(fd.Body.List) == 1 {
		if es, ok := fd.Body.List[0].(*ast.ExprStmt); ok {
			if call, ok := es.X.(*ast.CallExpr); ok {
				if fn := calleeOf(vm.pkg.TypesInfo, call); fn != nil && vm.alwaysAddsError(fn, 0) {
					return "unsupported"
				}
			}
		}
	}
	return "other"
}

// alwaysAddsError: the function's body is straight-line and calls Context.AddErrors with a
// non-nil-able error value (composite literal, or package-level error variable).
func (vm *VisitorModel) alwaysAddsError(fn *types.Func, depth int) bool {
	fd := vm.decls[fn]
	if fd == nil || fd.Body == nil || depth > 2 {
		return false
	}
	for _, st := range fd.Body.List {
		es, ok := st.(*ast.ExprStmt)
		if !ok {
			continue
		}
		call, ok := es.X.(*ast.CallExpr)
		if !ok {
			continue
		}
		callee := calleeOf(vm.pkg.TypesInfo, call)
		if callee == vm.ctxAddErrs && len(call.Args) > 0 && vm.nonNilError(call.Args[0]) {
			return true
		}
		if callee != nil && vm.alwaysAddsError(callee, depth+1) {
			return true
		}
	}
	return false
}

func (vm *VisitorModel) nonNilError(e ast.Expr) bool {
	e = ast.Unparen(e)
	// a value of a struct (or other non-pointer, non-interface) type is never a nil error once it is converted to the
	// interface — whatever expression produced it (a literal, a helper that returns the struct)
	if tv, ok := vm.pkg.TypesInfo.Types[e]; ok && tv.Type != nil && !tv.IsNil() {
		switch tv.Type.Underlying().(type) {
		case *types.Struct, *types.Basic, *types.Array:
			if _, isNamed := tv.Type.(*types.Named); isNamed {
				return true
			}
		}
	}
	switch x := e.(type) {
	case *ast.CompositeLit:
		return true
	case *ast.UnaryExpr:
		if x.Op == token.AND {
			_, ok := ast.Unparen(x.X).(*ast.CompositeLit)
			return ok
		}
	case *ast.Ident:
		if v, ok := vm.pkg.TypesInfo.Uses[x].(*types.Var); ok && v.Parent() == vm.pkg.Types.Scope() {
			return vm.pkgVarIsConstError(v)
		}
	case *ast.CallExpr:
		if fn := calleeOf(vm.pkg.TypesInfo, x); fn != nil {
			full := funcFullName(fn)
			if full == "fmt.Errorf" || full == "errors.New" {
				return true
			}
			// a helper of the package that builds the error: every return hands back a non-nil error, except returns of nil
			// under a condition that cannot hold for a rule context the walker delivers (see antlrAxiomFalse)
			if fd := vm.decls[fn]; fd != nil && fd.Body != nil && fn.Pkg() == vm.pkg.Types && vm.errHelperDepth < 2 {
				vm.errHelperDepth++
				defer func() { vm.errHelperDepth-- }()
				all, n := true, 0
				ast.Inspect(fd.Body, func(m ast.Node) bool {
					if _, isLit := m.(*ast.FuncLit); isLit {
						return false
					}
					ret, ok := m.(*ast.ReturnStmt)
					if !ok {
						return true
					}
					n++
					if len(ret.Results) != 1 {
						all = false
						return true
					}
					if vm.nonNilError(ret.Results[0]) {
						return true
					}
					dead := false
					for _, lit := range controlConds(fd.Body, ret) {
						if !lit.Neg && vm.antlrAxiomFalse(fd, lit.Expr) {
							dead = true
						}
					}
					if !dead {
						all = false
					}
					return true
				})
				return all && n > 0
			}
		}
	}
	return false
}

// antlrAxiomFalse: conditions that cannot hold for a rule context the tree walker hands to a listener after a parse
// without syntax errors (with syntax errors the query is rejected anyway). The ANTLR runtime sets a rule's start token
// when the rule is entered (never nil), and every token taken from the token stream has an index ≥ 0; only tokens that
// error recovery conjures up carry the index -1. These two facts about the runtime are assumptions of the analysis, not
// something it derives.
func (vm *VisitorModel) antlrAxiomFalse(fd *ast.FuncDecl, e ast.Expr) bool {
	info := vm.pkg.TypesInfo
	e = ast.Unparen(e)
	be, ok := e.(*ast.BinaryExpr)
	if !ok {
		return false
	}
	switch be.Op {
	case token.LOR:
		return vm.antlrAxiomFalse(fd, be.X) && vm.antlrAxiomFalse(fd, be.Y)
	case token.LAND:
		return vm.antlrAxiomFalse(fd, be.X) || vm.antlrAxiomFalse(fd, be.Y)
	}
	isStartOfRule := func(x ast.Expr) bool {
		x = ast.Unparen(x)
		if id, isId := x.(*ast.Ident); isId {
			x = ast.Unparen(resolveLocalCopy(info, fd.Body, id))
		}
		call, isCall := x.(*ast.CallExpr)
		if !isCall || len(call.Args) != 0 {
			return false
		}
		sel, isSel := ast.Unparen(call.Fun).(*ast.SelectorExpr)
		return isSel && sel.Sel.Name == "GetStart" && vm.isRuleCtxType(info.TypeOf(sel.X))
	}
	switch be.Op {
	case token.EQL:
		if isNilIdent(info, ast.Unparen(be.Y)) && isStartOfRule(be.X) {
			return true
		}
	}
	// <start>.GetTokenIndex() < c (c ≤ 0), <= c or == c (c < 0)
	if call, isCall := ast.Unparen(be.X).(*ast.CallExpr); isCall && len(call.Args) == 0 {
		if sel, isSel := ast.Unparen(call.Fun).(*ast.SelectorExpr); isSel && sel.Sel.Name == "GetTokenIndex" && isStartOfRule(sel.X) {
			if tv, has := info.Types[be.Y]; has && tv.Value != nil {
				if c, exact := constantInt64(tv); exact {
					switch be.Op {
					case token.LSS:
						return c <= 0
					case token.LEQ, token.EQL:
						return c < 0
					}
				}
			}
		}
	}
	return false
}

// pkgVarIsConstError: package-level var initialised with errors.New / fmt.Errorf and never reassigned in the package.
func (vm *VisitorModel) pkgVarIsConstError(v *types.Var) bool {
	initOK := false
	for _, f := range vm.pkg.Syntax {
		for _, d := range f.Decls {
			gd, ok := d.(*ast.GenDecl)
			if !ok || gd.Tok != token.VAR {
				continue
			}
			for _, sp := range gd.Specs {
				vs := sp.(*ast.ValueSpec)
				for i, n := range vs.Names {
					if vm.pkg.TypesInfo.Defs[n] == v && i < len(vs.Values) {
						if call, ok := vs.Values[i].(*ast.CallExpr); ok {
							if fn := calleeOf(vm.pkg.TypesInfo, call); fn != nil {
								full := funcFullName(fn)
								initOK = full == "errors.New" || full == "fmt.Errorf"
							}
						}
					}
				}
			}
		}
	}
	if !initOK {
		return false
	}
	reassigned := false
	for _, f := range vm.pkg.Syntax {
		ast.Inspect(f, func(n ast.Node) bool {
			switch a := n.(type) {
			case *ast.AssignStmt:
				for _, l := range a.Lhs {
					if id, ok := ast.Unparen(l).(*ast.Ident); ok && vm.pkg.TypesInfo.Uses[id] == v {
						reassigned = true
					}
				}
			case *ast.UnaryExpr:
				if a.Op == token.AND {
					if id, ok := ast.Unparen(a.X).(*ast.Ident); ok && vm.pkg.TypesInfo.Uses[id] == v {
						reassigned = true // address taken: could be written through
					}
				}
			}
			return true
		})
	}
	return !reassigned
}

// ---- handler body walk -------------------------------------------------------------

type hwalk struct {
	vm    *VisitorModel
	hi    *handlerInfo
	defs  map[types.Object]ast.Expr
	depth int
	via   string
	// the object(s) standing for the rule context in the current frame
	ctxObjs map[types.Object]bool
	// element variables of `range <ctx>.All…()` loops
	rangeElems map[types.Object]bool
	// the receiver of the handler being walked (nil inside helpers)
	recv types.Object
	// `v, ok := f(ctx)`: which call and which result a local stands for
	tupleDefs map[types.Object]tupleDef
	// the returns met while walking, with the guard under which each is reached and the guard under which each boolean
	// result is true
	rets []retEvent
}

type tupleDef struct {
	call *ast.CallExpr
	idx  int
}

type retEvent struct {
	g     *bexpr
	conds []*bexpr // per result; nil for a result that is not boolean
}

func (vm *VisitorModel) analyseHandler(fd *ast.FuncDecl) *handlerInfo {
	hi := &handlerInfo{Decl: fd}
	w := &hwalk{vm: vm, hi: hi, defs: map[types.Object]ast.Expr{}, ctxObjs: map[types.Object]bool{}}
	if fd.Recv != nil && len(fd.Recv.List) == 1 && len(fd.Recv.List[0].Names) == 1 {
		w.recv = vm.pkg.TypesInfo.Defs[fd.Recv.List[0].Names[0]]
	}
	if fd.Type.Params != nil {
		for _, p := range fd.Type.Params.List {
			for _, n := range p.Names {
				if obj := vm.pkg.TypesInfo.Defs[n]; obj != nil && vm.isRuleCtxType(obj.Type()) {
					w.ctxObjs[obj] = true
				}
			}
		}
	}
	if fd.Body != nil {
		w.stmts(fd.Body.List, bTrue)
		vm.childTextCaptures(fd, hi)
	}
	return hi
}

// childTextCaptures: `switch c := child.(type) { case *parser.OC_XContext: ... c.GetText() ... }` inside a handler
// that iterates the rule context's children consumes the whole text of child rule X.
func (vm *VisitorModel) childTextCaptures(fd *ast.FuncDecl, hi *handlerInfo) {
	info := vm.pkg.TypesInfo
	ast.Inspect(fd.Body, func(n ast.Node) bool {
		ts, ok := n.(*ast.TypeSwitchStmt)
		if !ok {
			return true
		}
		for _, c := range ts.Body.List {
			cc := c.(*ast.CaseClause)
			if len(cc.List) != 1 {
				continue
			}
			tv, ok := info.Types[cc.List[0]]
			if !ok {
				continue
			}
			nt := namedOf(tv.Type)
			if nt == nil || nt.Obj().Pkg() == nil || !strings.HasSuffix(nt.Obj().Pkg().Path(), "cypher/parser") {
				continue
			}
			name := nt.Obj().Name()
			if !strings.HasPrefix(name, "OC_") || !strings.HasSuffix(name, "Context") {
				continue
			}
			implicit := info.Implicits[cc]
			reads := false
			for _, st := range cc.Body {
				ast.Inspect(st, func(m ast.Node) bool {
					if call, ok := m.(*ast.CallExpr); ok {
						if sel, ok := call.Fun.(*ast.SelectorExpr); ok && sel.Sel.Name == "GetText" {
							if id, ok := sel.X.(*ast.Ident); ok && implicit != nil && info.Uses[id] == implicit {
								reads = true
							}
						}
						// the child is handed to a helper that reads its text
						if fn := calleeOf(info, call); fn != nil && fn.Pkg() == vm.pkg.Types && implicit != nil {
							for i, a := range call.Args {
								if id, ok := ast.Unparen(a).(*ast.Ident); ok && info.Uses[id] == implicit && vm.paramTextRead(fn, i) {
									reads = true
								}
							}
						}
					}
					return true
				})
			}
			if reads {
				rule := "oC_" + strings.TrimSuffix(name[3:], "Context")
				hi.Captures = append(hi.Captures, captureEvent{Kind: "childtext:" + rule, Guard: bTrue, Pos: cc.Pos()})
			}
		}
		return true
	})
}

// paramTextRead: the function calls GetText() on its idx-th parameter.
func (vm *VisitorModel) paramTextRead(fn *types.Func, idx int) bool {
	info := vm.pkg.TypesInfo
	fd := vm.decls[fn]
	if fd == nil || fd.Body == nil || fd.Type.Params == nil {
		return false
	}
	var param types.Object
	n := 0
	for _, p := range fd.Type.Params.List {
		for _, nm := range p.Names {
			if n == idx {
				param = info.Defs[nm]
			}
			n++
		}
	}
	if param == nil {
		return false
	}
	reads := false
	ast.Inspect(fd.Body, func(m ast.Node) bool {
		if call, ok := m.(*ast.CallExpr); ok {
			if sel, ok := call.Fun.(*ast.SelectorExpr); ok && sel.Sel.Name == "GetText" {
				if id, ok := sel.X.(*ast.Ident); ok && info.Uses[id] == param {
					reads = true
				}
			}
		}
		return !reads
	})
	return reads
}

// isRuleCtxType: pointer to a parser rule context, or an interface satisfied by them (TokenProvider, antlr.ParserRuleContext).
func (vm *VisitorModel) isRuleCtxType(t types.Type) bool {
	if n := namedOf(t); n != nil {
		name := n.Obj().Name()
		if n.Obj().Pkg() != nil && strings.HasSuffix(n.Obj().Pkg().Path(), "cypher/parser") && strings.HasPrefix(name, "OC_") && strings.HasSuffix(name, "Context") {
			return true
		}
		if name == "TokenProvider" || name == "ParserRuleContext" || name == "RuleContext" || name == "ParseTree" {
			return true
		}
		if strings.HasPrefix(name, "IOC_") && strings.HasSuffix(name, "Context") {
			return true
		}
	}
	return false
}

// stmts walks a statement list under guard g and returns the guard that holds after
// the list (false if the list always terminates).
func (w *hwalk) stmts(list []ast.Stmt, g *bexpr) *bexpr {
	for _, st := range list {
		g = w.stmt(st, g)
	}
	return g
}

func (w *hwalk) stmt(st ast.Stmt, g *bexpr) *bexpr {
	info := w.vm.pkg.TypesInfo
	switch s := st.(type) {
	case nil:
		return g
	case *ast.BlockStmt:
		return w.stmts(s.List, g)
	case *ast.ExprStmt:
		w.expr(s.X, g)
	case *ast.AssignStmt:
		for _, r := range s.Rhs {
			w.expr(r, g)
		}
		for _, l := range s.Lhs {
			w.expr(l, g)
		}
		if len(s.Lhs) > 1 && len(s.Rhs) == 1 && s.Tok == token.DEFINE {
			if call, isCall := ast.Unparen(s.Rhs[0]).(*ast.CallExpr); isCall {
				for i, l := range s.Lhs {
					if id, ok := l.(*ast.Ident); ok && info.Defs[id] != nil {
						if w.tupleDefs == nil {
							w.tupleDefs = map[types.Object]tupleDef{}
						}
						w.tupleDefs[info.Defs[id]] = tupleDef{call, i}
					}
				}
			}
		}
		if len(s.Lhs) == len(s.Rhs) && g.Op == "true" && w.recv != nil {
			for i, l := range s.Lhs {
				if p := w.recvPath(l); p != "" && w.vm.freshPointer(s.Rhs[i], 0) {
					w.hi.Establishes = append(w.hi.Establishes, p)
				}
			}
		}
		if len(s.Lhs) == len(s.Rhs) {
			for i, l := range s.Lhs {
				if id, ok := l.(*ast.Ident); ok {
					obj := info.Defs[id]
					if obj == nil {
						obj = info.Uses[id]
					}
					if obj != nil {
						if s.Tok == token.DEFINE {
							w.defs[obj] = s.Rhs[i]
						} else {
							delete(w.defs, obj)
						}
					}
				}
			}
		}
	case *ast.DeclStmt:
		if gd, ok := s.Decl.(*ast.GenDecl); ok {
			for _, sp := range gd.Specs {
				if vs, ok := sp.(*ast.ValueSpec); ok {
					for i, v := range vs.Values {
						w.expr(v, g)
						if i < len(vs.Names) {
							if obj := info.Defs[vs.Names[i]]; obj != nil {
								w.defs[obj] = v
							}
						}
					}
				}
			}
		}
	case *ast.IfStmt:
		g0 := w.stmt(s.Init, g)
		w.expr(s.Cond, g0)
		c := w.cond(s.Cond)
		thenIn, elseIn := bAnd(g0, c), bAnd(g0, bNot(c))
		thenOut := w.stmts(s.Body.List, thenIn)
		elseOut := elseIn
		if s.Else != nil {
			elseOut = w.stmt(s.Else, elseIn)
		}
		if thenOut == thenIn && elseOut == elseIn {
			return g0 // neither branch leaves: the guard after the statement is the guard before it
		}
		return bOr(thenOut, elseOut)
	case *ast.ReturnStmt:
		ev := retEvent{g: g}
		for _, r := range s.Results {
			w.expr(r, g)
			var c *bexpr
			if tv, has := info.Types[r]; has {
				if b, isBasic := tv.Type.Underlying().(*types.Basic); isBasic && b.Info()&types.IsBoolean != 0 {
					switch {
					case tv.Value != nil && constant.BoolVal(tv.Value):
						c = bTrue
					case tv.Value != nil:
						c = bFalse
					default:
						c = w.cond(r)
					}
				}
			}
			ev.conds = append(ev.conds, c)
		}
		w.rets = append(w.rets, ev)
		return bFalse
	case *ast.SwitchStmt:
		g0 := w.stmt(s.Init, g)
		if s.Tag != nil {
			w.expr(s.Tag, g0)
		}
		out := bFalse
		hasDefault := false
		prior := bTrue
		for i, cc := range s.Body.List {
			cl := cc.(*ast.CaseClause)
			var c *bexpr
			if cl.List == nil {
				hasDefault = true
				c = prior
			} else if s.Tag == nil {
				var any *bexpr = bFalse
				for _, e := range cl.List {
					w.expr(e, g0)
					any = bOr(any, w.cond(e))
				}
				c = bAnd(prior, any)
				prior = bAnd(prior, bNot(any))
			} else {
				a := bAtom(fmt.Sprintf("opaque:switch@%d#%d", w.vm.pkg.Fset.Position(s.Pos()).Line, i))
				for _, e := range cl.List {
					w.expr(e, g0)
				}
				c = a
			}
			out = bOr(out, w.stmts(cl.Body, bAnd(g0, c)))
		}
		if !hasDefault {
			out = bOr(out, g0)
		}
		return out
	case *ast.TypeSwitchStmt:
		g0 := w.stmt(s.Init, g)
		w.stmt(s.Assign, g0)
		out := g0
		for i, cc := range s.Body.List {
			cl := cc.(*ast.CaseClause)
			a := bAtom(fmt.Sprintf("opaque:typeswitch@%d#%d", w.vm.pkg.Fset.Position(s.Pos()).Line, i))
			out = bOr(out, w.stmts(cl.Body, bAnd(g0, a)))
		}
		return out
	case *ast.ForStmt:
		g0 := w.stmt(s.Init, g)
		if s.Cond != nil {
			w.expr(s.Cond, g0)
		}
		a := bAtom(fmt.Sprintf("opaque:loop@%d", w.vm.pkg.Fset.Position(s.Pos()).Line))
		before := len(w.hi.Events)
		w.stmts(s.Body.List, bAnd(g0, a))
		w.stmt(s.Post, bAnd(g0, a))
		if len(w.hi.Events) != before {
			w.hi.Opaque = true // push/pop inside a loop: count unknown
		}
		return g0
	case *ast.RangeStmt:
		w.expr(s.X, g)
		if name, _, ok := w.ctxAccessor(w.resolve(ast.Unparen(s.X))); ok && strings.HasPrefix(name, "All") {
			if id, isId := s.Value.(*ast.Ident); isId && s.Value != nil {
				if obj := info.Defs[id]; obj != nil {
					if w.rangeElems == nil {
						w.rangeElems = map[types.Object]bool{}
					}
					w.rangeElems[obj] = true
				}
			}
		}
		a := bAtom(fmt.Sprintf("opaque:loop@%d", w.vm.pkg.Fset.Position(s.Pos()).Line))
		before := len(w.hi.Events)
		w.stmts(s.Body.List, bAnd(g, a))
		if len(w.hi.Events) != before {
			w.hi.Opaque = true
		}
		return g
	case *ast.IncDecStmt:
		w.expr(s.X, g)
	case *ast.DeferStmt:
		before := len(w.hi.Events)
		w.expr(s.Call, g)
		if len(w.hi.Events) != before {
			w.hi.Opaque = true
		}
	case *ast.GoStmt:
		w.hi.Opaque = true
	case *ast.BranchStmt, *ast.EmptyStmt, *ast.LabeledStmt:
	default:
		w.hi.Opaque = true
	}
	return g
}

// expr scans an expression in evaluation order for stack events, captures and helper calls.
func (w *hwalk) expr(e ast.Expr, g *bexpr) {
	if e == nil {
		return
	}
	info := w.vm.pkg.TypesInfo
	switch x := e.(type) {
	case *ast.CallExpr:
		// args first (evaluation order: function value, then args, then the call)
		if sel, ok := ast.Unparen(x.Fun).(*ast.SelectorExpr); ok {
			w.expr(sel.X, g)
		}
		for _, a := range x.Args {
			w.expr(a, g)
		}
		fn := calleeOf(info, x)
		switch {
		case fn != nil && fn == w.vm.ctxEnter:
			t := ""
			if len(x.Args) == 1 {
				t = w.vm.visitorTypeOfExpr(x.Args[0], 0)
			}
			w.hi.Events = append(w.hi.Events, stackEvent{Push: true, Type: t, Guard: g, Pos: x.Pos(), Via: w.via})
		case fn != nil && fn == w.vm.ctxExit:
			w.hi.Events = append(w.hi.Events, stackEvent{Push: false, Type: "", Guard: g, Pos: x.Pos(), Via: w.via})
		case fn != nil && fn == w.vm.ctxAddErrs:
			if w.hi.AddsErr == nil {
				w.hi.AddsErr = g
			} else {
				w.hi.AddsErr = bOr(w.hi.AddsErr, g)
			}
		default:
			w.capture(x, fn, g)
			if fn != nil && fn.Pkg() == w.vm.pkg.Types && w.depth < 3 {
				if fd := w.vm.decls[fn]; fd != nil && fd.Body != nil {
					if _, _, isHandler := ruleOfMethod(fn.Name()); !isHandler || true {
						w.inline(x, fn, fd, g)
					}
				}
			}
		}
	case *ast.TypeAssertExpr:
		before := len(w.hi.Events)
		w.expr(x.X, g)
		// pop with asserted type
		if call, ok := ast.Unparen(x.X).(*ast.CallExpr); ok && calleeOf(info, call) == w.vm.ctxExit && len(w.hi.Events) > before && x.Type != nil {
			if tv, ok := info.Types[x.Type]; ok {
				w.hi.Events[len(w.hi.Events)-1].Type = namedName(tv.Type)
			}
		}
	case *ast.FuncLit:
		before := len(w.hi.Events)
		w.stmts(x.Body.List, bAnd(g, bAtom(fmt.Sprintf("opaque:closure@%d", w.vm.pkg.Fset.Position(x.Pos()).Line))))
		if len(w.hi.Events) != before {
			w.hi.Opaque = true
		}
	case *ast.BinaryExpr:
		w.expr(x.X, g)
		if x.Op == token.LAND {
			w.expr(x.Y, bAnd(g, w.cond(x.X)))
		} else if x.Op == token.LOR {
			w.expr(x.Y, bAnd(g, bNot(w.cond(x.X))))
		} else {
			w.expr(x.Y, g)
		}
	case *ast.ParenExpr:
		w.expr(x.X, g)
	case *ast.UnaryExpr:
		w.expr(x.X, g)
	case *ast.StarExpr:
		w.expr(x.X, g)
	case *ast.SelectorExpr:
		w.expr(x.X, g)
		if p := w.recvPath(x.X); p != "" && w.depth == 0 {
			if _, isPtr := w.vm.pkg.TypesInfo.TypeOf(x.X).Underlying().(*types.Pointer); isPtr {
				w.hi.Derefs = append(w.hi.Derefs, derefEvent{Path: p, Guard: g, Pos: x.Pos()})
			}
		}
	case *ast.IndexExpr:
		w.expr(x.X, g)
		w.expr(x.Index, g)
	case *ast.SliceExpr:
		w.expr(x.X, g)
		w.expr(x.Low, g)
		w.expr(x.High, g)
		w.expr(x.Max, g)
	case *ast.CompositeLit:
		for _, el := range x.Elts {
			w.expr(el, g)
		}
	case *ast.KeyValueExpr:
		w.expr(x.Key, g)
		w.expr(x.Value, g)
	}
}

func (w *hwalk) inline(call *ast.CallExpr, fn *types.Func, fd *ast.FuncDecl, g *bexpr) {
	info := w.vm.pkg.TypesInfo
	sub := &hwalk{vm: w.vm, hi: w.hi, defs: map[types.Object]ast.Expr{}, depth: w.depth + 1, via: fn.Name(), ctxObjs: map[types.Object]bool{}}
	// bind parameters that receive the rule context
	idx := 0
	if fd.Type.Params != nil {
		for _, p := range fd.Type.Params.List {
			for _, n := range p.Names {
				if idx < len(call.Args) {
					if w.isCtxExpr(call.Args[idx]) {
						if obj := info.Defs[n]; obj != nil {
							sub.ctxObjs[obj] = true
						}
					}
				}
				idx++
			}
		}
	}
	if len(sub.ctxObjs) == 0 {
		// helper does not receive the rule context: still inline for stack events only if it
		// (transitively) touches the visitor stack
		if !w.vm.touchesStack(fn, 0, map[*types.Func]bool{}) {
			return
		}
	}
	sub.stmts(fd.Body.List, g)
	if len(sub.ctxObjs) > 0 {
		// a helper that is handed the rule context may read the text of child rules for the handler
		w.vm.childTextCaptures(fd, w.hi)
	}
}

func (vm *VisitorModel) touchesStack(fn *types.Func, depth int, seen map[*types.Func]bool) bool {
	if seen[fn] || depth > 3 {
		return false
	}
	seen[fn] = true
	fd := vm.decls[fn]
	if fd == nil || fd.Body == nil {
		return false
	}
	found := false
	ast.Inspect(fd.Body, func(n ast.Node) bool {
		if call, ok := n.(*ast.CallExpr); ok {
			c := calleeOf(vm.pkg.TypesInfo, call)
			if c == vm.ctxEnter || c == vm.ctxExit || c == vm.ctxAddErrs {
				found = true
			} else if c != nil && c.Pkg() == vm.pkg.Types && vm.touchesStack(c, depth+1, seen) {
				found = true
			}
		}
		return !found
	})
	return found
}

func (w *hwalk) isCtxExpr(e ast.Expr) bool {
	e = ast.Unparen(e)
	if id, ok := e.(*ast.Ident); ok {
		obj := w.vm.pkg.TypesInfo.Uses[id]
		if w.ctxObjs[obj] {
			return true
		}
	}
	return false
}

// resolve follows local single-assignment definitions.
func (w *hwalk) resolve(e ast.Expr) ast.Expr {
	for i := 0; i < 4; i++ {
		e = ast.Unparen(e)
		id, ok := e.(*ast.Ident)
		if !ok {
			return e
		}
		obj := w.vm.pkg.TypesInfo.Uses[id]
		def, ok := w.defs[obj]
		if !ok {
			return e
		}
		e = def
	}
	return e
}

func (w *hwalk) tokenName(e ast.Expr) string {
	e = ast.Unparen(e)
	var id *ast.Ident
	switch x := e.(type) {
	case *ast.Ident:
		id = x
	case *ast.SelectorExpr:
		id = x.Sel
	}
	if id == nil {
		return ""
	}
	obj := w.vm.pkg.TypesInfo.Uses[id]
	if c, ok := obj.(*types.Const); ok && c.Pkg() != nil && strings.HasSuffix(c.Pkg().Path(), "cypher/parser") {
		n := c.Name()
		n = strings.TrimPrefix(n, "CypherLexer")
		n = strings.TrimPrefix(n, "CypherParser")
		return n
	}
	if v, ok := obj.(*types.Var); ok && v.Pkg() == w.vm.pkg.Types && strings.HasPrefix(v.Name(), "TokenType") {
		return "lit:" + w.vm.tokenTypeLiteral(v)
	}
	return ""
}

// tokenTypeLiteral: var TokenTypeX = findTokenRuleIndex("lit")
func (vm *VisitorModel) tokenTypeLiteral(v *types.Var) string {
	for _, f := range vm.pkg.Syntax {
		for _, d := range f.Decls {
			gd, ok := d.(*ast.GenDecl)
			if !ok || gd.Tok != token.VAR {
				continue
			}
			for _, sp := range gd.Specs {
				vs := sp.(*ast.ValueSpec)
				for i, n := range vs.Names {
					if vm.pkg.TypesInfo.Defs[n] == v && i < len(vs.Values) {
						if call, ok := vs.Values[i].(*ast.CallExpr); ok && len(call.Args) == 1 {
							if bl, ok := call.Args[0].(*ast.BasicLit); ok {
								return strings.Trim(bl.Value, "\"")
							}
						}
					}
				}
			}
		}
	}
	return "?"
}

// ctxAccessor: e is <ctx>.M(args) with <ctx> the rule context; returns method name and args.
func (w *hwalk) ctxAccessor(e ast.Expr) (string, []ast.Expr, bool) {
	call, ok := ast.Unparen(e).(*ast.CallExpr)
	if !ok {
		return "", nil, false
	}
	sel, ok := ast.Unparen(call.Fun).(*ast.SelectorExpr)
	if !ok {
		return "", nil, false
	}
	if !w.isCtxExpr(sel.X) {
		return "", nil, false
	}
	return sel.Sel.Name, call.Args, true
}

func symOfAccessor(name string) string {
	all := strings.HasPrefix(name, "All")
	if all {
		name = name[3:]
	}
	if strings.HasPrefix(name, "OC_") {
		return "R:oC_" + name[3:]
	}
	return "T:" + name
}

func isStdCtxMethod(name string) bool {
	switch name {
	case "GetText", "GetToken", "GetTokens", "GetChild", "GetChildren", "GetChildCount", "GetStart", "GetStop", "GetRuleIndex",
		"GetParser", "GetRuleContext", "GetParent", "ToStringTree", "GetTypedRuleContext", "GetTypedRuleContexts", "GetPayload",
		"GetSourceInterval", "IsEmpty", "EnterRule", "ExitRule", "Accept", "GetAltNumber", "GetInvokingState", "GetBaseRuleContext":
		return true
	}
	return false
}

// cond converts a Go boolean expression into a guard over presence atoms.
func (w *hwalk) cond(e ast.Expr) *bexpr {
	e = ast.Unparen(e)
	info := w.vm.pkg.TypesInfo
	switch x := e.(type) {
	case *ast.UnaryExpr:
		if x.Op == token.NOT {
			return bNot(w.cond(x.X))
		}
	case *ast.BinaryExpr:
		switch x.Op {
		case token.LAND:
			return bAnd(w.cond(x.X), w.cond(x.Y))
		case token.LOR:
			return bOr(w.cond(x.X), w.cond(x.Y))
		case token.NEQ, token.EQL:
			// <ctx>.X() != nil ; <ctx>.GetToken(T, 0) != nil
			l, r := ast.Unparen(x.X), ast.Unparen(x.Y)
			if isNilIdent(info, l) {
				l, r = r, l
			}
			if isNilIdent(info, r) {
				if p := w.recvPath(l); p != "" {
					a := bAtom("state:nonnil(" + p + ")")
					if x.Op == token.EQL {
						return bNot(a)
					}
					return a
				}
				l = w.resolve(l)
				if name, args, ok := w.ctxAccessor(l); ok {
					var a *bexpr
					if name == "GetToken" && len(args) == 2 {
						if tn := w.tokenName(args[0]); tn != "" {
							a = bAtom("present(" + tokSym(tn) + ")")
						}
					} else if !isStdCtxMethod(name) && !strings.HasPrefix(name, "All") {
						a = bAtom("present(" + symOfAccessor(name) + ")")
					}
					if a != nil {
						if x.Op == token.EQL {
							return bNot(a)
						}
						return a
					}
				}
			}
			fallthrough
		case token.GTR, token.LSS, token.GEQ, token.LEQ:
			// len(<ctx>.AllX()) > 0 etc.
			if a, ok := w.lenCompare(x); ok {
				return a
			}
		}
	case *ast.Ident:
		if td, has := w.tupleDefs[info.Uses[x]]; has {
			if b := w.boolResult(td.call, td.idx); b != nil {
				return b
			}
		}
	case *ast.CallExpr:
		fn := calleeOf(info, x)
		if a := w.scanAtom(x); a != "" {
			return bAtom(a)
		}
		if fn != nil && fn.Pkg() == w.vm.pkg.Types && fn.Name() == "HasTokens" && len(x.Args) >= 2 && w.isCtxExpr(x.Args[0]) {
			var out *bexpr = bTrue
			for _, a := range x.Args[1:] {
				tn := w.tokenName(a)
				if tn == "" {
					return w.opaqueAtom(e)
				}
				out = bAnd(out, bAtom("present("+tokSym(tn)+")"))
			}
			return out
		}
		// <iter>.HasTokens() where iter := newTokenLiteralIterator(<ctx>)
		if sel, ok := ast.Unparen(x.Fun).(*ast.SelectorExpr); ok && sel.Sel.Name == "HasTokens" {
			recv := w.resolve(sel.X)
			if c2, ok := recv.(*ast.CallExpr); ok {
				if f2 := calleeOf(info, c2); f2 != nil && f2.Name() == "newTokenLiteralIterator" && len(c2.Args) == 1 && w.isCtxExpr(c2.Args[0]) {
					return bAtom("anyTerminal")
				}
			}
		}
	}
	return w.opaqueAtom(e)
}

func tokSym(tn string) string {
	if strings.HasPrefix(tn, "lit:") {
		return "L:" + tn[4:]
	}
	return "T:" + tn
}

func isNilIdent(info *types.Info, e ast.Expr) bool {
	id, ok := e.(*ast.Ident)
	if !ok {
		return false
	}
	_, isNil := info.Uses[id].(*types.Nil)
	return isNil
}

func (w *hwalk) lenCompare(x *ast.BinaryExpr) (*bexpr, bool) {
	l, r := w.resolve(ast.Unparen(x.X)), w.resolve(ast.Unparen(x.Y))
	op := x.Op
	// normalise to len(...) op const
	if _, ok := l.(*ast.BasicLit); ok {
		l, r = r, l
		switch op {
		case token.GTR:
			op = token.LSS
		case token.LSS:
			op = token.GTR
		case token.GEQ:
			op = token.LEQ
		case token.LEQ:
			op = token.GEQ
		}
	}
	call, ok := l.(*ast.CallExpr)
	if !ok {
		return nil, false
	}
	if id, ok := call.Fun.(*ast.Ident); !ok || id.Name != "len" || len(call.Args) != 1 {
		return nil, false
	}
	bl, ok := r.(*ast.BasicLit)
	if !ok {
		return nil, false
	}
	arg := w.resolve(call.Args[0])
	if tc, isCall := arg.(*ast.CallExpr); isCall {
		// len(<child>.GetText()) with the child obtained from the rule context: the text of a rule that cannot derive the
		// empty string is empty only when the child is absent
		if sel, isSel := ast.Unparen(tc.Fun).(*ast.SelectorExpr); isSel && sel.Sel.Name == "GetText" && len(tc.Args) == 0 {
			if name, _, ok := w.ctxAccessor(w.resolve(ast.Unparen(sel.X))); ok && strings.HasPrefix(name, "OC_") {
				a := bAtom("nonemptytext(" + symOfAccessor(name) + ")")
				switch {
				case bl.Value == "0" && (op == token.GTR || op == token.NEQ), bl.Value == "1" && op == token.GEQ:
					return a, true
				case bl.Value == "0" && (op == token.EQL || op == token.LEQ), bl.Value == "1" && op == token.LSS:
					return bNot(a), true
				}
			}
		}
	}
	name, _, ok := w.ctxAccessor(arg)
	if !ok || !strings.HasPrefix(name, "All") {
		return nil, false
	}
	a := bAtom("present(" + symOfAccessor(name) + ")")
	switch {
	case bl.Value == "0" && (op == token.GTR || op == token.NEQ):
		return a, true
	case bl.Value == "0" && (op == token.EQL || op == token.LEQ):
		return bNot(a), true
	case bl.Value == "1" && op == token.GEQ:
		return a, true
	case bl.Value == "1" && op == token.LSS:
		return bNot(a), true
	}
	return nil, false
}

// capture records what a call can observe of the rule context.
func (w *hwalk) capture(call *ast.CallExpr, fn *types.Func, g *bexpr) {
	if name, args, ok := w.ctxAccessor(call); ok {
		switch {
		case name == "GetText" || name == "ToStringTree":
			w.hi.Captures = append(w.hi.Captures, captureEvent{Kind: "text", Guard: g, Pos: call.Pos()})
		case name == "GetToken" || name == "GetTokens":
			if len(args) >= 1 {
				if tn := w.tokenName(args[0]); tn != "" {
					k := "token:"
					if name == "GetTokens" {
						k = "count:"
					}
					w.hi.Captures = append(w.hi.Captures, captureEvent{Kind: k + tokSym(tn), Guard: g, Pos: call.Pos()})
				}
			}
		case name == "GetChild" || name == "GetChildren" || name == "GetChildCount":
			w.hi.Captures = append(w.hi.Captures, captureEvent{Kind: "children", Guard: g, Pos: call.Pos()})
		case name == "GetStart" || name == "GetStop":
		case isStdCtxMethod(name):
		default:
			sym := symOfAccessor(name)
			k := "token:"
			if strings.HasPrefix(name, "All") {
				k = "count:"
			}
			w.hi.Captures = append(w.hi.Captures, captureEvent{Kind: k + sym, Guard: g, Pos: call.Pos()})
		}
		return
	}
	// <child>.GetText() where the child is a rule context obtained from the handler's own context (an accessor result, an
	// element of an All…() list): the handler consumes the whole text of that child rule
	if sel, ok := ast.Unparen(call.Fun).(*ast.SelectorExpr); ok && sel.Sel.Name == "GetText" && len(call.Args) == 0 {
		if t := w.vm.pkg.TypesInfo.TypeOf(sel.X); t != nil {
			if n := namedOf(t); n != nil && n.Obj().Pkg() != nil && strings.HasSuffix(n.Obj().Pkg().Path(), "cypher/parser") {
				name := strings.TrimPrefix(n.Obj().Name(), "I")
				if strings.HasPrefix(name, "OC_") && strings.HasSuffix(name, "Context") && w.derivedFromCtx(sel.X) {
					w.hi.Captures = append(w.hi.Captures, captureEvent{Kind: "childtext:oC_" + strings.TrimSuffix(name[3:], "Context"), Guard: bTrue, Pos: call.Pos()})
				}
			}
		}
	}
	if fn != nil && fn.Pkg() == w.vm.pkg.Types {
		switch fn.Name() {
		case "HasTokens":
			if len(call.Args) >= 2 && w.isCtxExpr(call.Args[0]) {
				for _, a := range call.Args[1:] {
					if tn := w.tokenName(a); tn != "" {
						w.hi.Captures = append(w.hi.Captures, captureEvent{Kind: "token:" + tokSym(tn), Guard: g, Pos: call.Pos()})
					}
				}
			}
		case "newTokenLiteralIterator":
			if len(call.Args) == 1 && w.isCtxExpr(call.Args[0]) {
				w.hi.Captures = append(w.hi.Captures, captureEvent{Kind: "children", Guard: g, Pos: call.Pos()})
			}
		}
	}
}

// visitorTypeOfExpr: the concrete visitor type an expression evaluates to.
func (vm *VisitorModel) visitorTypeOfExpr(e ast.Expr, depth int) string {
	info := vm.pkg.TypesInfo
	tv, ok := info.Types[e]
	if !ok {
		return ""
	}
	if n := namedOf(tv.Type); n != nil {
		if _, isIface := n.Underlying().(*types.Interface); !isIface {
			return n.Obj().Name()
		}
	}
	if depth > 2 {
		return ""
	}
	// interface-typed: look through constructor calls
	if call, ok := ast.Unparen(e).(*ast.CallExpr); ok {
		if fn := calleeOf(info, call); fn != nil {
			if fd := vm.decls[fn]; fd != nil && fd.Body != nil {
				res := map[string]bool{}
				ast.Inspect(fd.Body, func(n ast.Node) bool {
					if _, ok := n.(*ast.FuncLit); ok {
						return false
					}
					if rs, ok := n.(*ast.ReturnStmt); ok && len(rs.Results) == 1 {
						res[vm.visitorTypeOfExpr(rs.Results[0], depth+1)] = true
					}
					return true
				})
				if len(res) == 1 {
					for k := range res {
						return k
					}
				}
			}
		}
	}
	return ""
}

// ---- queries on the model ----------------------------------------------------------

func (vm *VisitorModel) Overrides(v, kind, rule string) *handlerInfo {
	vt := vm.Types[v]
	if vt == nil {
		return nil
	}
	if kind == "Enter" {
		return vt.Enter[rule]
	}
	return vt.Exit[rule]
}

// ConstructorCaptures: captures performed by a constructor called from the handler with
// the rule context are already inlined by the handler walk (same package, depth ≤ 3).

type activePair struct {
	V, R string
	Via  []string // activity path: alternating "V@R"
}

func (p activePair) key() string { return p.V + "×" + p.R }

func sortedPairs(m map[string]*activePair) []*activePair {
	keys := sortedKeys(m)
	out := make([]*activePair, 0, len(keys))
	for _, k := range keys {
		out = append(out, m[k])
	}
	return out
}

func sortStrings(s []string) []string { sort.Strings(s); return s }

// derivedFromCtx: the expression is an accessor call on the handler's rule context, or a local bound to one (directly, or
// as the element variable of a range over an All…() accessor).
func (w *hwalk) derivedFromCtx(e ast.Expr) bool {
	e = w.resolve(ast.Unparen(e))
	if _, _, ok := w.ctxAccessor(e); ok {
		return true
	}
	if id, ok := e.(*ast.Ident); ok {
		return w.rangeElems[w.vm.pkg.TypesInfo.Uses[id]]
	}
	return false
}

// recvPath: `s.A.B` with s the receiver of the handler being walked → "A.B".
func (w *hwalk) recvPath(e ast.Expr) string {
	if w.recv == nil {
		return ""
	}
	var parts []string
	e = ast.Unparen(e)
	for {
		sel, ok := e.(*ast.SelectorExpr)
		if !ok {
			break
		}
		if s := w.vm.pkg.TypesInfo.Selections[sel]; s == nil || s.Kind() != types.FieldVal {
			return ""
		}
		parts = append([]string{sel.Sel.Name}, parts...)
		e = ast.Unparen(sel.X)
	}
	id, ok := e.(*ast.Ident)
	if !ok || len(parts) == 0 || w.vm.pkg.TypesInfo.Uses[id] != w.recv {
		return ""
	}
	return strings.Join(parts, ".")
}

// freshPointer: the expression is never nil — the address of a composite literal, new(T), or a call of a function of
// the module all of whose returns are such.
func (vm *VisitorModel) freshPointer(e ast.Expr, depth int) bool {
	e = ast.Unparen(e)
	switch x := e.(type) {
	case *ast.UnaryExpr:
		if x.Op == token.AND {
			_, isLit := ast.Unparen(x.X).(*ast.CompositeLit)
			return isLit
		}
	case *ast.CallExpr:
		if id, ok := x.Fun.(*ast.Ident); ok && id.Name == "new" {
			return true
		}
		if depth > 2 {
			return false
		}
		for _, p := range vm.run.Pkgs {
			fn := calleeOf(p.TypesInfo, x)
			if fn == nil {
				continue
			}
			for _, q := range vm.run.Pkgs {
				if q.Types != fn.Pkg() {
					continue
				}
				fd := FuncDecls(q)[declKeyOf(fn)]
				if fd == nil || fd.Body == nil {
					return false
				}
				sub := &VisitorModel{pkg: q, run: vm.run}
				all, n := true, 0
				ast.Inspect(fd.Body, func(m ast.Node) bool {
					if _, isLit := m.(*ast.FuncLit); isLit {
						return false
					}
					if ret, ok := m.(*ast.ReturnStmt); ok {
						n++
						if len(ret.Results) != 1 || !sub.freshPointer(ret.Results[0], depth+1) {
							all = false
						}
					}
					return true
				})
				return all && n > 0
			}
			return false
		}
	}
	return false
}

// withFacts: the guard with the state atoms in facts taken as true.
func (b *bexpr) withFacts(facts map[string]bool) *bexpr {
	if len(facts) == 0 || b == nil {
		return b
	}
	switch b.Op {
	case "atom":
		if strings.HasPrefix(b.Atom, "state:nonnil(") && facts[b.Atom[len("state:nonnil("):len(b.Atom)-1]] {
			return bTrue
		}
		return b
	case "not":
		return bNot(b.Kids[0].withFacts(facts))
	case "and":
		return bAnd(b.Kids[0].withFacts(facts), b.Kids[1].withFacts(facts))
	case "or":
		return bOr(b.Kids[0].withFacts(facts), b.Kids[1].withFacts(facts))
	}
	return b
}

func (h *handlerInfo) withFacts(facts map[string]bool) *handlerInfo {
	if h == nil || len(facts) == 0 {
		return h
	}
	c := *h
	c.Events = nil
	for _, e := range h.Events {
		e.Guard = e.Guard.withFacts(facts)
		c.Events = append(c.Events, e)
	}
	c.Captures = nil
	for _, e := range h.Captures {
		e.Guard = e.Guard.withFacts(facts)
		c.Captures = append(c.Captures, e)
	}
	return &c
}

// boolResult: the guard under which result idx of a call of a same-package helper that is handed the rule context is true,
// as a formula over the presence atoms of that context: the disjunction, over the helper's returns, of the guard of the
// return and the truth of the result there. nil when the helper cannot be followed.
func (w *hwalk) boolResult(call *ast.CallExpr, idx int) *bexpr {
	info := w.vm.pkg.TypesInfo
	fn := calleeOf(info, call)
	if fn == nil || fn.Pkg() != w.vm.pkg.Types || w.depth >= 3 {
		return nil
	}
	fd := w.vm.decls[fn]
	if fd == nil || fd.Body == nil || fd.Type.Results == nil {
		return nil
	}
	for _, rl := range fd.Type.Results.List {
		if len(rl.Names) > 0 {
			return nil // named results: a bare return is not followed
		}
	}
	sub := &hwalk{vm: w.vm, hi: &handlerInfo{Decl: fd}, defs: map[types.Object]ast.Expr{}, depth: w.depth + 1, via: fn.Name(), ctxObjs: map[types.Object]bool{}}
	i := 0
	if fd.Type.Params != nil {
		for _, p := range fd.Type.Params.List {
			for _, n := range p.Names {
				if i < len(call.Args) && w.isCtxExpr(call.Args[i]) {
					if obj := info.Defs[n]; obj != nil {
						sub.ctxObjs[obj] = true
					}
				}
				i++
			}
		}
	}
	if len(sub.ctxObjs) == 0 {
		return nil
	}
	sub.stmts(fd.Body.List, bTrue)
	out := bFalse
	for _, ev := range sub.rets {
		if idx >= len(ev.conds) || ev.conds[idx] == nil {
			return nil
		}
		out = bOr(out, bAnd(ev.g, ev.conds[idx]))
	}
	return out
}

// onDeriv: the guard with every atom that a grammar derivation decides replaced by its value there. nonNullable tells
// whether a rule can derive the empty string.
func (b *bexpr) onDeriv(d []string, nonNullable func(rule string) bool) *bexpr {
	if b == nil {
		return nil
	}
	switch b.Op {
	case "atom":
		if strings.HasPrefix(b.Atom, "nonemptytext(R:") {
			rule := b.Atom[len("nonemptytext(R:") : len(b.Atom)-1]
			if nonNullable(rule) {
				return bAtom("present(R:"+rule+")").onDeriv(d, nonNullable)
			}
			return b
		}
		switch atomOnDeriv(b.Atom, d) {
		case 1:
			return bTrue
		case 0:
			return bFalse
		}
		return b
	case "not":
		return bNot(b.Kids[0].onDeriv(d, nonNullable))
	case "and":
		return bAnd(b.Kids[0].onDeriv(d, nonNullable), b.Kids[1].onDeriv(d, nonNullable))
	case "or":
		return bOr(b.Kids[0].onDeriv(d, nonNullable), b.Kids[1].onDeriv(d, nonNullable))
	}
	return b
}

// opaqueAtom: a condition the extractor does not interpret, keyed by its text; two locals of the same name declared in
// different places are different atoms.
func (w *hwalk) opaqueAtom(e ast.Expr) *bexpr {
	info := w.vm.pkg.TypesInfo
	key := "opaque:" + exprString(w.vm.pkg.Fset, e)
	seen := map[types.Object]bool{}
	var marks []string
	ast.Inspect(e, func(n ast.Node) bool {
		if id, ok := n.(*ast.Ident); ok {
			if v, ok := info.Uses[id].(*types.Var); ok && !v.IsField() && v.Parent() != nil && v.Parent() != v.Pkg().Scope() && !seen[v] && v != w.recv && !w.ctxObjs[v] {
				seen[v] = true
				marks = append(marks, v.Name()+"@"+itoa(w.vm.pkg.Fset.Position(v.Pos()).Line))
			}
		}
		return true
	})
	if len(marks) > 0 {
		key += " [" + strings.Join(marks, " ") + "]"
	}
	return bAtom(key)
}
