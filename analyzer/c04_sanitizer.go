package main

// Which characters can an identifier sanitiser write verbatim?
//
// The formatter's two identifier functions decide per character whether a name is written as it is or as a delimited
// identifier. The decision is a range analysis over one variable, the character of a `for … range text` loop: every
// comparison of that variable with a constant is an interval, && || ! combine intervals, a one-line predicate is expanded
// at its call, and a constant argument of a helper (`isBareName(value, false)`) fixes the helper's boolean parameter. For
// every return of the sanitiser that hands the text back unchanged the analysis computes the set of characters the text
// can then be made of; the rule asks that this set lies inside the characters of a generated name. Everything the
// analysis cannot interpret widens the set, so a verdict "inside" is sound; a set that is too wide because of something
// uninterpreted is reported as undecided, not as a violation.

import (
	"go/ast"
	"go/constant"
	"go/token"
	"go/types"
	"sort"
	"strconv"
	"strings"

	"golang.org/x/tools/go/packages"
)

type runeRange struct{ lo, hi rune }
type runeSet []runeRange

const maxRune = 0x10FFFF

func rsFull() runeSet             { return runeSet{{0, maxRune}} }
func rsRange(lo, hi rune) runeSet { return runeSet{{lo, hi}}.norm() }

func (s runeSet) norm() runeSet {
	var in runeSet
	for _, r := range s {
		if r.lo < 0 {
			r.lo = 0
		}
		if r.hi > maxRune {
			r.hi = maxRune
		}
		if r.lo <= r.hi {
			in = append(in, r)
		}
	}
	sort.Slice(in, func(a, b int) bool { return in[a].lo < in[b].lo })
	var out runeSet
	for _, r := range in {
		if n := len(out); n > 0 && r.lo <= out[n-1].hi+1 {
			if r.hi > out[n-1].hi {
				out[n-1].hi = r.hi
			}
			continue
		}
		out = append(out, r)
	}
	return out
}

func (s runeSet) union(t runeSet) runeSet {
	return append(append(runeSet{}, s...), t...).norm()
}

func (s runeSet) complement() runeSet {
	var out runeSet
	next := rune(0)
	for _, r := range s.norm() {
		if r.lo > next {
			out = append(out, runeRange{next, r.lo - 1})
		}
		next = r.hi + 1
	}
	if next <= maxRune {
		out = append(out, runeRange{next, maxRune})
	}
	return out
}

func (s runeSet) inter(t runeSet) runeSet {
	return s.complement().union(t.complement()).complement()
}

func (s runeSet) minus(t runeSet) runeSet { return s.inter(t.complement()) }

func (s runeSet) String() string {
	var parts []string
	show := func(r rune) string {
		if r >= 0x21 && r < 0x7f {
			return string(r)
		}
		return "U+" + strings.ToUpper(strconv.FormatInt(int64(r), 16))
	}
	for _, r := range s {
		if r.lo == r.hi {
			parts = append(parts, show(r.lo))
		} else {
			parts = append(parts, show(r.lo)+"–"+show(r.hi))
		}
	}
	if len(parts) == 0 {
		return "∅"
	}
	return strings.Join(parts, " ")
}

type sanitizedReturn struct {
	pos     token.Pos
	class   string // verbatim, quoted, other
	accept  runeSet
	unknown bool // something on the way was not interpreted
	text    string
}

type sanitizerJudge struct {
	r     *Run
	p     *packages.Package
	info  *types.Info
	decls map[*types.Func]*ast.FuncDecl
}

type sanEnv map[types.Object]bool // boolean parameters fixed by the call being followed

// texts: the parameter and the locals that hold its text unchanged.
func (j *sanitizerJudge) texts(fd *ast.FuncDecl, param types.Object) map[types.Object]bool {
	set := map[types.Object]bool{param: true}
	for changed := true; changed; {
		changed = false
		ast.Inspect(fd.Body, func(n ast.Node) bool {
			switch x := n.(type) {
			case *ast.AssignStmt:
				if len(x.Lhs) == len(x.Rhs) {
					for i, l := range x.Lhs {
						if id, ok := l.(*ast.Ident); ok && j.isText(set, x.Rhs[i]) {
							if o := j.info.ObjectOf(id); o != nil && !set[o] {
								set[o] = true
								changed = true
							}
						}
					}
				}
			case *ast.ValueSpec:
				if len(x.Names) == len(x.Values) {
					for i, nm := range x.Names {
						if j.isText(set, x.Values[i]) {
							if o := j.info.ObjectOf(nm); o != nil && !set[o] {
								set[o] = true
								changed = true
							}
						}
					}
				}
			}
			return true
		})
	}
	// a local that is also assigned something else is not the text
	ast.Inspect(fd.Body, func(n ast.Node) bool {
		if as, ok := n.(*ast.AssignStmt); ok && len(as.Lhs) == len(as.Rhs) {
			for i, l := range as.Lhs {
				if id, ok := l.(*ast.Ident); ok {
					if o := j.info.ObjectOf(id); o != nil && o != param && set[o] && !j.isText(set, as.Rhs[i]) {
						delete(set, o)
					}
				}
			}
		}
		return true
	})
	return set
}

func (j *sanitizerJudge) isText(set map[types.Object]bool, e ast.Expr) bool {
	switch x := ast.Unparen(e).(type) {
	case *ast.Ident:
		return set[j.info.ObjectOf(x)]
	case *ast.CallExpr:
		if tv, has := j.info.Types[x.Fun]; has && tv.IsType() && len(x.Args) == 1 {
			if b, ok := tv.Type.Underlying().(*types.Basic); ok && b.Info()&types.IsString != 0 {
				return j.isText(set, x.Args[0])
			}
			return false
		}
		if sel, ok := ast.Unparen(x.Fun).(*ast.SelectorExpr); ok && sel.Sel.Name == "String" && len(x.Args) == 0 {
			if b, ok := j.info.TypeOf(sel.X).Underlying().(*types.Basic); ok && b.Info()&types.IsString != 0 {
				return j.isText(set, sel.X)
			}
		}
	}
	return false
}

func (j *sanitizerJudge) stringParam(fd *ast.FuncDecl, idx int) types.Object {
	i := 0
	if fd.Type.Params == nil {
		return nil
	}
	for _, pl := range fd.Type.Params.List {
		for _, nm := range pl.Names {
			if i == idx {
				return j.info.Defs[nm]
			}
			i++
		}
	}
	return nil
}

func (j *sanitizerJudge) bindEnv(fd *ast.FuncDecl, call *ast.CallExpr, outer sanEnv) sanEnv {
	env := sanEnv{}
	i := 0
	if fd.Type.Params == nil {
		return env
	}
	for _, pl := range fd.Type.Params.List {
		for _, nm := range pl.Names {
			if i < len(call.Args) {
				a := call.Args[i]
				if tv, has := j.info.Types[a]; has && tv.Value != nil && tv.Value.Kind() == constant.Bool {
					env[j.info.Defs[nm]] = constant.BoolVal(tv.Value)
				} else if id, ok := ast.Unparen(a).(*ast.Ident); ok {
					if v, has := outer[j.info.ObjectOf(id)]; has {
						env[j.info.Defs[nm]] = v
					}
				}
			}
			i++
		}
	}
	return env
}

// returnsOf classifies every return of a string-returning function whose parameter idx carries the text.
func (j *sanitizerJudge) returnsOf(fd *ast.FuncDecl, idx int, env sanEnv, depth int) []sanitizedReturn {
	param := j.stringParam(fd, idx)
	if param == nil || fd.Body == nil {
		return []sanitizedReturn{{pos: fd.Pos(), class: "other", text: "no text parameter"}}
	}
	set := j.texts(fd, param)
	var out []sanitizedReturn
	ast.Inspect(fd.Body, func(n ast.Node) bool {
		if _, isLit := n.(*ast.FuncLit); isLit {
			return false
		}
		ret, ok := n.(*ast.ReturnStmt)
		if !ok {
			return true
		}
		if len(ret.Results) != 1 {
			out = append(out, sanitizedReturn{pos: ret.Pos(), class: "other", text: "bare return"})
			return true
		}
		e := ast.Unparen(ret.Results[0])
		here, unknown := j.constraintsAt(fd, ret, set, env, depth)
		switch {
		case j.isText(set, e):
			out = append(out, sanitizedReturn{pos: ret.Pos(), class: "verbatim", accept: here, unknown: unknown, text: exprString(j.r.Fset, e)})
		case j.quotes(set, e):
			out = append(out, sanitizedReturn{pos: ret.Pos(), class: "quoted", text: exprString(j.r.Fset, e)})
		default:
			if call, isCall := e.(*ast.CallExpr); isCall && depth < 3 {
				if callee := calleeOf(j.info, call); callee != nil && j.decls[callee.Origin()] != nil {
					for ai, a := range call.Args {
						if j.isText(set, a) {
							for _, sub := range j.returnsOf(j.decls[callee.Origin()], ai, j.bindEnv(j.decls[callee.Origin()], call, env), depth+1) {
								if sub.class == "verbatim" {
									sub.accept = sub.accept.inter(here)
									sub.unknown = sub.unknown || unknown
								}
								sub.text = exprString(j.r.Fset, e) + " → " + sub.text
								out = append(out, sub)
							}
							return true
						}
					}
				}
			}
			out = append(out, sanitizedReturn{pos: ret.Pos(), class: "other", text: exprString(j.r.Fset, e)})
		}
		return true
	})
	return out
}

// quotes: a delimited identifier built from the text with embedded double quotes doubled.
func (j *sanitizerJudge) quotes(set map[types.Object]bool, e ast.Expr) bool {
	call := findDoublingReplace(j.info, e, `"`)
	return call != nil && j.isText(set, call.Args[0])
}

// constraintsAt: the characters the text can be made of when control reaches target.
func (j *sanitizerJudge) constraintsAt(fd *ast.FuncDecl, target ast.Node, set map[types.Object]bool, env sanEnv, depth int) (runeSet, bool) {
	s := rsFull()
	unknown := false
	mustBeFalse := map[types.Object]bool{}
	for _, lit := range controlConds(fd.Body, target) {
		e, neg := ast.Unparen(lit.Expr), lit.Neg
		for {
			u, ok := e.(*ast.UnaryExpr)
			if !ok || u.Op != token.NOT {
				break
			}
			neg = !neg
			e = ast.Unparen(u.X)
		}
		var conjuncts []ast.Expr
		if !neg {
			var split func(x ast.Expr)
			split = func(x ast.Expr) {
				x = ast.Unparen(x)
				if be, ok := x.(*ast.BinaryExpr); ok && be.Op == token.LAND {
					split(be.X)
					split(be.Y)
					return
				}
				conjuncts = append(conjuncts, x)
			}
			split(e)
		} else {
			conjuncts = []ast.Expr{e}
		}
		for _, c := range conjuncts {
			cneg := neg
			for {
				u, ok := c.(*ast.UnaryExpr)
				if !ok || u.Op != token.NOT {
					break
				}
				cneg = !cneg
				c = ast.Unparen(u.X)
			}
			switch x := c.(type) {
			case *ast.Ident:
				if cneg {
					if o := j.info.ObjectOf(x); o != nil {
						mustBeFalse[o] = true
					}
				}
			case *ast.CallExpr:
				callee := calleeOf(j.info, x)
				if callee == nil || j.decls[callee.Origin()] == nil {
					continue
				}
				for ai, a := range x.Args {
					if !j.isText(set, a) {
						continue
					}
					if cneg || depth >= 3 {
						unknown = true
						continue
					}
					gd := j.decls[callee.Origin()]
					ts, u := j.trueSet(gd, ai, j.bindEnv(gd, x, env), depth+1)
					s = s.inter(ts)
					unknown = unknown || u
				}
			}
		}
	}
	// loops over the text that ran to their end before the target
	var stack []ast.Node
	found := false
	ast.Inspect(fd.Body, func(n ast.Node) bool {
		if found {
			return false
		}
		if n == nil {
			stack = stack[:len(stack)-1]
			return false
		}
		stack = append(stack, n)
		if n != target {
			return true
		}
		found = true
		for i := 0; i+1 < len(stack); i++ {
			var list []ast.Stmt
			switch b := stack[i].(type) {
			case *ast.BlockStmt:
				list = b.List
			case *ast.CaseClause:
				list = b.Body
			default:
				continue
			}
			for _, st := range list {
				if st.Pos() <= stack[i+1].Pos() && stack[i+1].End() <= st.End() {
					break
				}
				rs, ok := st.(*ast.RangeStmt)
				if !ok || !j.isText(set, rs.X) || rs.Value == nil {
					continue
				}
				ch, ok := rs.Value.(*ast.Ident)
				if !ok || j.info.ObjectOf(ch) == nil {
					continue
				}
				lj := &sanLoop{j: j, ch: j.info.ObjectOf(ch), flags: mustBeFalse, env: env}
				fall := lj.block(rs.Body.List, rsFull())
				s = s.inter(fall.union(lj.continued))
				unknown = unknown || lj.unknown
			}
		}
		return false
	})
	return s, unknown
}

// trueSet: the characters a text can be made of for which the boolean function may answer true.
func (j *sanitizerJudge) trueSet(gd *ast.FuncDecl, idx int, env sanEnv, depth int) (runeSet, bool) {
	param := j.stringParam(gd, idx)
	if param == nil || gd.Body == nil {
		return rsFull(), true
	}
	set := j.texts(gd, param)
	out := runeSet{}
	unknown := false
	ast.Inspect(gd.Body, func(n ast.Node) bool {
		if _, isLit := n.(*ast.FuncLit); isLit {
			return false
		}
		ret, ok := n.(*ast.ReturnStmt)
		if !ok || len(ret.Results) != 1 {
			return true
		}
		if tv, has := j.info.Types[ret.Results[0]]; has && tv.Value != nil && tv.Value.Kind() == constant.Bool && !constant.BoolVal(tv.Value) {
			return true
		}
		s, u := j.constraintsAt(gd, ret, set, env, depth)
		if id, ok := ast.Unparen(ret.Results[0]).(*ast.UnaryExpr); ok && id.Op == token.NOT {
			// `return !flag`: true only when the flag stayed false
			if fid, ok := ast.Unparen(id.X).(*ast.Ident); ok {
				s2, u2 := j.constraintsWithFlag(gd, ret, set, env, depth, j.info.ObjectOf(fid))
				s, u = s2, u2
			}
		}
		out = out.union(s)
		unknown = unknown || u
		return true
	})
	return out, unknown
}

func (j *sanitizerJudge) constraintsWithFlag(gd *ast.FuncDecl, ret *ast.ReturnStmt, set map[types.Object]bool, env sanEnv, depth int, flag types.Object) (runeSet, bool) {
	s, unknown := j.constraintsAt(gd, ret, set, env, depth)
	for _, st := range gd.Body.List {
		if st.End() > ret.Pos() {
			break
		}
		rs, ok := st.(*ast.RangeStmt)
		if !ok || !j.isText(set, rs.X) || rs.Value == nil {
			continue
		}
		if ch, ok := rs.Value.(*ast.Ident); ok && j.info.ObjectOf(ch) != nil {
			lj := &sanLoop{j: j, ch: j.info.ObjectOf(ch), flags: map[types.Object]bool{flag: true}, env: env}
			fall := lj.block(rs.Body.List, rsFull())
			s = s.inter(fall.union(lj.continued))
			unknown = unknown || lj.unknown
		}
	}
	return s, unknown
}

// sanLoop runs the body of one `for _, ch := range text` over sets of characters: block returns the characters for which
// control can fall out of the statements without having returned or raised a flag that has to be false afterwards.
type sanLoop struct {
	j         *sanitizerJudge
	ch        types.Object
	flags     map[types.Object]bool
	env       sanEnv
	continued runeSet
	unknown   bool
}

func (l *sanLoop) block(list []ast.Stmt, in runeSet) runeSet {
	cur := in
	for _, st := range list {
		cur = l.stmt(st, cur)
		if len(cur) == 0 {
			break
		}
	}
	return cur
}

func (l *sanLoop) stmt(st ast.Stmt, in runeSet) runeSet {
	switch s := st.(type) {
	case *ast.BlockStmt:
		return l.block(s.List, in)
	case *ast.ReturnStmt:
		return runeSet{}
	case *ast.BranchStmt:
		if s.Tok == token.CONTINUE || s.Tok == token.BREAK {
			l.continued = l.continued.union(in)
			return runeSet{}
		}
		return in
	case *ast.AssignStmt:
		if len(s.Lhs) == 1 && len(s.Rhs) == 1 {
			if id, ok := s.Lhs[0].(*ast.Ident); ok && l.flags[l.j.info.ObjectOf(id)] {
				if tv, has := l.j.info.Types[s.Rhs[0]]; has && tv.Value != nil && tv.Value.Kind() == constant.Bool && constant.BoolVal(tv.Value) {
					return runeSet{}
				}
			}
		}
		return in
	case *ast.IfStmt:
		t, f := l.split(s.Cond)
		out := l.block(s.Body.List, in.inter(t))
		if s.Else != nil {
			return out.union(l.stmt(s.Else, in.inter(f)))
		}
		return out.union(in.inter(f))
	case *ast.SwitchStmt:
		remaining := in
		out := runeSet{}
		var deflt *ast.CaseClause
		for _, c := range s.Body.List {
			cc := c.(*ast.CaseClause)
			if cc.List == nil {
				deflt = cc
				continue
			}
			match, miss := runeSet{}, rsFull()
			for _, e := range cc.List {
				var t, f runeSet
				if s.Tag == nil {
					t, f = l.split(e)
				} else {
					t, f = l.compare(s.Tag, token.EQL, e)
				}
				match = match.union(t)
				miss = miss.inter(f)
			}
			out = out.union(l.caseBody(cc.Body, remaining.inter(match)))
			remaining = remaining.inter(miss)
		}
		if deflt != nil {
			return out.union(l.caseBody(deflt.Body, remaining))
		}
		return out.union(remaining)
	}
	return in
}

// caseBody: a break inside a switch case leaves the switch, not the loop.
func (l *sanLoop) caseBody(body []ast.Stmt, in runeSet) runeSet {
	cur := in
	for _, st := range body {
		if br, ok := st.(*ast.BranchStmt); ok && br.Tok == token.BREAK && br.Label == nil {
			return cur
		}
		cur = l.stmt(st, cur)
		if len(cur) == 0 {
			break
		}
	}
	return cur
}

func (l *sanLoop) isChar(e ast.Expr) bool {
	e = ast.Unparen(e)
	if call, ok := e.(*ast.CallExpr); ok && len(call.Args) == 1 {
		if tv, has := l.j.info.Types[call.Fun]; has && tv.IsType() {
			if b, ok := tv.Type.Underlying().(*types.Basic); ok && b.Info()&types.IsInteger != 0 && b.Kind() != types.Uint8 && b.Kind() != types.Int8 {
				return l.isChar(call.Args[0])
			}
		}
		return false
	}
	id, ok := e.(*ast.Ident)
	return ok && l.j.info.ObjectOf(id) == l.ch
}

func (l *sanLoop) constRune(e ast.Expr) (rune, bool) {
	if tv, has := l.j.info.Types[e]; has && tv.Value != nil && tv.Value.Kind() == constant.Int {
		if v, exact := constant.Int64Val(tv.Value); exact && v >= 0 && v <= maxRune {
			return rune(v), true
		}
	}
	return 0, false
}

func (l *sanLoop) compare(x ast.Expr, op token.Token, y ast.Expr) (runeSet, runeSet) {
	if !l.isChar(x) {
		if !l.isChar(y) {
			return rsFull(), rsFull()
		}
		x, y = y, x
		switch op {
		case token.LSS:
			op = token.GTR
		case token.LEQ:
			op = token.GEQ
		case token.GTR:
			op = token.LSS
		case token.GEQ:
			op = token.LEQ
		}
	}
	c, ok := l.constRune(y)
	if !ok {
		l.unknown = true
		return rsFull(), rsFull()
	}
	var t runeSet
	switch op {
	case token.EQL:
		t = rsRange(c, c)
	case token.NEQ:
		t = rsRange(c, c).complement()
	case token.LSS:
		t = rsRange(0, c-1)
	case token.LEQ:
		t = rsRange(0, c)
	case token.GTR:
		t = rsRange(c+1, maxRune)
	case token.GEQ:
		t = rsRange(c, maxRune)
	default:
		return rsFull(), rsFull()
	}
	return t, t.complement()
}

func (l *sanLoop) mentionsChar(e ast.Expr) bool {
	m := false
	ast.Inspect(e, func(n ast.Node) bool {
		if id, ok := n.(*ast.Ident); ok && l.j.info.ObjectOf(id) == l.ch {
			m = true
		}
		return !m
	})
	return m
}

// split: (characters for which e may hold, characters for which e may fail)
func (l *sanLoop) split(e ast.Expr) (runeSet, runeSet) {
	e = ast.Unparen(e)
	switch x := e.(type) {
	case *ast.UnaryExpr:
		if x.Op == token.NOT {
			t, f := l.split(x.X)
			return f, t
		}
	case *ast.BinaryExpr:
		switch x.Op {
		case token.LAND:
			lt, lf := l.split(x.X)
			rt, rf := l.split(x.Y)
			return lt.inter(rt), lf.union(rf)
		case token.LOR:
			lt, lf := l.split(x.X)
			rt, rf := l.split(x.Y)
			return lt.union(rt), lf.inter(rf)
		case token.EQL, token.NEQ, token.LSS, token.LEQ, token.GTR, token.GEQ:
			if l.isChar(x.X) || l.isChar(x.Y) {
				return l.compare(x.X, x.Op, x.Y)
			}
		}
	case *ast.Ident:
		if v, has := l.env[l.j.info.ObjectOf(x)]; has {
			if v {
				return rsFull(), runeSet{}
			}
			return runeSet{}, rsFull()
		}
		if tv, has := l.j.info.Types[x]; has && tv.Value != nil && tv.Value.Kind() == constant.Bool {
			if constant.BoolVal(tv.Value) {
				return rsFull(), runeSet{}
			}
			return runeSet{}, rsFull()
		}
	case *ast.CallExpr:
		if body := predicateBody(l.j.p, x); body != nil {
			return l.split(body)
		}
	}
	if l.mentionsChar(e) {
		l.unknown = true
	}
	return rsFull(), rsFull()
}

func newSanitizerJudge(r *Run, p *packages.Package) *sanitizerJudge {
	j := &sanitizerJudge{r: r, p: p, info: p.TypesInfo, decls: map[*types.Func]*ast.FuncDecl{}}
	for _, f := range p.Syntax {
		for _, d := range f.Decls {
			if fd, ok := d.(*ast.FuncDecl); ok && fd.Body != nil {
				if fn, ok := p.TypesInfo.Defs[fd.Name].(*types.Func); ok {
					j.decls[fn] = fd
				}
			}
		}
	}
	return j
}

func asciiSet(chars string, ranges ...[2]rune) runeSet {
	var s runeSet
	for _, c := range chars {
		s = append(s, runeRange{c, c})
	}
	for _, r := range ranges {
		s = append(s, runeRange{r[0], r[1]})
	}
	return s.norm()
}

// sanitizerVerdict judges one role function: every return either quotes the text or hands it back only when all its
// characters are inside safe.
func sanitizerVerdict(r *Run, p *packages.Package, fd *ast.FuncDecl, safe runeSet) (ok bool, undecided bool, quoted int, detail string) {
	j := newSanitizerJudge(r, p)
	rets := j.returnsOf(fd, 0, sanEnv{}, 0)
	ok = true
	var notes []string
	for _, ret := range rets {
		switch ret.class {
		case "quoted":
			quoted++
		case "verbatim":
			if extra := ret.accept.minus(safe); len(extra) > 0 {
				if ret.unknown {
					undecided = true
					notes = append(notes, "`return "+ret.text+"` at "+r.Fset.Position(ret.pos).String()+": a test on the characters could not be interpreted")
				} else {
					ok = false
					notes = append(notes, "`return "+ret.text+"` hands the name back unchanged although it may contain "+extra.String())
				}
			}
		default:
			ok = false
			notes = append(notes, "`return "+ret.text+"` is neither the name itself nor a delimited identifier with doubled quotes")
		}
	}
	if len(rets) == 0 {
		ok = false
		notes = append(notes, "no return found")
	}
	return ok, undecided, quoted, strings.Join(notes, "; ")
}
