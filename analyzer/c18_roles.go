package main

// The fragment writer's measuring cells, found by what they are wired to rather than by their names.
//
// The constructor of the JSONL fragment writer builds a chain  encoder → counter → compressor → counter → (file, hash):
// one byte counter on each side of the compressor and a hash next to the file. The cells of the writer that hold them are
// identified from that wiring: the counter whose sink reaches the *os.File is the compressed one; the hash.Hash that
// shares its sink is the fragment's digest; the counter whose sink is the compressor built over the compressed counter is
// the uncompressed one. A cell is a field path of the writer struct ("compressedCounter", "meter.compressed"): the
// constructor may fill a nested struct first and hand it over whole. Rules then ask which role the cells an expression
// reads have, after one-line accessor methods are replaced by what they return.

import (
	"go/ast"
	"go/token"
	"go/types"
	"strings"

	"golang.org/x/tools/go/packages"
)

type writerRoles struct {
	Type  *types.Named      // the writer struct
	Ctor  *ast.FuncDecl     // the function that builds it
	Roles map[string]string // field path -> "compressed" | "uncompressed" | "hasher"
	Why   string            // set when the wiring could not be read
}

// holder: a storage place inside the constructor — a local, or a field path of a local struct
type ctorHolder struct {
	obj  types.Object
	path string
}

func (h ctorHolder) key() string { return itoa(int(h.obj.Pos())) + "." + h.path }

func findWriterRoles(p *packages.Package, manifestType string) *writerRoles {
	info := p.TypesInfo
	wr := &writerRoles{Roles: map[string]string{}}
	// the writer: the struct with a method that returns the manifest entry type first
	for _, f := range p.Syntax {
		for _, d := range f.Decls {
			fd, ok := d.(*ast.FuncDecl)
			if !ok || fd.Recv == nil || fd.Type.Results == nil || len(fd.Type.Results.List) == 0 || fd.Type.Params == nil || len(fd.Type.Params.List) != 0 {
				continue
			}
			if namedName(info.TypeOf(fd.Type.Results.List[0].Type)) != manifestType {
				continue
			}
			if nt := namedOf(info.TypeOf(fd.Recv.List[0].Type)); nt != nil {
				if _, isStruct := nt.Underlying().(*types.Struct); isStruct && wr.Type == nil {
					wr.Type = nt
				}
			}
		}
	}
	if wr.Type == nil {
		wr.Why = "no struct with a method that returns " + manifestType
		return wr
	}
	// the constructor: the function that holds a composite literal of the writer
	var lit *ast.CompositeLit
	for _, f := range p.Syntax {
		for _, d := range f.Decls {
			fd, ok := d.(*ast.FuncDecl)
			if !ok || fd.Body == nil {
				continue
			}
			ast.Inspect(fd.Body, func(n ast.Node) bool {
				if cl, ok := n.(*ast.CompositeLit); ok && namedOf(info.TypeOf(cl)) == wr.Type && lit == nil {
					lit, wr.Ctor = cl, fd
				}
				return true
			})
		}
	}
	if lit == nil {
		wr.Why = "no function builds a " + wr.Type.Obj().Name()
		return wr
	}
	fd := wr.Ctor
	// holderOf: the storage place an lvalue or a value expression names
	holderOf := func(e ast.Expr) (ctorHolder, bool) {
		var parts []string
		e = ast.Unparen(e)
		for {
			sel, ok := e.(*ast.SelectorExpr)
			if !ok {
				break
			}
			if s := info.Selections[sel]; s == nil || s.Kind() != types.FieldVal {
				return ctorHolder{}, false
			}
			parts = append([]string{sel.Sel.Name}, parts...)
			e = ast.Unparen(sel.X)
		}
		id, ok := e.(*ast.Ident)
		if !ok {
			return ctorHolder{}, false
		}
		obj := info.ObjectOf(id)
		if _, isVar := obj.(*types.Var); !isVar {
			return ctorHolder{}, false
		}
		return ctorHolder{obj, strings.Join(parts, ".")}, true
	}
	// definitions: holder -> the expression stored there (last write wins; the constructor is straight-line)
	defs := map[string]ast.Expr{}
	var record func(h ctorHolder, v ast.Expr)
	record = func(h ctorHolder, v ast.Expr) {
		v = ast.Unparen(v)
		defs[h.key()] = v
		// a struct literal stored in a holder defines the holder's fields
		cl, ok := v.(*ast.CompositeLit)
		if u, isAddr := v.(*ast.UnaryExpr); isAddr && u.Op == token.AND {
			cl, ok = ast.Unparen(u.X).(*ast.CompositeLit)
		}
		if ok {
			if _, isStruct := info.TypeOf(cl).Underlying().(*types.Struct); isStruct {
				for _, el := range cl.Elts {
					if kv, ok := el.(*ast.KeyValueExpr); ok {
						if k, ok := kv.Key.(*ast.Ident); ok {
							sub := ctorHolder{h.obj, strings.TrimPrefix(h.path+"."+k.Name, ".")}
							record(sub, kv.Value)
						}
					}
				}
			}
		}
	}
	ast.Inspect(fd.Body, func(n ast.Node) bool {
		switch x := n.(type) {
		case *ast.AssignStmt:
			if len(x.Lhs) == len(x.Rhs) {
				for i, l := range x.Lhs {
					if h, ok := holderOf(l); ok {
						record(h, x.Rhs[i])
					}
				}
			} else if len(x.Rhs) == 1 && len(x.Lhs) >= 1 {
				if h, ok := holderOf(x.Lhs[0]); ok {
					record(h, x.Rhs[0])
				}
			}
		case *ast.ValueSpec:
			for i, nm := range x.Names {
				if i < len(x.Values) {
					record(ctorHolder{info.Defs[nm], ""}, x.Values[i])
				}
			}
		}
		return true
	})
	resolve := func(e ast.Expr) ast.Expr {
		for i := 0; i < 6; i++ {
			h, ok := holderOf(e)
			if !ok {
				return ast.Unparen(e)
			}
			d, has := defs[h.key()]
			if !has {
				return ast.Unparen(e)
			}
			e = d
		}
		return ast.Unparen(e)
	}
	isFile := func(e ast.Expr) bool {
		t := info.TypeOf(e)
		if pt, ok := t.(*types.Pointer); ok {
			if n := namedOf(pt.Elem()); n != nil && n.Obj().Pkg() != nil && n.Obj().Pkg().Path() == "os" && n.Obj().Name() == "File" {
				return true
			}
		}
		return false
	}
	isHash := func(e ast.Expr) bool {
		if n := namedOf(info.TypeOf(e)); n != nil && n.Obj().Pkg() != nil && n.Obj().Pkg().Path() == "hash" {
			return true
		}
		return false
	}
	// counters: holders whose value is a struct literal with exactly one io.Writer-typed field set (the sink)
	type counter struct {
		h    ctorHolder
		sink ast.Expr
	}
	var counters []counter
	seenHolder := map[string]ctorHolder{}
	ast.Inspect(fd.Body, func(n ast.Node) bool {
		switch x := n.(type) {
		case *ast.AssignStmt:
			for _, l := range x.Lhs {
				if h, ok := holderOf(l); ok {
					seenHolder[h.key()] = h
				}
			}
		case *ast.ValueSpec:
			for _, nm := range x.Names {
				h := ctorHolder{info.Defs[nm], ""}
				seenHolder[h.key()] = h
			}
		}
		return true
	})
	for k, h := range seenHolder {
		v := defs[k]
		if v == nil {
			continue
		}
		if u, isAddr := v.(*ast.UnaryExpr); isAddr && u.Op == token.AND {
			v = ast.Unparen(u.X)
		}
		cl, ok := v.(*ast.CompositeLit)
		if !ok {
			continue
		}
		nt := namedOf(info.TypeOf(cl))
		if nt == nil || nt.Obj().Pkg() != p.Types || nt == wr.Type {
			continue
		}
		var sink ast.Expr
		nSinks := 0
		for _, el := range cl.Elts {
			if kv, ok := el.(*ast.KeyValueExpr); ok {
				if n := namedOf(info.TypeOf(kv.Key)); n != nil && n.Obj().Name() == "Writer" {
					sink = kv.Value
					nSinks++
				} else if fk, ok := kv.Key.(*ast.Ident); ok {
					if fv, ok := info.Uses[fk].(*types.Var); ok {
						if n := namedOf(fv.Type()); n != nil && n.Obj().Pkg() != nil && n.Obj().Pkg().Path() == "io" && n.Obj().Name() == "Writer" {
							sink = kv.Value
							nSinks++
						}
					}
				}
			}
		}
		if nSinks == 1 {
			counters = append(counters, counter{h, sink})
		}
	}
	roleOfHolder := map[string]string{}
	var compressed *counter
	var hasherExpr ast.Expr
	for i := range counters {
		c := &counters[i]
		sink := resolve(c.sink)
		reachesFile := false
		var hashArg ast.Expr
		ast.Inspect(sink, func(n ast.Node) bool {
			if e, ok := n.(ast.Expr); ok {
				if isFile(e) {
					reachesFile = true
				}
				if isHash(e) && hashArg == nil {
					if _, isCall := e.(*ast.CallExpr); !isCall {
						hashArg = e
					}
				}
			}
			return true
		})
		if reachesFile {
			if compressed != nil {
				wr.Why = "two counters write to the file"
				return wr
			}
			compressed = c
			hasherExpr = hashArg
			roleOfHolder[c.h.key()] = "compressed"
		}
	}
	if compressed == nil {
		wr.Why = "no byte counter whose sink reaches the file"
		return wr
	}
	if hasherExpr != nil {
		if h, ok := holderOf(hasherExpr); ok {
			roleOfHolder[h.key()] = "hasher"
		}
	}
	// the compressor: a call that is handed the compressed counter; the uncompressed counter's sink is its result
	mentionsHolder := func(e ast.Expr, want ctorHolder) bool {
		found := false
		ast.Inspect(e, func(n ast.Node) bool {
			if x, ok := n.(ast.Expr); ok {
				if h, ok := holderOf(x); ok && h.key() == want.key() {
					found = true
				}
			}
			return !found
		})
		return found
	}
	for i := range counters {
		c := &counters[i]
		if c == compressed {
			continue
		}
		sink := resolve(c.sink)
		if call, ok := sink.(*ast.CallExpr); ok {
			for _, a := range call.Args {
				if mentionsHolder(a, compressed.h) {
					roleOfHolder[c.h.key()] = "uncompressed"
				}
			}
		}
	}
	// map the holders to field paths of the writer through its literal
	for _, el := range lit.Elts {
		kv, ok := el.(*ast.KeyValueExpr)
		if !ok {
			continue
		}
		k, ok := kv.Key.(*ast.Ident)
		if !ok {
			continue
		}
		vh, ok := holderOf(kv.Value)
		if !ok {
			continue
		}
		for hk, role := range roleOfHolder {
			h := seenHolder[hk]
			if h.obj == nil {
				// the hasher may only be named inside a literal (meter := fragmentMeter{hasher: sha256.New()})
				continue
			}
			if h.obj != vh.obj {
				continue
			}
			rest := strings.TrimPrefix(strings.TrimPrefix(h.path, vh.path), ".")
			if vh.path != "" && !strings.HasPrefix(h.path, vh.path) {
				continue
			}
			path := k.Name
			if rest != "" {
				path += "." + rest
			}
			wr.Roles[path] = role
		}
	}
	// hasher holders that exist only as a literal key
	if hasherExpr != nil {
		if h, ok := holderOf(hasherExpr); ok {
			for _, el := range lit.Elts {
				if kv, ok := el.(*ast.KeyValueExpr); ok {
					if k, ok := kv.Key.(*ast.Ident); ok {
						if vh, ok := holderOf(kv.Value); ok && vh.obj == h.obj && (vh.path == "" || strings.HasPrefix(h.path, vh.path)) {
							rest := strings.TrimPrefix(strings.TrimPrefix(h.path, vh.path), ".")
							path := k.Name
							if rest != "" {
								path += "." + rest
							}
							wr.Roles[path] = "hasher"
						}
					}
				}
			}
		}
	}
	have := map[string]bool{}
	for _, role := range wr.Roles {
		have[role] = true
	}
	if !have["compressed"] || !have["uncompressed"] || !have["hasher"] {
		wr.Why = "the constructor's wiring gives roles " + strings.Join(sortedKeys(have), ", ") + " only"
	}
	return wr
}

// inlineSingleReturn: for a call of a same-package function or method whose body is a single `return <expr>`, that
// expression with the receiver and the parameters replaced by the call's operands; nil otherwise.
func inlineSingleReturn(p *packages.Package, call *ast.CallExpr) ast.Expr {
	info := p.TypesInfo
	fn := calleeOf(info, call)
	if fn == nil || fn.Pkg() != p.Types {
		return nil
	}
	fd := FuncDecls(p)[declKeyOf(fn)]
	if fd == nil || fd.Body == nil || len(fd.Body.List) != 1 {
		return nil
	}
	rs, ok := fd.Body.List[0].(*ast.ReturnStmt)
	if !ok || len(rs.Results) != 1 {
		return nil
	}
	subst := map[types.Object]ast.Expr{}
	if fd.Recv != nil && len(fd.Recv.List) == 1 && len(fd.Recv.List[0].Names) == 1 {
		if sel, ok := ast.Unparen(call.Fun).(*ast.SelectorExpr); ok {
			subst[info.Defs[fd.Recv.List[0].Names[0]]] = sel.X
		}
	}
	i := 0
	if fd.Type.Params != nil {
		for _, pl := range fd.Type.Params.List {
			for _, nm := range pl.Names {
				if i < len(call.Args) {
					subst[info.Defs[nm]] = call.Args[i]
				}
				i++
			}
		}
	}
	return newASTCloner(info, subst).node(rs.Results[0]).(ast.Expr)
}

// rolesRead: the roles of the writer's cells that e reads (e is an expression of a method of the writer with receiver
// recv), with one-line accessors replaced by what they return.
func (wr *writerRoles) rolesRead(p *packages.Package, recv types.Object, e ast.Expr, depth int) map[string]bool {
	info := p.TypesInfo
	out := map[string]bool{}
	var visit func(n ast.Node) bool
	visit = func(n ast.Node) bool {
		switch x := n.(type) {
		case *ast.CallExpr:
			if depth < 3 {
				if body := inlineSingleReturn(p, x); body != nil {
					for k := range wr.rolesRead(p, recv, body, depth+1) {
						out[k] = true
					}
					return false
				}
			}
		case *ast.SelectorExpr:
			var parts []string
			var cur ast.Expr = x
			for {
				sel, ok := ast.Unparen(cur).(*ast.SelectorExpr)
				if !ok {
					break
				}
				if s := info.Selections[sel]; s == nil || s.Kind() != types.FieldVal {
					parts = nil
					cur = sel.X
					continue
				}
				parts = append([]string{sel.Sel.Name}, parts...)
				cur = sel.X
			}
			if id, ok := ast.Unparen(cur).(*ast.Ident); ok && info.Uses[id] == recv {
				for n := len(parts); n > 0; n-- {
					if role, has := wr.Roles[strings.Join(parts[:n], ".")]; has {
						out[role] = true
						return false
					}
				}
			}
		}
		return true
	}
	ast.Inspect(e, visit)
	return out
}
