package main

// C03-l rewriter-case-form: the frame-binding rewriter qualifies identifiers with the frame they come from. It finds the
// places that hold identifiers by a type switch over the syntax nodes, and the nodes exist in two forms — a struct value
// (pgsql.FunctionCall) and a pointer to one (*pgsql.UnaryExpression) — of which the translator builds one. A case
// written for the form that is never built can not match: the identifiers under that node keep their bare names, and the
// statement refers to a binding (`n0.id`) that is not in scope where it is used. The rule collects which forms of each
// node type the module constructs (composite literals, address-of literals, new, results of functions) and requires,
// for every type the rewriter's switch names in one form only, that this is a form that is constructed whenever the
// other one is. Where both forms are built, the form handled must be the one built in more places (the other being the
// exception, as for the one UnaryExpression value the expansion code returns).

import (
	"go/ast"
	"go/token"
	"go/types"
	"strings"

	"golang.org/x/tools/go/packages"
)

func checkRewriterCaseForms(r *Run, tp *packages.Package) {
	const rule = "C03-l-rewriter-case-form"
	// constructed forms over the module's cypher packages
	valueForm, pointerForm := map[*types.TypeName]int{}, map[*types.TypeName]int{}
	for path, p := range r.ByPath {
		if !strings.HasPrefix(path, modPath+"/cypher/") {
			continue
		}
		info := p.TypesInfo
		for _, f := range p.Syntax {
			if strings.HasSuffix(r.Fset.Position(f.Pos()).Filename, "_test.go") {
				continue
			}
			addressed := map[*ast.CompositeLit]bool{}
			ast.Inspect(f, func(n ast.Node) bool {
				switch x := n.(type) {
				case *ast.UnaryExpr:
					if x.Op == token.AND {
						if cl, ok := ast.Unparen(x.X).(*ast.CompositeLit); ok {
							addressed[cl] = true
							if nt := namedOf(info.TypeOf(cl)); nt != nil {
								pointerForm[nt.Obj()]++
							}
						}
					}
				case *ast.CompositeLit:
					if !addressed[x] {
						if nt := namedOf(info.TypeOf(x)); nt != nil {
							if _, isPtr := info.TypeOf(x).(*types.Pointer); !isPtr {
								valueForm[nt.Obj()]++
							}
						}
					}
				case *ast.CallExpr:
					if id, ok := ast.Unparen(x.Fun).(*ast.Ident); ok && id.Name == "new" && len(x.Args) == 1 {
						if nt := namedOf(info.TypeOf(x.Args[0])); nt != nil {
							pointerForm[nt.Obj()]++
						}
					}
				case *ast.FuncDecl:
					if x.Type.Results != nil {
						for _, res := range x.Type.Results.List {
							t := info.TypeOf(res.Type)
							if nt := namedOf(t); nt != nil {
								if _, isPtr := t.(*types.Pointer); isPtr {
									pointerForm[nt.Obj()]++
								} else if _, isStruct := nt.Underlying().(*types.Struct); isStruct {
									valueForm[nt.Obj()]++
								}
							}
						}
					}
				}
				return true
			})
		}
	}
	info := tp.TypesInfo
	fd := FuncDecls(tp)["FrameBindingRewriter.enter"]
	if fd == nil {
		for _, d := range FuncDecls(tp) {
			if d.Recv != nil && recvTypeName(d.Recv.List[0].Type) == "FrameBindingRewriter" && d.Body != nil {
				if _, _, found := typeBranchesOf(info, d.Body.List); found && fd == nil {
					fd = d
				}
			}
		}
	}
	if fd == nil || fd.Body == nil {
		r.Undecide("C03-l: the type switch of the frame-binding rewriter was not found")
		return
	}
	var ts *ast.TypeSwitchStmt
	for _, st := range fd.Body.List {
		if t, ok := st.(*ast.TypeSwitchStmt); ok && ts == nil {
			ts = t
		}
	}
	if ts == nil {
		r.Undecide("C03-l: %s does not start with a type switch over the node", funcDeclName(fd))
		return
	}
	type forms struct {
		value, pointer bool
		pos            token.Pos
	}
	cases := map[*types.TypeName]*forms{}
	for _, c := range ts.Body.List {
		cc := c.(*ast.CaseClause)
		for _, e := range cc.List {
			t := info.TypeOf(e)
			nt := namedOf(t)
			if nt == nil {
				continue
			}
			if _, isStruct := nt.Underlying().(*types.Struct); !isStruct {
				continue
			}
			fm := cases[nt.Obj()]
			if fm == nil {
				fm = &forms{pos: e.Pos()}
				cases[nt.Obj()] = fm
			}
			if _, isPtr := t.(*types.Pointer); isPtr {
				fm.pointer = true
			} else {
				fm.value = true
			}
		}
	}
	n := 0
	var names []*types.TypeName
	for tn := range cases {
		names = append(names, tn)
	}
	sortTypeNames(names)
	for _, tn := range names {
		fm := cases[tn]
		if fm.value && fm.pointer {
			continue // both forms handled
		}
		n++
		construct := funcDeclName(fd) + ":" + tn.Name()
		switch {
		case fm.value && valueForm[tn] < pointerForm[tn]:
			r.Fail(rule, construct, fm.pos, "the rewriter has a case for the value form %s only, but the module builds *%s (%d places) more often than %s values (%d): the case does not match the nodes the translator builds, the identifiers under them are not qualified with their frame, and the statement refers to a binding that is not in scope there", tn.Name(), tn.Name(), pointerForm[tn], tn.Name(), valueForm[tn])
		case fm.pointer && pointerForm[tn] < valueForm[tn]:
			r.Fail(rule, construct, fm.pos, "the rewriter has a case for *%s only, but the module builds %s values (%d places) more often than pointers (%d): the case does not match the nodes the translator builds, the identifiers under them are not qualified with their frame, and the statement refers to a binding that is not in scope there", tn.Name(), tn.Name(), valueForm[tn], pointerForm[tn])
		default:
			form := "value"
			if fm.pointer {
				form = "pointer"
			}
			r.Pass(rule, construct, fm.pos, "handled in its %s form, the form the module builds (value %d, pointer %d places)", form, valueForm[tn], pointerForm[tn])
		}
	}
	if n == 0 {
		r.Note("C03-l: every node type of the rewriter's switch is handled in both forms")
	}
}

func sortTypeNames(ts []*types.TypeName) {
	for i := 1; i < len(ts); i++ {
		for j := i; j > 0 && ts[j].Name() < ts[j-1].Name(); j-- {
			ts[j], ts[j-1] = ts[j-1], ts[j]
		}
	}
}
