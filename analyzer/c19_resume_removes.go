package main

// C19-R9 resume-removes-temporaries-only: the resume loader cleans up what the interrupted run left half written. What it
// may delete are files that carry the temporary suffix; a file at a final path — a fragment that was published but not yet
// recorded — is exactly what "the directory holds files the checkpoint does not account for" means, and has to be refused,
// not deleted. Every os.Remove reachable from the loader therefore removes a path that is visibly a temporary one: built
// by appending a constant suffix, an element of a list of such paths, or removed under a strings.HasSuffix test with a
// constant suffix.

import (
	"fmt"
	"go/ast"
	"go/constant"
	"go/token"
	"go/types"
	"os"
	"strings"

	"golang.org/x/tools/go/packages"
)

func checkResumeRemovesTemporariesOnly(r *Run, p *packages.Package, cg *CallGraph, decls map[string]*ast.FuncDecl) {
	const rule = "C19-R9-resume-removes-temporaries-only"
	info := p.TypesInfo
	loader := decls[roleName("loadCompatibleDumpCheckpoint")]
	if loader == nil {
		r.Note("%s: resume loader not found", rule)
		return
	}
	lf, _ := info.Defs[loader.Name].(*types.Func)
	reach := cg.Reach([]*types.Func{lf}, nil)
	constSuffix := func(e ast.Expr) bool {
		tv, has := info.Types[e]
		return has && tv.Value != nil && tv.Value.Kind() == constant.String && constant.StringVal(tv.Value) != ""
	}
	pkgDecls := FuncDecls(p)
	// the value of parameter idx of fd at every call in the package satisfies pred
	atCallSites := func(fd *ast.FuncDecl, idx int, pred func(cd *ast.FuncDecl, arg ast.Expr) bool) bool {
		self, _ := info.Defs[fd.Name].(*types.Func)
		sites, all := 0, true
		for _, cn := range sortedKeys(pkgDecls) {
			cd := pkgDecls[cn]
			if cd.Body == nil || self == nil {
				continue
			}
			ast.Inspect(cd.Body, func(m ast.Node) bool {
				call, ok := m.(*ast.CallExpr)
				if !ok || idx >= len(call.Args) {
					return true
				}
				if c := calleeOf(info, call); c == nil || c.Origin() != self {
					return true
				}
				sites++
				if !pred(cd, call.Args[idx]) {
					all = false
				}
				return true
			})
		}
		return sites > 0 && all
	}
	allReturns := func(call *ast.CallExpr, pred func(hd *ast.FuncDecl, res ast.Expr) bool) bool {
		fn := calleeOf(info, call)
		if fn == nil || fn.Pkg() != p.Types {
			return false
		}
		hd := pkgDecls[declKeyOf(fn.Origin())]
		if hd == nil || hd.Body == nil {
			return false
		}
		all, n := true, 0
		ast.Inspect(hd.Body, func(m ast.Node) bool {
			if _, isLit := m.(*ast.FuncLit); isLit {
				return false
			}
			if rs, ok := m.(*ast.ReturnStmt); ok && len(rs.Results) >= 1 {
				// a return that reports an error hands back nothing that is used
				if len(rs.Results) >= 2 && !isNilIdent(info, ast.Unparen(rs.Results[len(rs.Results)-1])) {
					if t := info.TypeOf(rs.Results[len(rs.Results)-1]); t != nil && types.Identical(t, types.Universe.Lookup("error").Type()) {
						return true
					}
				}
				n++
				if !pred(hd, rs.Results[0]) {
					all = false
				}
			}
			return true
		})
		return all && n > 0
	}
	var suffixed func(fd *ast.FuncDecl, e ast.Expr, depth int) bool
	var suffixedList func(fd *ast.FuncDecl, e ast.Expr, depth int) bool
	suffixedList = func(fd *ast.FuncDecl, e ast.Expr, depth int) (res bool) {
		if os.Getenv("DAWGSVET_DUMP") != "" {
			defer func() {
				fmt.Fprintf(os.Stderr, "suffixedList %s in %s depth %d -> %v\n", exprString(r.Fset, e), funcDeclName(fd), depth, res)
			}()
		}
		if depth > 14 {
			return false
		}
		e = ast.Unparen(e)
		switch x := e.(type) {
		case *ast.CompositeLit:
			for _, el := range x.Elts {
				if !suffixed(fd, el, depth+1) {
					return false
				}
			}
			return true
		case *ast.CallExpr:
			if id, ok := x.Fun.(*ast.Ident); ok && id.Name == "append" && len(x.Args) >= 1 && !x.Ellipsis.IsValid() {
				if !suffixedList(fd, x.Args[0], depth+1) {
					return false
				}
				for _, a := range x.Args[1:] {
					if !suffixed(fd, a, depth+1) {
						return false
					}
				}
				return true
			}
			return allReturns(x, func(hd *ast.FuncDecl, res ast.Expr) bool { return suffixedList(hd, res, depth+1) })
		case *ast.Ident:
			if isNilIdent(info, x) {
				return true
			}
			obj := info.Uses[x]
			if idx := paramIndexOf(info, fd, obj); idx >= 0 {
				return atCallSites(fd, idx, func(cd *ast.FuncDecl, arg ast.Expr) bool { return suffixedList(cd, arg, depth+1) })
			}
			all, n := true, 0
			ast.Inspect(fd.Body, func(m ast.Node) bool {
				as, ok := m.(*ast.AssignStmt)
				if !ok {
					return true
				}
				for i, l := range as.Lhs {
					id, isId := l.(*ast.Ident)
					if !isId || info.ObjectOf(id) != obj {
						continue
					}
					n++
					var rhs ast.Expr
					if len(as.Rhs) == len(as.Lhs) {
						rhs = as.Rhs[i]
					} else if len(as.Rhs) == 1 && i == 0 {
						rhs = as.Rhs[0]
					}
					if rhs == nil {
						all = false
						continue
					}
					// paths = append(paths, x): the list itself is what is being judged
					if c, ok := ast.Unparen(rhs).(*ast.CallExpr); ok {
						if fid, ok := c.Fun.(*ast.Ident); ok && fid.Name == "append" && len(c.Args) >= 1 && !c.Ellipsis.IsValid() {
							if a0, ok := ast.Unparen(c.Args[0]).(*ast.Ident); ok && info.Uses[a0] == obj {
								for _, a := range c.Args[1:] {
									if !suffixed(fd, a, depth+1) {
										all = false
									}
								}
								continue
							}
						}
					}
					if !suffixedList(fd, rhs, depth+1) {
						all = false
					}
				}
				return true
			})
			return all && n > 0
		}
		return false
	}
	suffixed = func(fd *ast.FuncDecl, e ast.Expr, depth int) (res bool) {
		if os.Getenv("DAWGSVET_DUMP") != "" {
			defer func() {
				fmt.Fprintf(os.Stderr, "suffixed %s in %s depth %d -> %v\n", exprString(r.Fset, e), funcDeclName(fd), depth, res)
			}()
		}
		if depth > 14 {
			return false
		}
		e = ast.Unparen(e)
		switch x := e.(type) {
		case *ast.BinaryExpr:
			return x.Op == token.ADD && constSuffix(x.Y)
		case *ast.CallExpr:
			// filepath.Join(dir, name+".tmp"): the last element carries the suffix
			if fn := calleeOf(info, x); fn != nil && (funcFullName(fn) == "path/filepath.Join" || funcFullName(fn) == "path.Join") && len(x.Args) > 0 {
				return suffixed(fd, x.Args[len(x.Args)-1], depth+1)
			}
			return allReturns(x, func(hd *ast.FuncDecl, res ast.Expr) bool { return suffixed(hd, res, depth+1) })
		case *ast.Ident:
			obj := info.Uses[x]
			if def := resolveLocalCopy(info, fd.Body, x); def != ast.Expr(x) {
				return suffixed(fd, def, depth+1)
			}
			if idx := paramIndexOf(info, fd, obj); idx >= 0 {
				return atCallSites(fd, idx, func(cd *ast.FuncDecl, arg ast.Expr) bool { return suffixed(cd, arg, depth+1) })
			}
			// the element variable of a range over a list all of whose elements are suffixed
			ok := false
			ast.Inspect(fd.Body, func(n ast.Node) bool {
				rs, isRange := n.(*ast.RangeStmt)
				if !isRange || rs.Value == nil {
					return true
				}
				if v, isId := rs.Value.(*ast.Ident); !isId || info.Defs[v] != obj {
					return true
				}
				if suffixedList(fd, rs.X, depth+1) {
					ok = true
				}
				return true
			})
			return ok
		}
		return false
	}
	n := 0
	var fns []*types.Func
	for fn := range reach {
		fns = append(fns, fn)
	}
	fns = append(fns, lf)
	seen := map[*types.Func]bool{}
	for _, fn := range fns {
		fd := cg.Decl[fn]
		if fd == nil || fd.Body == nil || cg.PkgOf[fn] != p || seen[fn] {
			continue
		}
		seen[fn] = true
		ast.Inspect(fd.Body, func(x ast.Node) bool {
			call, ok := x.(*ast.CallExpr)
			if !ok || len(call.Args) != 1 {
				return true
			}
			callee := calleeOf(info, call)
			if callee == nil || (funcFullName(callee) != "os.Remove" && funcFullName(callee) != "os.RemoveAll") {
				return true
			}
			n++
			construct := funcDeclName(fd) + ":" + callee.Name() + "(" + exprString(r.Fset, call.Args[0]) + ")"
			if suffixed(fd, call.Args[0], 0) {
				r.Pass(rule, construct, call.Pos(), "the removed path is built with a constant suffix")
				return true
			}
			guarded := false
			for _, lit := range controlConds(fd.Body, call) {
				if lit.Neg {
					continue
				}
				ast.Inspect(lit.Expr, func(m ast.Node) bool {
					if c, ok := m.(*ast.CallExpr); ok && len(c.Args) == 2 {
						if f := calleeOf(info, c); f != nil && funcFullName(f) == "strings.HasSuffix" && constSuffix(c.Args[1]) {
							guarded = true
						}
					}
					return true
				})
			}
			// inside a closure handed to a directory walk the conditions are those of the closure's body
			if !guarded {
				ast.Inspect(fd.Body, func(m ast.Node) bool {
					fl, ok := m.(*ast.FuncLit)
					if !ok || !(fl.Pos() <= call.Pos() && call.End() <= fl.End()) {
						return true
					}
					for _, lit := range controlConds(fl.Body, call) {
						if lit.Neg {
							continue
						}
						ast.Inspect(lit.Expr, func(k ast.Node) bool {
							if c, ok := k.(*ast.CallExpr); ok && len(c.Args) == 2 {
								if f := calleeOf(info, c); f != nil && funcFullName(f) == "strings.HasSuffix" && constSuffix(c.Args[1]) {
									guarded = true
								}
							}
							return true
						})
					}
					return true
				})
			}
			if guarded {
				r.Pass(rule, construct, call.Pos(), "the removal is under a strings.HasSuffix test with a constant suffix")
			} else if strings.Contains(strings.ToLower(funcDeclName(fd)), "verify") {
				r.Pass(rule, construct, call.Pos(), "not a clean-up of the directory")
			} else {
				r.Fail(rule, construct, call.Pos(), "the resume loader removes a path that is not visibly a temporary one (no constant suffix appended, no strings.HasSuffix test): a file at a final path — a fragment published but not yet recorded — is deleted and the resume goes on, where the property demands a refusal")
			}
			return true
		})
	}
	r.Counts[rule+":removals"] = n
}
