package main

// canonValue writes an expression of a function in a form that does not depend on the names of its locals: a local
// defined once is replaced by what defines it (`#i(call)` for the i-th result of a two-value definition), the value
// variable of a range by `elem(<ranged>)`, and a variable that cannot be resolved further by `$` and the name of its
// type. Two expressions in different functions that build "the same thing from the same kind of input" get the same
// text — `sanitize(entry.Path)` for every entry of every graph of a manifest, whatever the manifest variable is called.

import (
	"go/ast"
	"go/types"
	"strings"
)

func canonValue(info *types.Info, fd *ast.FuncDecl, e ast.Expr) string {
	vs := canonValues(info, fd, e)
	if len(vs) == 0 {
		return ""
	}
	return vs[0]
}

// canonValues returns the alternatives when a value can come from several places: the element of a list that the
// function builds itself with append stands for each of the expressions appended to it.
func canonValues(info *types.Info, fd *ast.FuncDecl, e ast.Expr) []string {
	type def struct {
		e   ast.Expr
		idx int
	}
	defs := map[types.Object]def{}
	writes := map[types.Object]int{}
	ranged := map[types.Object]ast.Expr{}
	built := map[types.Object][]ast.Expr{} // a local slice -> the expressions it is made of
	ast.Inspect(fd.Body, func(n ast.Node) bool {
		switch x := n.(type) {
		case *ast.AssignStmt:
			if len(x.Lhs) == 1 && len(x.Rhs) == 1 {
				if id, ok := x.Lhs[0].(*ast.Ident); ok {
					o := info.ObjectOf(id)
					switch v := ast.Unparen(x.Rhs[0]).(type) {
					case *ast.CallExpr:
						if f, isF := ast.Unparen(v.Fun).(*ast.Ident); isF && f.Name == "append" && len(v.Args) >= 1 {
							if a0, isID := ast.Unparen(v.Args[0]).(*ast.Ident); isID && info.Uses[a0] == o {
								built[o] = append(built[o], v.Args[1:]...)
							}
						}
					case *ast.CompositeLit:
						if _, isSlice := info.TypeOf(v).Underlying().(*types.Slice); isSlice && o != nil {
							built[o] = append(built[o], v.Elts...)
						}
					}
				}
			}
			for i, l := range x.Lhs {
				id, ok := l.(*ast.Ident)
				if !ok || id.Name == "_" {
					continue
				}
				o := info.ObjectOf(id)
				if o == nil {
					continue
				}
				writes[o]++
				switch {
				case len(x.Lhs) == len(x.Rhs):
					defs[o] = def{x.Rhs[i], -1}
				case len(x.Rhs) == 1:
					defs[o] = def{x.Rhs[0], i}
				}
			}
		case *ast.ValueSpec:
			for i, nm := range x.Names {
				o := info.Defs[nm]
				if o == nil {
					continue
				}
				writes[o]++
				switch {
				case len(x.Names) == len(x.Values):
					defs[o] = def{x.Values[i], -1}
				case len(x.Values) == 1:
					defs[o] = def{x.Values[0], i}
				}
			}
		case *ast.RangeStmt:
			if id, ok := x.Value.(*ast.Ident); ok && id.Name != "_" {
				if o := info.ObjectOf(id); o != nil {
					ranged[o] = x.X
				}
			}
		}
		return true
	})
	cross := func(parts [][]string, join func(p []string) string) []string {
		out := []string{}
		var rec func(i int, cur []string)
		rec = func(i int, cur []string) {
			if len(out) >= 16 {
				return
			}
			if i == len(parts) {
				out = append(out, join(append([]string(nil), cur...)))
				return
			}
			for _, alt := range parts[i] {
				rec(i+1, append(cur, alt))
			}
		}
		rec(0, nil)
		return out
	}
	var canon func(e ast.Expr, depth int) []string
	canon = func(e ast.Expr, depth int) []string {
		if depth > 10 {
			return []string{"…"}
		}
		switch x := ast.Unparen(e).(type) {
		case *ast.Ident:
			if tv, has := info.Types[x]; has && tv.Value != nil {
				return []string{tv.Value.ExactString()}
			}
			o := info.ObjectOf(x)
			if o == nil {
				return []string{x.Name}
			}
			if rx, has := ranged[o]; has {
				// the element of a list this function builds stands for what the list is made of
				if lid, isID := ast.Unparen(rx).(*ast.Ident); isID {
					if parts := built[info.ObjectOf(lid)]; len(parts) > 0 {
						var out []string
						for _, pe := range parts {
							out = append(out, canon(pe, depth+1)...)
						}
						return out
					}
				}
				var out []string
				for _, c := range canon(rx, depth+1) {
					out = append(out, "elem("+c+")")
				}
				return out
			}
			if d, has := defs[o]; has && writes[o] == 1 {
				var out []string
				for _, c := range canon(d.e, depth+1) {
					if d.idx >= 0 {
						out = append(out, "#"+itoa(d.idx)+"("+c+")")
					} else {
						out = append(out, c)
					}
				}
				return out
			}
			if o.Pkg() != nil && o.Parent() == o.Pkg().Scope() {
				return []string{o.Pkg().Name() + "." + o.Name()}
			}
			if _, isVar := o.(*types.Var); isVar {
				return []string{"$" + strings.TrimPrefix(types.TypeString(o.Type(), func(*types.Package) string { return "" }), ".")}
			}
			return []string{x.Name}
		case *ast.SelectorExpr:
			if o := info.Uses[x.Sel]; o != nil && o.Pkg() != nil && o.Parent() == o.Pkg().Scope() {
				return []string{o.Pkg().Name() + "." + o.Name()}
			}
			var out []string
			for _, c := range canon(x.X, depth+1) {
				out = append(out, c+"."+x.Sel.Name)
			}
			return out
		case *ast.CallExpr:
			parts := [][]string{canon(x.Fun, depth+1)}
			for _, a := range x.Args {
				parts = append(parts, canon(a, depth+1))
			}
			return cross(parts, func(p []string) string { return p[0] + "(" + strings.Join(p[1:], ",") + ")" })
		case *ast.BinaryExpr:
			return cross([][]string{canon(x.X, depth+1), canon(x.Y, depth+1)}, func(p []string) string { return "(" + p[0] + x.Op.String() + p[1] + ")" })
		case *ast.UnaryExpr:
			var out []string
			for _, c := range canon(x.X, depth+1) {
				out = append(out, x.Op.String()+c)
			}
			return out
		case *ast.StarExpr:
			var out []string
			for _, c := range canon(x.X, depth+1) {
				out = append(out, "*"+c)
			}
			return out
		case *ast.IndexExpr:
			return cross([][]string{canon(x.X, depth+1), canon(x.Index, depth+1)}, func(p []string) string { return p[0] + "[" + p[1] + "]" })
		case *ast.BasicLit:
			return []string{x.Value}
		}
		return []string{types.ExprString(e)}
	}
	return canon(e, 0)
}
