package main

// C01-R9 part-state-consumed: the translator prepares, for every query part, the order, skip and limit of its
// projection (fields of QueryPart written while the projection is visited). Two siblings turn a part into SQL: the tail
// builder for the last part and the multi-part builder for every earlier one. Whatever the preparer writes, both must
// read — a prepared field that one of them ignores is a clause of the query that silently disappears from the SQL
// (a WITH … LIMIT 1 that returns every row).

import (
	"go/ast"
	"go/token"
	"go/types"
	"sort"

	"golang.org/x/tools/go/packages"
)

func checkPartStateConsumed(r *Run, tp *packages.Package) {
	info := tp.TypesInfo
	qp, _ := tp.Types.Scope().Lookup("QueryPart").(*types.TypeName)
	if qp == nil {
		r.Undecide("C01-R9: translate.QueryPart not found")
		return
	}
	st, ok := qp.Type().Underlying().(*types.Struct)
	if !ok {
		r.Undecide("C01-R9: translate.QueryPart is not a struct")
		return
	}
	isPartField := map[*types.Var]bool{}
	for i := 0; i < st.NumFields(); i++ {
		isPartField[st.Field(i)] = true
	}
	decls := map[*types.Func]*ast.FuncDecl{}
	for _, f := range tp.Syntax {
		for _, d := range f.Decls {
			if fd, ok := d.(*ast.FuncDecl); ok && fd.Body != nil {
				if fn, ok := info.Defs[fd.Name].(*types.Func); ok {
					decls[fn] = fd
				}
			}
		}
	}
	byName := func(name string) *types.Func {
		for fn := range decls {
			if fn.Name() == name && fn.Type().(*types.Signature).Recv() != nil && namedName(fn.Type().(*types.Signature).Recv().Type()) == "Translator" {
				return fn
			}
		}
		return nil
	}
	// fields written/read, following same-package callees (bound 3)
	var walk func(fn *types.Func, depth int, seen map[*types.Func]bool, writes, reads map[*types.Var]token.Pos)
	walk = func(fn *types.Func, depth int, seen map[*types.Func]bool, writes, reads map[*types.Var]token.Pos) {
		fd := decls[fn]
		if fd == nil || seen[fn] || depth > 3 {
			return
		}
		seen[fn] = true
		lhs := map[*ast.SelectorExpr]bool{}
		ast.Inspect(fd.Body, func(x ast.Node) bool {
			if as, ok := x.(*ast.AssignStmt); ok {
				for _, l := range as.Lhs {
					if sel, ok := ast.Unparen(l).(*ast.SelectorExpr); ok {
						if v, ok := info.Uses[sel.Sel].(*types.Var); ok && isPartField[v] {
							lhs[sel] = true
							if _, had := writes[v]; !had {
								writes[v] = sel.Pos()
							}
						}
					}
				}
			}
			return true
		})
		ast.Inspect(fd.Body, func(x ast.Node) bool {
			switch t := x.(type) {
			case *ast.SelectorExpr:
				if v, ok := info.Uses[t.Sel].(*types.Var); ok && isPartField[v] && !lhs[t] {
					if _, had := reads[v]; !had {
						reads[v] = t.Pos()
					}
				}
			case *ast.CallExpr:
				if callee := calleeOf(info, t); callee != nil && callee.Pkg() == tp.Types {
					walk(callee, depth+1, seen, writes, reads)
				}
			}
			return true
		})
	}
	// the preparer: prepareProjection plus the sort-item handler (the function that appends to SortItems)
	prepared := map[*types.Var]token.Pos{}
	if fn := byName("prepareProjection"); fn == nil {
		r.Undecide("C01-R9: Translator.prepareProjection not found")
		return
	} else {
		walk(fn, 0, map[*types.Func]bool{}, prepared, map[*types.Var]token.Pos{})
	}
	for i := 0; i < st.NumFields(); i++ {
		if f := st.Field(i); f.Name() == "SortItems" {
			// appended to in the walker's Enter/Exit for *cypher.SortItem
			for _, fd := range decls {
				ast.Inspect(fd.Body, func(x ast.Node) bool {
					if as, ok := x.(*ast.AssignStmt); ok {
						for _, l := range as.Lhs {
							if sel, ok := ast.Unparen(l).(*ast.SelectorExpr); ok && info.Uses[sel.Sel] == f {
								prepared[f] = sel.Pos()
							}
						}
					}
					return true
				})
			}
		}
	}
	// only the clause-carrying fields: those whose type is a pgsql expression or a slice of order items
	var clause []*types.Var
	for f := range prepared {
		switch f.Name() {
		case "projections":
			continue // the container itself; its parts are read by construction of the select
		}
		clause = append(clause, f)
	}
	sort.Slice(clause, func(i, j int) bool { return clause[i].Name() < clause[j].Name() })
	if len(clause) < 3 {
		r.Undecide("C01-R9: fewer than three prepared clause fields of QueryPart found (%d)", len(clause))
		return
	}
	for _, builder := range []string{"buildTailProjection", "buildMultiPartQuery"} {
		fn := byName(builder)
		if fn == nil {
			r.Undecide("C01-R9: Translator.%s not found", builder)
			continue
		}
		reads := map[*types.Var]token.Pos{}
		walk(fn, 0, map[*types.Func]bool{}, map[*types.Var]token.Pos{}, reads)
		for _, f := range clause {
			construct := builder + ":QueryPart." + f.Name()
			if pos, ok := reads[f]; ok {
				r.Pass("C01-R9-part-state-consumed", construct, pos, "the prepared %s of a part is read when its SQL is built", f.Name())
			} else {
				r.Fail("C01-R9-part-state-consumed", construct, decls[fn].Pos(), "%s never reads QueryPart.%s, which the projection preparer sets for every part (%s): for the parts this builder handles the clause is dropped from the SQL without an error — `match (n) with n limit 1 return n` returns every node", builder, f.Name(), r.Fset.Position(prepared[f]))
			}
		}
	}
}
