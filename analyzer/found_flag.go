package main

// found-flag-overwritten: a search loop that records "found it" in a boolean declared outside the loop, by assigning the
// outcome of the test made on the current element (`met = other.Contains(x)`), keeps only the outcome of the last
// element tested unless it stops at the first success (a break / return that the flag guards), accumulates
// (`met = met || …`), or only ever sets the flag to true under the test. With none of those, a later element that fails
// the test erases an earlier success and the search answers "not found" for something it found.

import (
	"go/ast"
	"go/token"
	"go/types"

	"golang.org/x/tools/go/packages"
)

func checkFoundFlagOverwritten(r *Run, rule string, p *packages.Package, consequence string) {
	info := p.TypesInfo
	n := 0
	nth := map[string]int{}
	for _, f := range p.Syntax {
		for _, d := range f.Decls {
			fd, ok := d.(*ast.FuncDecl)
			if !ok || fd.Body == nil {
				continue
			}
			ast.Inspect(fd.Body, func(x ast.Node) bool {
				var body *ast.BlockStmt
				callback := false
				switch l := x.(type) {
				case *ast.ForStmt:
					body = l.Body
				case *ast.RangeStmt:
					body = l.Body
				case *ast.CallExpr:
					// the callback form of a loop: `c.Each(func(v T) bool { …; return keepGoing })`
					for _, a := range l.Args {
						if fl, ok := a.(*ast.FuncLit); ok && fl.Type.Results != nil && len(fl.Type.Results.List) == 1 {
							if b, isBasic := info.TypeOf(fl.Type.Results.List[0].Type).Underlying().(*types.Basic); isBasic && b.Kind() == types.Bool {
								body = fl.Body
								callback = true
							}
						}
					}
					if body == nil {
						return true
					}
				default:
					return true
				}
				loop := ast.Node(body)
				if !callback {
					loop = x
				}
				ast.Inspect(body, func(y ast.Node) bool {
					switch y.(type) {
					case *ast.FuncLit:
						return false
					}
					as, ok := y.(*ast.AssignStmt)
					if ok && callback && innermostLoop(body, as) != nil {
						return true
					}
					if !ok || as.Tok != token.ASSIGN || len(as.Lhs) != len(as.Rhs) {
						return true
					}
					for i, l := range as.Lhs {
						id, ok := ast.Unparen(l).(*ast.Ident)
						if !ok {
							continue
						}
						v, ok := info.Uses[id].(*types.Var)
						if !ok {
							continue
						}
						if b, isBasic := v.Type().Underlying().(*types.Basic); !isBasic || b.Kind() != types.Bool {
							continue
						}
						// declared outside this loop
						if v.Pos() >= loop.Pos() && v.Pos() < loop.End() {
							continue
						}
						rhs := ast.Unparen(as.Rhs[i])
						if tv, has := info.Types[rhs]; has && tv.Value != nil {
							continue // a constant: `found = true` under a test, or a reset
						}
						// accumulation: the flag is part of what is assigned
						mentionsSelf := false
						ast.Inspect(rhs, func(z ast.Node) bool {
							if zid, ok := z.(*ast.Ident); ok && info.Uses[zid] == v {
								mentionsSelf = true
							}
							return true
						})
						if mentionsSelf {
							continue
						}
						// the innermost loop around the assignment is this one
						if innermostLoop(body, as) != nil {
							continue
						}
						n++
						nth[funcDeclName(fd)+":"+v.Name()]++
						construct := funcDeclName(fd) + ":" + v.Name()
						if k := nth[construct]; k > 1 {
							construct += "#" + itoa(k)
						}
						if stopsWhenSet(info, body, as, v) || loopCondTestsFlag(info, loop, v) || (callback && returnsFlag(info, body, as, v)) {
							r.Pass(rule, construct, as.Pos(), "the loop stops (or its condition fails) as soon as %s is set", v.Name())
						} else {
							r.Fail(rule, construct, as.Pos(), "%s is assigned the outcome of the test on the current element (%s) on every iteration and nothing stops the loop when it comes out true: an element tested later that fails the test erases an earlier success — %s", v.Name(), exprString(r.Fset, rhs), consequence)
						}
					}
					return true
				})
				return true
			})
		}
	}
	r.Ob(rule, shortPkg(p.PkgPath)+":scanned", token.NoPos, true, "%d per-iteration assignments of a found-flag examined", n)
}

// innermostLoop: a loop nested in body that contains target (nil when target is directly in body's loop).
func innermostLoop(body *ast.BlockStmt, target ast.Node) ast.Node {
	var out ast.Node
	ast.Inspect(body, func(n ast.Node) bool {
		switch n.(type) {
		case *ast.ForStmt, *ast.RangeStmt:
			if nodeContains(n, target) {
				out = n
			}
		}
		return true
	})
	return out
}

// stopsWhenSet: after the assignment, on the way to the end of the loop body, there is a break / return / goto that is
// controlled by the flag (`if met { break }`), or the assignment's own statement list ends in an unconditional leave.
func stopsWhenSet(info *types.Info, body *ast.BlockStmt, as *ast.AssignStmt, flag *types.Var) bool {
	found := false
	ast.Inspect(body, func(n ast.Node) bool {
		if _, isLit := n.(*ast.FuncLit); isLit {
			return false
		}
		var leave ast.Node
		switch t := n.(type) {
		case *ast.BranchStmt:
			if t.Tok == token.BREAK || t.Tok == token.GOTO {
				leave = t
			}
		case *ast.ReturnStmt:
			leave = t
		}
		if leave == nil || leave.Pos() < as.Pos() {
			return true
		}
		for _, l := range controlConds(body, leave) {
			mentions := false
			ast.Inspect(l.Expr, func(z ast.Node) bool {
				if zid, ok := z.(*ast.Ident); ok && info.Uses[zid] == flag {
					mentions = true
				}
				return true
			})
			if mentions {
				found = true
			}
		}
		// a return of the flag itself right after the assignment (`met = t; if met { return true }` is covered above)
		return true
	})
	return found
}

// loopCondTestsFlag: `for !found && …` — the loop's own condition mentions the flag.
func loopCondTestsFlag(info *types.Info, loop ast.Node, flag *types.Var) bool {
	fs, ok := loop.(*ast.ForStmt)
	if !ok || fs.Cond == nil {
		return false
	}
	mentions := false
	ast.Inspect(fs.Cond, func(z ast.Node) bool {
		if zid, ok := z.(*ast.Ident); ok && info.Uses[zid] == flag {
			mentions = true
		}
		return true
	})
	return mentions
}

// returnsFlag: in the callback form the iteration is told to stop through the callback's result: a return after the
// assignment whose value mentions the flag (`return !found`).
func returnsFlag(info *types.Info, body *ast.BlockStmt, as *ast.AssignStmt, flag *types.Var) bool {
	found := false
	ast.Inspect(body, func(n ast.Node) bool {
		if _, isLit := n.(*ast.FuncLit); isLit {
			return false
		}
		rs, ok := n.(*ast.ReturnStmt)
		if !ok || rs.Pos() < as.Pos() || len(rs.Results) != 1 {
			return true
		}
		ast.Inspect(rs.Results[0], func(z ast.Node) bool {
			if zid, ok := z.(*ast.Ident); ok && info.Uses[zid] == flag {
				found = true
			}
			return true
		})
		return true
	})
	return found
}

// checkFlagPairedWithPush: a traversal that delivers a path only when it could not be extended records "extended" in a
// flag while it pushes the extensions onto its work list. The flag is true exactly when something was pushed only if,
// on every path through the body that visits one candidate, the flag is set if and only if a push happens. A flag set
// before a filter that can still reject the candidate marks a path as extended although nothing was queued, and that
// path is never delivered.
func checkFlagPairedWithPush(r *Run, rule string, p *packages.Package) {
	info := p.TypesInfo
	n := 0
	isPush := func(m ast.Node) bool {
		call, ok := m.(*ast.CallExpr)
		if !ok {
			return false
		}
		if sel, ok := call.Fun.(*ast.SelectorExpr); ok {
			switch sel.Sel.Name {
			case "PushBack", "PushFront", "Push", "push", "Enqueue", "enqueue":
				return true
			}
		}
		return false
	}
	for _, f := range p.Syntax {
		for _, d := range f.Decls {
			fd, ok := d.(*ast.FuncDecl)
			if !ok || fd.Body == nil {
				continue
			}
			nth := 0
			ast.Inspect(fd.Body, func(x ast.Node) bool {
				var body *ast.BlockStmt
				switch l := x.(type) {
				case *ast.FuncLit:
					body = l.Body
				case *ast.RangeStmt:
					body = l.Body
				case *ast.ForStmt:
					body = l.Body
				default:
					return true
				}
				// flags set to true directly in this body (not in a nested body) that are declared outside it
				flags := map[*types.Var]bool{}
				hasPush := false
				var scan func(n ast.Node)
				scan = func(n ast.Node) {
					ast.Inspect(n, func(m ast.Node) bool {
						switch t := m.(type) {
						case *ast.FuncLit, *ast.RangeStmt, *ast.ForStmt:
							return m == n
						case *ast.AssignStmt:
							if t.Tok != token.ASSIGN || len(t.Lhs) != len(t.Rhs) {
								return true
							}
							for i, l := range t.Lhs {
								id, ok := ast.Unparen(l).(*ast.Ident)
								if !ok {
									continue
								}
								v, ok := info.Uses[id].(*types.Var)
								if !ok || (v.Pos() >= body.Pos() && v.Pos() < body.End()) {
									continue
								}
								if tv, has := info.Types[t.Rhs[i]]; has && tv.Value != nil && tv.Value.String() == "true" {
									flags[v] = true
								}
							}
						}
						if isPush(m) {
							hasPush = true
						}
						return true
					})
				}
				scan(body)
				if len(flags) == 0 || !hasPush {
					return true
				}
				paths, complete := structuredPaths(info, r.Fset, body.List, 128)
				if !complete {
					return true
				}
				for flag := range flags {
					n++
					nth++
					construct := funcDeclName(fd) + ":" + flag.Name()
					if nth > 1 {
						construct += "#" + itoa(nth)
					}
					bad := ""
					for _, pth := range paths {
						set, pushed := false, false
						for _, leaf := range pth.Leaves {
							if isCompoundLeaf(leaf) {
								continue
							}
							ast.Inspect(leaf, func(m ast.Node) bool {
								if _, isLit := m.(*ast.FuncLit); isLit {
									return false
								}
								if as, ok := m.(*ast.AssignStmt); ok && as.Tok == token.ASSIGN && len(as.Lhs) == len(as.Rhs) {
									for i, l := range as.Lhs {
										if id, ok := ast.Unparen(l).(*ast.Ident); ok && info.Uses[id] == flag {
											if tv, has := info.Types[as.Rhs[i]]; has && tv.Value != nil && tv.Value.String() == "true" {
												set = true
											}
										}
									}
								}
								if isPush(m) {
									pushed = true
								}
								return true
							})
						}
						if set != pushed && bad == "" {
							bad = joinStrings(pth.Taken, ", ")
							if bad == "" {
								bad = "the unconditional path"
							}
							if set {
								bad = "on the path [" + bad + "] " + flag.Name() + " is set although nothing is pushed"
							} else {
								bad = "on the path [" + bad + "] a candidate is pushed without " + flag.Name() + " being set"
							}
						}
					}
					if bad == "" {
						r.Pass(rule, construct, body.Pos(), "%s is set on exactly the paths that push a candidate (%d paths)", flag.Name(), len(paths))
					} else {
						r.Fail(rule, construct, body.Pos(), "%s: the traversal reads %s as \"this path was extended\"; a path whose candidates are all refused after the flag was set is taken for extended, nothing is queued for it and it is never handed to the visitor — the traversal returns fewer paths than the graph has", bad, flag.Name())
					}
				}
				return true
			})
		}
	}
	r.Ob(rule, shortPkg(p.PkgPath)+":scanned", token.NoPos, true, "%d extension flags paired with a push examined", n)
}
