package main

// Three small structural rules of the copy/walk property that came out of refactorings gone wrong.
//
// optional-break: a loop over a list written out in place — `for _, x := range []T{n.Where, n.Having}` — visits
// independent optional parts. Leaving the loop (break, return) because one of them is nil skips the ones after it; the
// nil part is to be passed over (continue).
//
// self-append: `append(xs[:0], xs...)` does not copy: the zero-length re-slice keeps the capacity, so the elements are
// written back into the array they came from and the result is the original slice. (`xs[:0:0]` has no capacity and does
// copy.)
//
// slice-deep: in cypher.Copy, a case for a slice whose elements are references into the model (pointers to model structs,
// model interfaces) has to go through a helper that copies each element with Copy; a helper that only allocates a new
// slice leaves the copy holding the original's nodes.

import (
	"go/ast"
	"go/token"
	"go/types"

	"golang.org/x/tools/go/packages"
)

func checkOptionalListBreak(r *Run, rule string, pkgs ...*packages.Package) {
	n := 0
	for _, p := range pkgs {
		info := p.TypesInfo
		for _, f := range p.Syntax {
			for _, d := range f.Decls {
				fd, ok := d.(*ast.FuncDecl)
				if !ok || fd.Body == nil {
					continue
				}
				ast.Inspect(fd.Body, func(x ast.Node) bool {
					rs, ok := x.(*ast.RangeStmt)
					if !ok {
						return true
					}
					lit, ok := ast.Unparen(rs.X).(*ast.CompositeLit)
					if !ok || len(lit.Elts) < 2 {
						return true
					}
					val, ok := rs.Value.(*ast.Ident)
					if !ok {
						return true
					}
					valObj := info.Defs[val]
					n++
					construct := funcDeclName(fd) + ":range " + exprString(r.Fset, rs.X)
					var bad ast.Node
					var visit func(list []ast.Stmt, underNil bool)
					visit = func(list []ast.Stmt, underNil bool) {
						for _, st := range list {
							switch t := st.(type) {
							case *ast.IfStmt:
								nilTest := false
								if be, ok := ast.Unparen(t.Cond).(*ast.BinaryExpr); ok && be.Op == token.EQL {
									for _, pair := range [][2]ast.Expr{{be.X, be.Y}, {be.Y, be.X}} {
										if id, ok := ast.Unparen(pair[0]).(*ast.Ident); ok && info.Uses[id] == valObj && isNilIdent(info, ast.Unparen(pair[1])) {
											nilTest = true
										}
									}
								}
								if call, ok := ast.Unparen(t.Cond).(*ast.CallExpr); ok && len(call.Args) == 1 {
									// isNilNode(x) and the like: a one-argument predicate over the element whose name says nil
									if id, ok := ast.Unparen(call.Args[0]).(*ast.Ident); ok && info.Uses[id] == valObj {
										if fn := calleeOf(info, call); fn != nil && containsFold(fn.Name(), "nil") {
											nilTest = true
										}
									}
								}
								visit(t.Body.List, underNil || nilTest)
								if b, ok := t.Else.(*ast.BlockStmt); ok {
									visit(b.List, underNil)
								}
							case *ast.BlockStmt:
								visit(t.List, underNil)
							case *ast.BranchStmt:
								if underNil && t.Tok == token.BREAK && t.Label == nil && bad == nil {
									bad = t
								}
							case *ast.ReturnStmt:
								if underNil && bad == nil {
									// returning an error for a missing part is a refusal, not a skipped visit
									refuses := false
									for _, res := range t.Results {
										if tt := info.TypeOf(res); tt != nil && types.Identical(tt, types.Universe.Lookup("error").Type()) && !isNilIdent(info, ast.Unparen(res)) {
											refuses = true
										}
									}
									if !refuses {
										bad = t
									}
								}
							}
						}
					}
					visit(rs.Body.List, false)
					if bad != nil {
						r.Fail(rule, construct, bad.Pos(), "the loop over the parts written out in %s is left when one part is nil: the parts listed after it are never visited although they are set independently (the nil part is to be passed over with continue)", exprString(r.Fset, rs.X))
					} else {
						r.Pass(rule, construct, rs.Pos(), "a nil part is passed over, the loop goes on to the parts after it")
					}
					return true
				})
			}
		}
	}
	r.Counts[rule+":loops"] = n
}

func containsFold(s, sub string) bool {
	ls, lsub := []rune(s), []rune(sub)
	lower := func(r rune) rune {
		if r >= 'A' && r <= 'Z' {
			return r + 32
		}
		return r
	}
	for i := 0; i+len(lsub) <= len(ls); i++ {
		ok := true
		for j := range lsub {
			if lower(ls[i+j]) != lower(lsub[j]) {
				ok = false
				break
			}
		}
		if ok {
			return true
		}
	}
	return false
}

func checkSelfAppendClone(r *Run, rule string, pkgs ...*packages.Package) {
	for _, p := range pkgs {
		info := p.TypesInfo
		for _, f := range p.Syntax {
			for _, d := range f.Decls {
				fd, ok := d.(*ast.FuncDecl)
				if !ok || fd.Body == nil {
					continue
				}
				ast.Inspect(fd.Body, func(x ast.Node) bool {
					call, ok := x.(*ast.CallExpr)
					if !ok || len(call.Args) != 2 || !call.Ellipsis.IsValid() {
						return true
					}
					if id, ok := call.Fun.(*ast.Ident); !ok || id.Name != "append" || info.Uses[id] != types.Universe.Lookup("append") {
						return true
					}
					se, ok := ast.Unparen(call.Args[0]).(*ast.SliceExpr)
					if !ok || se.Slice3 || se.Low != nil && !isZeroLit(info, se.Low) || se.High == nil || !isZeroLit(info, se.High) {
						return true
					}
					if exprString(r.Fset, se.X) != exprString(r.Fset, call.Args[1]) {
						return true
					}
					r.Fail(rule, funcDeclName(fd)+":append("+exprString(r.Fset, call.Args[0])+", …)", call.Pos(), "`append(%s, %s...)` does not copy: the zero-length re-slice keeps the capacity, so the elements are written back into the array they came from and the result shares its storage with the original (a copy needs %s[:0:0] or slices.Clone)", exprString(r.Fset, call.Args[0]), exprString(r.Fset, call.Args[1]), exprString(r.Fset, se.X))
					return true
				})
			}
		}
	}
	r.Pass(rule, "scan", token.NoPos, "no slice is \"copied\" by appending it to a zero-length re-slice of itself (obligation of the scan; each occurrence fails on its own)")
}

func isZeroLit(info *types.Info, e ast.Expr) bool {
	tv, has := info.Types[e]
	return has && tv.Value != nil && tv.Value.String() == "0"
}

func checkCopySliceDepth(r *Run, rule string, cp *packages.Package) {
	info := cp.TypesInfo
	decls := FuncDecls(cp)
	copyFd := decls["Copy"]
	if copyFd == nil || copyFd.Body == nil {
		r.Note("%s: cypher.Copy not found", rule)
		return
	}
	copyFn, _ := info.Defs[copyFd.Name].(*types.Func)
	callsCopy := func(fd *ast.FuncDecl) bool {
		found := false
		ast.Inspect(fd.Body, func(n ast.Node) bool {
			if call, ok := n.(*ast.CallExpr); ok {
				if fn := calleeOf(info, call); fn != nil && fn.Origin() == copyFn {
					found = true
				}
			}
			return !found
		})
		return found
	}
	refElem := func(t types.Type) bool {
		sl, ok := t.Underlying().(*types.Slice)
		if !ok {
			return false
		}
		switch e := sl.Elem().(type) {
		case *types.Pointer:
			if n := namedOf(e.Elem()); n != nil && n.Obj().Pkg() == cp.Types {
				_, isStruct := n.Underlying().(*types.Struct)
				return isStruct
			}
		case *types.Named:
			if _, isIface := e.Underlying().(*types.Interface); isIface && e.Obj().Pkg() == cp.Types {
				return true
			}
		}
		return false
	}
	n := 0
	ast.Inspect(copyFd.Body, func(x ast.Node) bool {
		cc, ok := x.(*ast.CaseClause)
		if !ok || len(cc.List) != 1 {
			return true
		}
		tv, has := info.Types[cc.List[0]]
		if !has || !tv.IsType() || !refElem(tv.Type) {
			return true
		}
		n++
		construct := "Copy:case " + types.TypeString(tv.Type, types.RelativeTo(cp.Types))
		deep, via := false, ""
		for _, st := range cc.Body {
			ast.Inspect(st, func(m ast.Node) bool {
				call, ok := m.(*ast.CallExpr)
				if !ok {
					return true
				}
				fn := calleeOf(info, call)
				if fn == nil || fn.Pkg() != cp.Types {
					return true
				}
				if fn.Origin() == copyFn {
					deep, via = true, "Copy"
					return true
				}
				if hd := decls[declKeyOf(fn.Origin())]; hd != nil && hd.Body != nil {
					via = fn.Name()
					if callsCopy(hd) {
						deep = true
					}
				}
				return true
			})
		}
		if deep {
			r.Pass(rule, construct, cc.Pos(), "every element is copied with Copy (through %s)", via)
		} else {
			r.Fail(rule, construct, cc.Pos(), "the elements of this slice are references into the model, but the case copies only the slice (through %s, which never calls Copy): the copy holds the original's nodes, and a rewrite of the copy changes the caller's query", via)
		}
		return true
	})
	r.Counts[rule+":cases"] = n
}
