package main

// C09 — the default parse context admits read-only queries only.
// Decided from the grammar, the filter types and ~60 lines of dispatch code.

import (
	"go/ast"
	"go/token"
	"go/types"
	"path/filepath"
	"strings"
)

func init() { register("C09", checkC09) }

var c09NamedEffectful = []string{
	"oC_Create", "oC_Merge", "oC_CreateUnique", "oC_Foreach", "oC_Delete", "oC_Set", "oC_Remove",
	"oC_MergeAction", "oC_SetItem", "oC_RemoveItem", "oC_InQueryCall", "oC_StandaloneCall",
	"oC_ExplicitProcedureInvocation", "oC_ImplicitProcedureInvocation", "oC_Parameter", "oC_LegacyParameter",
	"oC_Command", "oC_CreateIndex", "oC_DropIndex", "oC_CreateUniqueConstraint", "oC_DropUniqueConstraint",
	"oC_CreateNodePropertyExistenceConstraint", "oC_DropNodePropertyExistenceConstraint",
	"oC_CreateRelationshipPropertyExistenceConstraint", "oC_DropRelationshipPropertyExistenceConstraint",
	"oC_BulkImportQuery", "oC_PeriodicCommitHint", "oC_UpdatingClause",
}

var cypherUpdatingTypes = []string{"UpdatingClause", "Create", "Delete", "Set", "SetItem", "Remove", "RemoveItem", "Merge", "MergeAction"}

func loadGrammar(r *Run) *Grammar {
	g, err := ParseGrammar(filepath.Join(r.RepoDir, "cypher/grammar/Cypher.g4"))
	if err != nil {
		r.Fatal("grammar: %v", err)
	}
	crossCheckGrammar(r, g)
	return g
}

// crossCheckGrammar re-derives rule-reference sets and named-token sets from the generated
// parser and refuses to continue when the .g4 and the generated code disagree.
func crossCheckGrammar(r *Run, g *Grammar) {
	pp := r.MustPkg("cypher/parser")
	methods := map[string]*ast.FuncDecl{}
	for _, f := range pp.Syntax {
		for _, d := range f.Decls {
			if fd, ok := d.(*ast.FuncDecl); ok && fd.Recv != nil && recvTypeName(fd.Recv.List[0].Type) == "CypherParser" && strings.HasPrefix(fd.Name.Name, "OC_") {
				methods["oC_"+fd.Name.Name[3:]] = fd
			}
		}
	}
	if len(methods) != len(g.Rules) {
		r.Fatal("grammar/parser disagreement: %d grammar rules vs %d generated rule methods", len(g.Rules), len(methods))
	}
	for _, rule := range g.RuleOrder {
		fd := methods[rule]
		if fd == nil {
			r.Fatal("grammar/parser disagreement: rule %s has no generated method", rule)
		}
		calls := map[string]bool{}
		toks := map[string]bool{}
		ast.Inspect(fd.Body, func(n ast.Node) bool {
			switch x := n.(type) {
			case *ast.CallExpr:
				if sel, ok := x.Fun.(*ast.SelectorExpr); ok {
					if id, ok := sel.X.(*ast.Ident); ok && id.Name == "p" && strings.HasPrefix(sel.Sel.Name, "OC_") {
						calls["oC_"+sel.Sel.Name[3:]] = true
					}
				}
			case *ast.Ident:
				if strings.HasPrefix(x.Name, "CypherParser") && !strings.HasPrefix(x.Name, "CypherParserRULE_") && x.Name != "CypherParser" {
					if c, ok := pp.TypesInfo.Uses[x].(*types.Const); ok && c != nil {
						toks[strings.TrimPrefix(x.Name, "CypherParser")] = true
					}
				}
			}
			return true
		})
		want := g.Children(rule)
		got := sortedKeys(calls)
		if strings.Join(want, ",") != strings.Join(got, ",") {
			r.Fatal("grammar/parser disagreement in %s: grammar children %v, generated parser calls %v", rule, want, got)
		}
		// named tokens: the generated rule context has one accessor (X() or AllX()) per named token of the rule
		named, _ := g.Tokens(rule)
		acc := map[string]bool{}
		ctxName := "OC_" + rule[3:] + "Context"
		for _, f := range pp.Syntax {
			for _, d := range f.Decls {
				fd, ok := d.(*ast.FuncDecl)
				if !ok || fd.Recv == nil || recvTypeName(fd.Recv.List[0].Type) != ctxName || fd.Type.Results == nil || len(fd.Type.Results.List) != 1 {
					continue
				}
				rt := exprString(r.Fset, fd.Type.Results.List[0].Type)
				if rt != "antlr.TerminalNode" && rt != "[]antlr.TerminalNode" {
					continue
				}
				if fd.Type.Params != nil && len(fd.Type.Params.List) > 0 {
					continue // X(i int) indexed form
				}
				n := strings.TrimPrefix(fd.Name.Name, "All")
				if n != "SP" && n != "EOF" {
					acc[n] = true
				}
			}
		}
		if got := sortedKeys(acc); strings.Join(got, ",") != strings.Join(named, ",") {
			r.Fatal("grammar/parser disagreement in %s: grammar tokens %v, generated context accessors %v", rule, named, got)
		}
	}
	r.Counts["E2-grammar-crosscheck"] = len(g.RuleOrder)
}

// universallyRejected: rules whose BaseVisitor Enter method reports unsupported and that no visitor type overrides.
func universallyRejected(vm *VisitorModel, g *Grammar) map[string]bool {
	out := map[string]bool{}
	for _, rule := range g.RuleOrder {
		if vm.BaseKind["Enter:"+rule] != "unsupported" {
			continue
		}
		over := false
		for _, vt := range vm.Types {
			if vt.Enter[rule] != nil {
				over = true
			}
		}
		if !over {
			out[rule] = true
		}
	}
	return out
}

func checkC09(r *Run) propMeta {
	meta := propMeta{Level: "proof",
		Explanation: "Every parse tree containing an effectful grammar rule (updating clauses, CALL forms, parameters, schema commands, bulk import) contains a rule at which a filter of DefaultCypherContext — or BaseVisitor's unsupported-rule reporter, overridden by no visitor — unconditionally appends a non-nil error to Context.Errors; the dispatch loop over the filters is unconditional in EnterEveryRule; Context.Errors is append-only and is what parseCypher returns. Dominance is computed on the rule graph of Cypher.g4 (cross-checked against the generated parser), so it covers every grammar position and nesting depth. Updating model nodes are constructed only in handlers of dominated rules, and (O6) the translator constructs DML on persistent tables only under its updating-clause dispatch.",
		Assumptions: []string{"ANTLR ParseTreeWalker.Walk calls listener.EnterEveryRule for every rule node of the tree it is given (runtime contract)",
			"the generated parser implements Cypher.g4 (rule-reference and token sets are cross-checked, the ATN is not)"},
		TrustedBase: []string{"go/types, go/packages (x/tools v0.50.0)", "ANTLR4 Go runtime walker contract", "this analyser"}}
	if err := r.Load("./..."); err != nil {
		r.Fatal("load: %v", err)
	}
	g := loadGrammar(r)
	vm := BuildVisitorModel(r)
	fe := r.MustPkg("cypher/frontend")
	info := fe.TypesInfo
	decls := FuncDecls(fe)

	// ---- O1 filter set -------------------------------------------------------------
	def := decls["DefaultCypherContext"]
	if def == nil {
		r.Fatal("frontend.DefaultCypherContext not found")
	}
	var filterTypes []string
	var newCtxCall *ast.CallExpr
	ast.Inspect(def.Body, func(n ast.Node) bool {
		if rs, ok := n.(*ast.ReturnStmt); ok && len(rs.Results) == 1 {
			if call, ok := ast.Unparen(rs.Results[0]).(*ast.CallExpr); ok {
				if fn := calleeOf(info, call); fn != nil && fn.Name() == "NewContext" && fn.Pkg() == fe.Types {
					newCtxCall = call
				}
			}
		}
		return true
	})
	if newCtxCall == nil || len(def.Body.List) != 1 {
		r.Fail("C09-O1-default-context", "DefaultCypherContext", def.Pos(), "DefaultCypherContext is not a single `return NewContext(filters...)`; the installed filter set cannot be read")
	} else {
		// the filters are written at the call, or come spread from a same-package function whose whole body returns the
		// list (`NewContext(readOnlyFilters()...)`)
		filterArgs := newCtxCall.Args
		if newCtxCall.Ellipsis.IsValid() && len(filterArgs) == 1 {
			if lc, ok := ast.Unparen(filterArgs[0]).(*ast.CallExpr); ok && len(lc.Args) == 0 {
				if lf := calleeOf(info, lc); lf != nil && lf.Pkg() == fe.Types {
					if ld := decls[declKeyOf(lf)]; ld != nil && ld.Body != nil && len(ld.Body.List) == 1 {
						if rs, ok := ld.Body.List[0].(*ast.ReturnStmt); ok && len(rs.Results) == 1 {
							if cl, ok := ast.Unparen(rs.Results[0]).(*ast.CompositeLit); ok {
								filterArgs = cl.Elts
							}
						}
					}
				}
			}
		}
		for _, a := range filterArgs {
			t := vm.visitorTypeOfExpr(a, 0)
			if t == "" || vm.Types[t] == nil {
				r.Fail("C09-O1-default-context", "DefaultCypherContext:arg", a.Pos(), "filter argument %s is not a visitor literal", exprString(r.Fset, a))
				continue
			}
			filterTypes = append(filterTypes, t)
		}
		r.Pass("C09-O1-default-context", "DefaultCypherContext", def.Pos(), "installs filters %v", filterTypes)
	}
	filtered := map[string]bool{}
	filteredBy := map[string]string{}
	for _, ft := range filterTypes {
		vt := vm.Types[ft]
		vt.IsFilter = true
		n := 0
		for rule, h := range vt.Enter {
			always := h.AddsErr != nil && !h.Opaque
			if always {
				// on every derivation of the rule, once the atoms the derivation decides are replaced, what is left holds
				// under every assignment of the others
				ds := g.Derivations(rule)
				if len(ds) == 0 {
					ds = [][]string{nil}
				}
				for _, d := range ds {
					if eq, _ := bEquiv(h.AddsErr.onDeriv(d, g.NonNullable), bTrue); !eq {
						always = false
					}
				}
			}
			if always && filterErrArgsNonNil(vm, h.Decl) {
				filtered[rule] = true
				filteredBy[rule] = ft
				n++
				r.Pass("C09-O1-filter-rejects", ft+".EnterOC_"+rule[3:], h.Decl.Pos(), "records a constant non-nil error on every path")
			} else if len(h.Decl.Body.List) == 0 {
				r.Note("filter %s overrides EnterOC_%s with an empty body (contributes nothing)", ft, rule[3:])
			} else {
				r.Fail("C09-O1-filter-rejects", ft+".EnterOC_"+rule[3:], h.Decl.Pos(), "filter handler does not record a non-nil error on every path (guard: %v)", h.AddsErr)
			}
		}
	}
	// the property needs these four rule families filtered (derived obligations below use `filtered`)
	// ---- O2 dispatch ---------------------------------------------------------------
	checkC09Dispatch(r, vm, g, filtered)

	// ---- O3 error reaches the caller -------------------------------------------------
	checkC09Errors(r, vm)

	// ---- O4 grammar dominance ---------------------------------------------------------
	univ := universallyRejected(vm, g)
	rej := map[string]bool{}
	for k := range filtered {
		rej[k] = true
	}
	for k := range univ {
		rej[k] = true
	}
	r.Extra["filtered_rules"] = sortedKeys(filtered)
	r.Extra["universally_unsupported_rules"] = sortedKeys(univ)
	mand := g.MandatoryContains(rej)

	// O5: handlers that construct updating model nodes add their rule to E
	effectful := map[string]string{}
	for _, n := range c09NamedEffectful {
		if g.Rules[n] != nil {
			effectful[n] = "named by the property"
		} else {
			r.Note("rule %s named by the property does not exist in the grammar", n)
		}
	}
	constructing := updatingConstructors(r, vm)
	for v, vt := range vm.Types {
		for kind, hs := range map[string]map[string]*handlerInfo{"Enter": vt.Enter, "Exit": vt.Exit} {
			for rule, h := range hs {
				if site := reachesConstruction(vm, h.Decl, constructing); site != "" {
					if _, ok := effectful[rule]; !ok {
						effectful[rule] = "handler " + v + "." + kind + "OC_" + rule[3:] + " constructs " + site
					}
					ok, why := dominated(g, rule, rej, mand)
					if ok {
						r.Pass("C09-O5-model-construction", v+"."+kind+"OC_"+rule[3:], h.Decl.Pos(), "constructs %s; rule %s", site, why)
					} else {
						r.Fail("C09-O5-model-construction", v+"."+kind+"OC_"+rule[3:], h.Decl.Pos(), "constructs updating model node %s in a handler of %s, which is reachable without passing a rejected rule: %s", site, rule, why)
					}
				}
			}
		}
	}
	for _, rule := range sortedKeys(effectful) {
		ok, why := dominated(g, rule, rej, mand)
		if ok {
			r.Pass("C09-O4-dominance", rule, token.NoPos, "%s (%s)", why, effectful[rule])
		} else {
			r.Fail("C09-O4-dominance", rule, token.NoPos, "effectful rule reachable without a rejecting rule: %s (%s)", why, effectful[rule])
		}
	}
	// ---- O6 translation consequence -----------------------------------------------------
	checkDMLOrigin(r, "C09-O6-dml-origin")

	r.Floor("C09-O1-filter-rejects", 4)
	r.Floor("C09-O4-dominance", 20)
	r.Floor("C09-O5-model-construction", 6)
	r.Floor("C09-O2-generated-dispatch", 4)
	return meta
}

func filterErrArgsNonNil(vm *VisitorModel, fd *ast.FuncDecl) bool {
	info := vm.pkg.TypesInfo
	ok := false
	bad := false
	// the values handed to AddErrors by fd and by the same-package helpers it calls; a helper's parameter stands for
	// the argument of the call (`s.reject(ErrX)` with `func (s *BaseVisitor) reject(reason error) { s.ctx.AddErrors(reason) }`)
	var visit func(body ast.Node, bind map[types.Object]ast.Expr, depth int)
	visit = func(body ast.Node, bind map[types.Object]ast.Expr, depth int) {
		ast.Inspect(body, func(n ast.Node) bool {
			call, isCall := n.(*ast.CallExpr)
			if !isCall {
				return true
			}
			fn := calleeOf(info, call)
			if fn == vm.ctxAddErrs {
				if len(call.Args) == 0 {
					bad = true
				}
				for _, a := range call.Args {
					if id, isID := ast.Unparen(a).(*ast.Ident); isID {
						if rep, has := bind[info.Uses[id]]; has {
							a = rep
						}
					}
					if vm.nonNilError(a) {
						ok = true
					} else {
						bad = true
					}
				}
				return true
			}
			if fn != nil && fn.Pkg() == vm.pkg.Types && depth < 2 {
				if hd := vm.decls[fn]; hd != nil && hd.Body != nil && hd.Type.Params != nil {
					sub := map[types.Object]ast.Expr{}
					i := 0
					for _, pl := range hd.Type.Params.List {
						for _, nm := range pl.Names {
							if i < len(call.Args) {
								arg := call.Args[i]
								if id, isID := ast.Unparen(arg).(*ast.Ident); isID {
									if rep, has := bind[info.Uses[id]]; has {
										arg = rep
									}
								}
								sub[info.Defs[nm]] = arg
							}
							i++
						}
					}
					visit(hd.Body, sub, depth+1)
				}
			}
			return true
		})
	}
	visit(fd.Body, nil, 0)
	return ok && !bad
}

func dominated(g *Grammar, rule string, rej, mand map[string]bool) (bool, string) {
	if rej[rule] {
		return true, "is itself rejected"
	}
	if mand[rule] {
		return true, "every derivation contains a rejected rule"
	}
	if p := g.PathAvoiding("oC_Cypher", rule, rej); p != nil {
		return false, "path " + strings.Join(p, " > ")
	}
	return true, "every path from oC_Cypher passes a rejected rule"
}

func checkC09Dispatch(r *Run, vm *VisitorModel, g *Grammar, filtered map[string]bool) {
	fe := vm.pkg
	info := fe.TypesInfo
	decls := FuncDecls(fe)
	eer := decls["Context.EnterEveryRule"]
	if eer == nil {
		r.Fatal("Context.EnterEveryRule not found")
	}
	// an unconditional statement — of EnterEveryRule or of a helper method it calls unconditionally — that iterates over
	// all of s.filters and hands each to ctx.EnterRule, before any statement that can leave
	found := false
	eerInl := inlineFuncWith(fe, eer, 2, true)
	for _, st := range eerInl.Top {
		if it := fullIteration(info, st); it != nil {
			coll := resolveLocalCopy(info, eerInl.Body, it.Coll)
			if sel, ok := ast.Unparen(coll).(*ast.SelectorExpr); ok && info.Selections[sel] != nil && info.Selections[sel].Obj() == types.Object(contextFiltersField(fe)) && !it.MayStopEarly {
				for _, bs := range it.Body.List {
					if es, ok := bs.(*ast.ExprStmt); ok {
						if call, ok := es.X.(*ast.CallExpr); ok {
							if s2, ok := call.Fun.(*ast.SelectorExpr); ok && s2.Sel.Name == "EnterRule" && len(call.Args) == 1 && it.IsElem(call.Args[0]) {
								found = true
							}
						}
					}
					if _, isBind := bs.(*ast.AssignStmt); !isBind {
						break // the delivery is the first thing done with the element
					}
				}
			}
			break
		}
		// any statement that can leave before the loop breaks the obligation
		leaves := false
		ast.Inspect(st, func(n ast.Node) bool {
			switch n.(type) {
			case *ast.ReturnStmt, *ast.BranchStmt:
				leaves = true
			case *ast.CallExpr:
				if id, ok := n.(*ast.CallExpr).Fun.(*ast.Ident); ok && id.Name == "panic" {
					leaves = true
				}
			}
			return true
		})
		if leaves {
			break
		}
	}
	if found {
		r.Pass("C09-O2-dispatch-loop", "Context.EnterEveryRule", eer.Pos(), "unconditional loop over s.filters delivering ctx.EnterRule(filter) first")
	} else {
		r.Fail("C09-O2-dispatch-loop", "Context.EnterEveryRule", eer.Pos(), "no unconditional `for _, f := range s.filters { ctx.EnterRule(f) }` at the head of EnterEveryRule")
	}
	// NewContext stores its argument as filters, and nothing else writes the field
	filtersField := contextFiltersField(fe)
	if filtersField == nil {
		r.Fatal("the field of frontend.Context that NewContext fills from its filters argument was not found")
	}
	nc := decls["NewContext"]
	stored := false
	if nc != nil {
		ast.Inspect(nc.Body, func(n ast.Node) bool {
			if kv, ok := n.(*ast.KeyValueExpr); ok {
				if k, ok := kv.Key.(*ast.Ident); ok && info.Uses[k] == filtersField {
					if v, ok := kv.Value.(*ast.Ident); ok {
						if pv, ok := info.Uses[v].(*types.Var); ok && nc.Type.Params != nil && len(nc.Type.Params.List) == 1 && info.Defs[nc.Type.Params.List[0].Names[0]] == pv {
							stored = true
						}
					}
				}
			}
			return true
		})
	}
	if stored {
		r.Pass("C09-O2-filters-stored", "NewContext", nc.Pos(), "stores its variadic argument in Context.filters")
	} else {
		r.Fail("C09-O2-filters-stored", "NewContext", token.NoPos, "NewContext does not store its filters argument unchanged in Context.filters")
	}
	writers := fieldWriters(r, filtersField)
	for _, w := range writers {
		r.Fail("C09-O2-filters-write", w.fn, w.pos, "Context.filters is written outside NewContext's literal: %s", w.text)
	}
	if len(writers) == 0 {
		r.Pass("C09-O2-filters-write", "Context.filters", filtersField.Pos(), "no assignment to Context.filters anywhere in the module")
	}
	// parseCypher passes ctx itself to Walk
	pc := frontendParseFunc(vm.pkg)
	if pc == nil {
		r.Fatal("parseCypher not found")
	}
	walkOK := false
	var ctxParam types.Object
	if pc.Type.Params != nil && len(pc.Type.Params.List) > 0 {
		ctxParam = info.Defs[pc.Type.Params.List[0].Names[0]]
	}
	pcInl := inlineFunc(vm.pkg, pc, 2)
	ast.Inspect(pcInl.Body, func(n ast.Node) bool {
		if call, ok := n.(*ast.CallExpr); ok {
			if fn := calleeOf(info, call); fn != nil && fn.Name() == "Walk" && fn.Pkg() != nil && strings.Contains(fn.Pkg().Path(), "antlr") && len(call.Args) == 2 {
				if a, ok := call.Args[0].(*ast.Ident); ok && pcInl.Obj(a) == ctxParam {
					walkOK = true
				}
			}
		}
		return true
	})
	if walkOK {
		r.Pass("C09-O2-walk-listener", "parseCypher", pc.Pos(), "hands the caller's Context to ParseTreeWalker.Walk as the listener")
	} else {
		r.Fail("C09-O2-walk-listener", "parseCypher", pc.Pos(), "parseCypher does not walk the parse tree with the caller's Context as listener")
	}
	// ParseCypher reaches parseCypher with its ctx unchanged on every non-error path
	if pcx := decls["ParseCypher"]; pcx != nil {
		ok := false
		var p0 types.Object
		if len(pcx.Type.Params.List) > 0 {
			p0 = info.Defs[pcx.Type.Params.List[0].Names[0]]
		}
		ast.Inspect(pcx.Body, func(n ast.Node) bool {
			if call, isCall := n.(*ast.CallExpr); isCall {
				if fn := calleeOf(info, call); fn != nil && isFrontendParseFunc(vm.pkg, fn) && len(call.Args) >= 1 {
					if a, isId := call.Args[0].(*ast.Ident); isId && info.Uses[a] == p0 {
						ok = true
					}
				}
			}
			return true
		})
		if ok {
			r.Pass("C09-O2-walk-listener", "ParseCypher", pcx.Pos(), "delegates to parseCypher with the caller's Context")
		} else {
			r.Fail("C09-O2-walk-listener", "ParseCypher", pcx.Pos(), "ParseCypher does not delegate to parseCypher with the caller's Context")
		}
	}
	// generated EnterRule of each filtered rule calls the matching listener method
	pp := r.MustPkg("cypher/parser")
	pdecls := FuncDecls(pp)
	for _, rule := range sortedKeys(filtered) {
		name := "OC_" + rule[3:] + "Context.EnterRule"
		fd := pdecls[name]
		want := "EnterOC_" + rule[3:]
		ok := false
		if fd != nil {
			ast.Inspect(fd.Body, func(n ast.Node) bool {
				if call, isCall := n.(*ast.CallExpr); isCall {
					if sel, isSel := call.Fun.(*ast.SelectorExpr); isSel && sel.Sel.Name == want {
						ok = true
					}
				}
				return true
			})
		}
		if ok {
			r.Pass("C09-O2-generated-dispatch", name, fd.Pos(), "calls listener.%s", want)
		} else {
			r.Fail("C09-O2-generated-dispatch", name, token.NoPos, "generated EnterRule does not call listener.%s", want)
		}
	}
}

type writeSite struct {
	fn   string
	pos  token.Pos
	text string
}

// fieldWriters: assignments (incl. op-assign, inc/dec, address-of) to the given struct field anywhere in the loaded module packages.
// Composite-literal initialisation is not a write to an existing object and is not reported.
func fieldWriters(r *Run, field *types.Var) []writeSite {
	var out []writeSite
	for path, p := range r.ByPath {
		if !strings.HasPrefix(path, modPath) {
			continue
		}
		for _, f := range p.Syntax {
			for _, d := range f.Decls {
				fd, ok := d.(*ast.FuncDecl)
				if !ok || fd.Body == nil {
					continue
				}
				ast.Inspect(fd.Body, func(n ast.Node) bool {
					check := func(e ast.Expr) {
						e = ast.Unparen(e)
						for {
							switch x := e.(type) {
							case *ast.IndexExpr:
								e = ast.Unparen(x.X)
								continue
							case *ast.SliceExpr:
								e = ast.Unparen(x.X)
								continue
							}
							break
						}
						if sel, ok := e.(*ast.SelectorExpr); ok {
							if s := p.TypesInfo.Selections[sel]; s != nil && s.Obj() == field {
								out = append(out, writeSite{fn: shortPkg(path) + "." + funcDeclName(fd), pos: n.Pos(), text: exprString(r.Fset, n)})
							} else if s != nil && s.Kind() == types.FieldVal && structHoldsField(s.Obj().Type(), field, 0) {
								// the field lives in a struct held by value in this field: assigning the holder replaces it
								out = append(out, writeSite{fn: shortPkg(path) + "." + funcDeclName(fd), pos: n.Pos(), text: exprString(r.Fset, n) + " (replaces the struct that holds " + field.Name() + ")"})
							}
						}
					}
					switch s := n.(type) {
					case *ast.AssignStmt:
						for _, l := range s.Lhs {
							check(l)
						}
					case *ast.IncDecStmt:
						check(s.X)
					case *ast.UnaryExpr:
						if s.Op == token.AND {
							check(s.X)
						}
					}
					return true
				})
			}
		}
	}
	return out
}

func checkC09Errors(r *Run, vm *VisitorModel) {
	fe := vm.pkg
	info := fe.TypesInfo
	decls := FuncDecls(fe)
	var errorsField *types.Var
	if ctxT, ok := fe.Types.Scope().Lookup("Context").(*types.TypeName); ok {
		st := ctxT.Type().Underlying().(*types.Struct)
		for i := 0; i < st.NumFields(); i++ {
			if st.Field(i).Name() == "Errors" {
				errorsField = st.Field(i)
			}
		}
	}
	if errorsField == nil {
		r.Fatal("Context.Errors not found")
	}
	// who-may-write: only `s.Errors = append(s.Errors, err)` inside AddErrors
	for _, w := range fieldWriters(r, errorsField) {
		okWrite := false
		if w.fn == "cypher/frontend.Context.AddErrors" && strings.Contains(strings.ReplaceAll(w.text, " ", ""), ".Errors=append(") {
			okWrite = true
		}
		if okWrite {
			r.Pass("C09-O3-errors-append-only", w.fn, w.pos, "append in AddErrors")
		} else {
			r.Fail("C09-O3-errors-append-only", w.fn, w.pos, "Context.Errors written outside AddErrors' append: %s", w.text)
		}
	}
	// AddErrors: range over errs, append when err != nil, no other statements that could skip
	ae := decls["Context.AddErrors"]
	okAE := false
	if ae != nil && len(ae.Body.List) == 1 {
		if it := fullIteration(info, ae.Body.List[0]); it != nil && !it.MayStopEarly {
			// `if e != nil { append }`, or the guard-clause spelling `if e == nil { continue }; append`
			body := nestGuardClauses(it.Body.List)
			for len(body) > 1 {
				if as, ok := body[0].(*ast.AssignStmt); ok && as.Tok == token.DEFINE && len(as.Rhs) == 1 && it.IsElem(as.Rhs[0]) {
					body = body[1:]
					continue
				}
				break
			}
			if len(body) == 1 {
				if ifs, ok := body[0].(*ast.IfStmt); ok && ifs.Init == nil {
					var arm []ast.Stmt
					if be, ok := ast.Unparen(ifs.Cond).(*ast.BinaryExpr); ok && isNilIdent(info, be.Y) && it.IsElem(be.X) {
						switch {
						case be.Op == token.NEQ && ifs.Else == nil:
							arm = ifs.Body.List
						case be.Op == token.EQL && len(ifs.Body.List) == 1:
							if br, ok := ifs.Body.List[0].(*ast.BranchStmt); ok && br.Tok == token.CONTINUE && br.Label == nil {
								if eb, ok := ifs.Else.(*ast.BlockStmt); ok {
									arm = eb.List
								}
							}
						}
					}
					if len(arm) == 1 {
						if as, ok := arm[0].(*ast.AssignStmt); ok && len(as.Rhs) == 1 {
							if call, ok := as.Rhs[0].(*ast.CallExpr); ok {
								if id, ok := call.Fun.(*ast.Ident); ok && id.Name == "append" && len(call.Args) == 2 && it.IsElem(call.Args[1]) {
									okAE = true
								}
							}
						}
					}
				}
			}
		}
	}
	if okAE {
		r.Pass("C09-O3-adderrors-shape", "Context.AddErrors", ae.Pos(), "appends every non-nil argument")
	} else {
		r.Fail("C09-O3-adderrors-shape", "Context.AddErrors", token.NoPos, "AddErrors is not `for each err: if err != nil { s.Errors = append(s.Errors, err) }`")
	}
	// parseCypher: every return has errors.Join(ctx.Errors...) as its error result
	pc := frontendParseFunc(vm.pkg)
	nret, okret := 0, 0
	pcInl := inlineFunc(vm.pkg, pc, 2)
	// joinsErrorsOf: e is errors.Join(<ctx>.Errors...), or a call of a Context method on <ctx> whose whole body returns that
	var joinsErrorsOf func(e ast.Expr, isCtx func(*ast.Ident) bool) bool
	joinsErrorsOf = func(e ast.Expr, isCtx func(*ast.Ident) bool) bool {
		call, ok := ast.Unparen(e).(*ast.CallExpr)
		if !ok {
			return false
		}
		fn := calleeOf(info, call)
		if fn == nil {
			return false
		}
		if funcFullName(fn) == "errors.Join" && call.Ellipsis.IsValid() && len(call.Args) == 1 {
			if sel, ok := call.Args[0].(*ast.SelectorExpr); ok {
				if s := info.Selections[sel]; s != nil && s.Obj() == errorsField {
					if id, ok := ast.Unparen(sel.X).(*ast.Ident); ok && isCtx(id) {
						return true
					}
				}
			}
			return false
		}
		sel, ok := ast.Unparen(call.Fun).(*ast.SelectorExpr)
		if !ok || len(call.Args) != 0 || fn.Pkg() != fe.Types {
			return false
		}
		recvID, ok := ast.Unparen(sel.X).(*ast.Ident)
		if !ok || !isCtx(recvID) {
			return false
		}
		md := decls[declKeyOf(fn)]
		if md == nil || md.Body == nil || len(md.Body.List) != 1 || md.Recv == nil || len(md.Recv.List) != 1 || len(md.Recv.List[0].Names) != 1 {
			return false
		}
		ret, ok := md.Body.List[0].(*ast.ReturnStmt)
		if !ok || len(ret.Results) != 1 {
			return false
		}
		mrecv := info.Defs[md.Recv.List[0].Names[0]]
		return joinsErrorsOf(ret.Results[0], func(id *ast.Ident) bool { return info.Uses[id] == mrecv })
	}
	var pcCtx types.Object
	if pc.Type.Params != nil && len(pc.Type.Params.List) > 0 && len(pc.Type.Params.List[0].Names) > 0 {
		pcCtx = info.Defs[pc.Type.Params.List[0].Names[0]]
	}
	ast.Inspect(pcInl.Body, func(n ast.Node) bool {
		if _, ok := n.(*ast.FuncLit); ok {
			return false
		}
		if rs, ok := n.(*ast.ReturnStmt); ok {
			nret++
			if len(rs.Results) == 2 && joinsErrorsOf(rs.Results[1], func(id *ast.Ident) bool { return pcInl.Obj(id) == pcCtx }) {
				okret++
			}
		}
		return true
	})
	if nret > 0 && nret == okret {
		r.Pass("C09-O3-errors-returned", "parseCypher", pc.Pos(), "all %d returns yield errors.Join(ctx.Errors...)", nret)
	} else {
		r.Fail("C09-O3-errors-returned", "parseCypher", pc.Pos(), "%d of %d returns do not yield errors.Join(ctx.Errors...)", nret-okret, nret)
	}
	// ParseCypher returns parseCypher's results unchanged
	if pcx := decls["ParseCypher"]; pcx != nil {
		bad := 0
		n := 0
		ast.Inspect(pcx.Body, func(nd ast.Node) bool {
			if rs, ok := nd.(*ast.ReturnStmt); ok {
				n++
				switch len(rs.Results) {
				case 1:
					if call, ok := ast.Unparen(rs.Results[0]).(*ast.CallExpr); ok {
						if fn := calleeOf(info, call); fn != nil && isFrontendParseFunc(vm.pkg, fn) {
							return true
						}
					}
					bad++
				case 2:
					// must return a non-nil error constant
					if !vm.nonNilError(rs.Results[1]) {
						bad++
					}
				default:
					bad++
				}
			}
			return true
		})
		if bad == 0 && n > 0 {
			r.Pass("C09-O3-errors-returned", "ParseCypher", pcx.Pos(), "returns parseCypher's result or a constant error")
		} else {
			r.Fail("C09-O3-errors-returned", "ParseCypher", pcx.Pos(), "%d return(s) neither forward parseCypher's result nor return a constant error", bad)
		}
	}
}

// updatingConstructors: functions of package cypher that return an updating model type.
func updatingConstructors(r *Run, vm *VisitorModel) map[*types.Func]string {
	cp := r.MustPkg("cypher/models/cypher")
	upd := map[*types.TypeName]bool{}
	for _, n := range cypherUpdatingTypes {
		tn, ok := cp.Types.Scope().Lookup(n).(*types.TypeName)
		if !ok {
			r.Fatal("cypher.%s not found", n)
		}
		upd[tn] = true
	}
	out := map[*types.Func]string{}
	for _, name := range cp.Types.Scope().Names() {
		if fn, ok := cp.Types.Scope().Lookup(name).(*types.Func); ok {
			res := fn.Type().(*types.Signature).Results()
			for i := 0; i < res.Len(); i++ {
				if n := namedOf(res.At(i).Type()); n != nil && upd[n.Obj()] {
					out[fn] = "cypher." + n.Obj().Name()
				}
			}
		}
	}
	vm.run.Extra["updating_model_types"] = cypherUpdatingTypes
	return out
}

func isUpdatingType(t types.Type) string {
	n := namedOf(t)
	if n == nil || n.Obj().Pkg() == nil || !strings.HasSuffix(n.Obj().Pkg().Path(), "cypher/models/cypher") {
		return ""
	}
	for _, u := range cypherUpdatingTypes {
		if n.Obj().Name() == u {
			return "cypher." + u
		}
	}
	return ""
}

// reachesConstruction: does the handler (or a same-package function it calls, transitively) construct
// an updating model node or call AddUpdatingClause?
func reachesConstruction(vm *VisitorModel, fd *ast.FuncDecl, ctors map[*types.Func]string) string {
	seen := map[*ast.FuncDecl]bool{}
	var visit func(fd *ast.FuncDecl, depth int) string
	visit = func(fd *ast.FuncDecl, depth int) string {
		if fd == nil || fd.Body == nil || seen[fd] || depth > 4 {
			return ""
		}
		seen[fd] = true
		found := ""
		ast.Inspect(fd.Body, func(n ast.Node) bool {
			if found != "" {
				return false
			}
			switch x := n.(type) {
			case *ast.CompositeLit:
				if tv, ok := vm.pkg.TypesInfo.Types[x]; ok {
					if s := isUpdatingType(tv.Type); s != "" {
						found = s + " literal"
					}
				}
			case *ast.CallExpr:
				if id, ok := x.Fun.(*ast.Ident); ok && id.Name == "new" && len(x.Args) == 1 {
					if tv, ok := vm.pkg.TypesInfo.Types[x.Args[0]]; ok {
						if s := isUpdatingType(tv.Type); s != "" {
							found = "new(" + s + ")"
						}
					}
				}
				if fn := calleeOf(vm.pkg.TypesInfo, x); fn != nil {
					if s, ok := ctors[fn]; ok {
						found = s + " via " + fn.Name()
					} else if fn.Name() == "AddUpdatingClause" {
						found = "AddUpdatingClause call"
					} else if fn.Pkg() == vm.pkg.Types {
						if _, _, isH := ruleOfMethod(fn.Name()); !isH {
							if s := visit(vm.decls[fn], depth+1); s != "" {
								found = s
							}
						}
					}
				}
			}
			return true
		})
		return found
	}
	return visit(fd, 0)
}

// structHoldsField: t is a struct type (not a pointer to one) that has field among its fields, directly or in a struct
// it holds by value.
func structHoldsField(t types.Type, field *types.Var, depth int) bool {
	st, ok := t.Underlying().(*types.Struct)
	if !ok || depth > 3 {
		return false
	}
	for i := 0; i < st.NumFields(); i++ {
		f := st.Field(i)
		if f == field || structHoldsField(f.Type(), field, depth+1) {
			return true
		}
	}
	return false
}
