package main

// C14 rules about the serialised forms and the accessors of package container:
//
//	R7 loop-index-offset     a slice indexed with `v - c` where v is a loop variable that starts below c is guarded
//	R8 decoder-wraps-source  once a stream is wrapped in a decompressing reader the wrapped stream is what is read, the
//	                         raw source is not read any more, and a record stream of raw IDs is not split on a delimiter
//	R9 count-accessors       NumNodes and NumEdges of one container are not the same expression

import (
	"go/ast"
	"go/constant"
	"go/token"
	"go/types"
	"sort"
	"strings"

	"golang.org/x/tools/go/packages"
)

func checkLoopIndexOffset(r *Run, p *packages.Package) {
	info := p.TypesInfo
	scanned := 0
	for _, f := range p.Syntax {
		for _, d := range f.Decls {
			fd, ok := d.(*ast.FuncDecl)
			if !ok || fd.Body == nil {
				continue
			}
			// loop variables with a constant start
			start := map[types.Object]int64{}
			ast.Inspect(fd.Body, func(x ast.Node) bool {
				switch t := x.(type) {
				case *ast.ForStmt:
					if as, ok := t.Init.(*ast.AssignStmt); ok && as.Tok == token.DEFINE && len(as.Lhs) == 1 && len(as.Rhs) == 1 {
						if id, ok := as.Lhs[0].(*ast.Ident); ok {
							if tv, has := info.Types[as.Rhs[0]]; has && tv.Value != nil && tv.Value.Kind() == constant.Int {
								if v, exact := constant.Int64Val(tv.Value); exact {
									// only counting-up loops keep the start as the minimum
									if inc, ok := t.Post.(*ast.IncDecStmt); ok && inc.Tok == token.INC {
										start[info.Defs[id]] = v
									} else if as2, ok := t.Post.(*ast.AssignStmt); ok && as2.Tok == token.ADD_ASSIGN {
										start[info.Defs[id]] = v
									}
								}
							}
						}
					}
				case *ast.RangeStmt:
					if id, ok := t.Key.(*ast.Ident); ok && t.Tok == token.DEFINE && id.Name != "_" {
						if _, isMap := info.TypeOf(t.X).Underlying().(*types.Map); !isMap {
							start[info.Defs[id]] = 0
						}
					}
				}
				return true
			})
			if len(start) == 0 {
				continue
			}
			ast.Inspect(fd.Body, func(x ast.Node) bool {
				ix, ok := x.(*ast.IndexExpr)
				if !ok {
					return true
				}
				if _, isSlice := info.TypeOf(ix.X).Underlying().(*types.Slice); !isSlice {
					if _, isArr := info.TypeOf(ix.X).Underlying().(*types.Array); !isArr {
						return true
					}
				}
				be, ok := ast.Unparen(ix.Index).(*ast.BinaryExpr)
				if !ok || be.Op != token.SUB {
					scanned++
					return true
				}
				id, ok := ast.Unparen(be.X).(*ast.Ident)
				if !ok {
					return true
				}
				s0, isLoopVar := start[info.Uses[id]]
				tv, has := info.Types[be.Y]
				if !isLoopVar || !has || tv.Value == nil {
					return true
				}
				c, _ := constant.Int64Val(tv.Value)
				scanned++
				construct := funcDisplayName(fd) + ":" + exprString(r.Fset, ix)
				if s0 >= c {
					r.Pass("C14-R7-loop-index-offset", construct, ix.Pos(), "the loop variable starts at %d", s0)
					return true
				}
				if lowerBounded(info, controlConds(fd.Body, ix), info.Uses[id], c) {
					r.Pass("C14-R7-loop-index-offset", construct, ix.Pos(), "guarded by a lower bound on %s", id.Name)
				} else {
					r.Fail("C14-R7-loop-index-offset", construct, ix.Pos(), "%s is evaluated with %s starting at %d and no guard that keeps it at or above %d: the first iteration indexes the slice at %d and panics, so the structure this function rebuilds cannot be produced at all", exprString(r.Fset, ix), id.Name, s0, c, s0-c)
				}
				return true
			})
		}
	}
	if scanned == 0 {
		r.Undecide("C14-R7: no slice index expression found in package %s", p.Name)
		return
	}
	r.Pass("C14-R7-loop-index-offset", p.Name+":scanned", token.NoPos, "%d slice index expressions in functions with counting loops examined", scanned)
}

func funcDisplayName(fd *ast.FuncDecl) string {
	if fd.Recv != nil && len(fd.Recv.List) > 0 {
		return recvTypeName(fd.Recv.List[0].Type) + "." + fd.Name.Name
	}
	return fd.Name.Name
}

// lowerBounded: some controlling condition implies v >= c (v > k with k >= c-1, v >= k with k >= c, v != 0 when c == 1,
// or the negation of v == 0 / v < k).
func lowerBounded(info *types.Info, lits []condLit, v types.Object, c int64) bool {
	isV := func(e ast.Expr) bool {
		id, ok := ast.Unparen(e).(*ast.Ident)
		return ok && info.Uses[id] == v
	}
	constOf := func(e ast.Expr) (int64, bool) {
		tv, has := info.Types[e]
		if !has || tv.Value == nil || tv.Value.Kind() != constant.Int {
			return 0, false
		}
		return constant.Int64Val(tv.Value)
	}
	var holds func(e ast.Expr, neg bool) bool
	holds = func(e ast.Expr, neg bool) bool {
		e = ast.Unparen(e)
		switch t := e.(type) {
		case *ast.UnaryExpr:
			if t.Op == token.NOT {
				return holds(t.X, !neg)
			}
		case *ast.BinaryExpr:
			if t.Op == token.LAND && !neg {
				return holds(t.X, false) || holds(t.Y, false)
			}
			if t.Op == token.LOR && neg {
				return holds(t.X, true) || holds(t.Y, true)
			}
			op, x, y := t.Op, t.X, t.Y
			if !isV(x) && isV(y) {
				x, y = y, x
				switch op {
				case token.LSS:
					op = token.GTR
				case token.LEQ:
					op = token.GEQ
				case token.GTR:
					op = token.LSS
				case token.GEQ:
					op = token.LEQ
				}
			}
			if !isV(x) {
				return false
			}
			k, isConst := constOf(y)
			if !isConst {
				return false
			}
			if neg {
				switch op {
				case token.EQL:
					op = token.NEQ
				case token.NEQ:
					op = token.EQL
				case token.LSS:
					op = token.GEQ
				case token.LEQ:
					op = token.GTR
				case token.GTR:
					op = token.LEQ
				case token.GEQ:
					op = token.LSS
				}
			}
			switch op {
			case token.GTR:
				return k >= c-1
			case token.GEQ:
				return k >= c
			case token.NEQ:
				return k == 0 && c == 1
			}
		}
		return false
	}
	for _, l := range lits {
		if holds(l.Expr, l.Neg) {
			return true
		}
	}
	return false
}

var decoderConstructors = map[string]bool{
	"compress/gzip.NewReader": true, "compress/zlib.NewReader": true, "compress/flate.NewReader": true, "compress/bzip2.NewReader": true,
	"github.com/klauspost/compress/zstd.NewReader": true,
}

func checkDecoderWrapsSource(r *Run, p *packages.Package) {
	info := p.TypesInfo
	n := 0
	for _, f := range p.Syntax {
		for _, d := range f.Decls {
			fd, ok := d.(*ast.FuncDecl)
			if !ok || fd.Body == nil {
				continue
			}
			ast.Inspect(fd.Body, func(x ast.Node) bool {
				var lhs []ast.Expr
				var rhs ast.Expr
				switch t := x.(type) {
				case *ast.AssignStmt:
					if len(t.Rhs) == 1 {
						lhs, rhs = t.Lhs, t.Rhs[0]
					}
				case *ast.ValueSpec:
					if len(t.Values) == 1 {
						for _, nm := range t.Names {
							lhs = append(lhs, nm)
						}
						rhs = t.Values[0]
					}
				}
				call, ok := rhs.(*ast.CallExpr)
				if !ok || len(lhs) == 0 || len(call.Args) == 0 {
					return true
				}
				fn := calleeOf(info, call)
				if fn == nil || !decoderConstructors[funcFullName(fn)] {
					return true
				}
				wrappedID, ok1 := lhs[0].(*ast.Ident)
				srcID, ok2 := ast.Unparen(call.Args[0]).(*ast.Ident)
				if !ok1 || !ok2 {
					return true
				}
				wrapped, src := info.ObjectOf(wrappedID), info.ObjectOf(srcID)
				n++
				construct := funcDisplayName(fd) + ":" + wrappedID.Name
				var rawRead token.Pos
				wrappedRead := false
				ast.Inspect(fd.Body, func(y ast.Node) bool {
					c, ok := y.(*ast.CallExpr)
					if !ok || c.Pos() <= call.End() {
						return true
					}
					for _, a := range c.Args {
						if id, ok := ast.Unparen(a).(*ast.Ident); ok {
							if info.Uses[id] == src && rawRead == token.NoPos {
								rawRead = c.Pos()
							}
							if info.Uses[id] == wrapped {
								wrappedRead = true
							}
						}
					}
					if sel, ok := c.Fun.(*ast.SelectorExpr); ok {
						if id, ok := ast.Unparen(sel.X).(*ast.Ident); ok && sel.Sel.Name != "Close" {
							if info.Uses[id] == src && rawRead == token.NoPos {
								rawRead = c.Pos()
							}
							if info.Uses[id] == wrapped {
								wrappedRead = true
							}
						}
					}
					return true
				})
				switch {
				case rawRead != token.NoPos:
					r.Fail("C14-R8-decoder-wraps-source", construct, rawRead, "%s is read after it was wrapped in %s: the bytes handed on are the compressed ones, so nothing the writer stored is read back", srcID.Name, funcFullName(fn))
				case !wrappedRead:
					r.Fail("C14-R8-decoder-wraps-source", construct, call.Pos(), "the decompressing reader %s is created and never read", wrappedID.Name)
				default:
					r.Pass("C14-R8-decoder-wraps-source", construct, call.Pos(), "after the wrap only the decompressing reader is read")
				}
				return true
			})
		}
	}
	if n == 0 {
		r.Undecide("C14-R8: no decompressing reader found in package %s", p.Name)
	}
	// framing: a function that writes binary.*.PutUint* output must not be paired with a line scanner in the same package
	var putter, delimiter, scanner token.Pos
	for _, f := range p.Syntax {
		ast.Inspect(f, func(x ast.Node) bool {
			switch t := x.(type) {
			case *ast.CallExpr:
				if fn := calleeOf(info, t); fn != nil {
					full := funcFullName(fn)
					if strings.Contains(full, "encoding/binary") && strings.Contains(fn.Name(), "PutUint") && putter == token.NoPos {
						putter = t.Pos()
					}
					if fn.Name() == "Write" && len(t.Args) == 1 {
						if conv, ok := ast.Unparen(t.Args[0]).(*ast.CallExpr); ok && len(conv.Args) == 1 {
							if tv, has := info.Types[conv.Args[0]]; has && tv.Value != nil && tv.Value.Kind() == constant.String && constant.StringVal(tv.Value) == "\n" {
								delimiter = t.Pos()
							}
						}
					}
				}
			case *ast.SelectorExpr:
				if obj := info.Uses[t.Sel]; obj != nil && obj.Pkg() != nil && obj.Pkg().Path() == "bufio" && (obj.Name() == "ScanLines" || obj.Name() == "NewScanner") && scanner == token.NoPos {
					scanner = t.Pos()
				}
			}
			return true
		})
	}
	if putter == token.NoPos {
		r.Undecide("C14-R8: no binary.PutUint* call found in package %s (the segment encoding moved?)", p.Name)
		return
	}
	if delimiter != token.NoPos && scanner != token.NoPos {
		r.Fail("C14-R8-decoder-wraps-source", p.Name+":framing", delimiter, "records of raw little-endian IDs are terminated with a newline and split with a line scanner (%s): an ID with a 0x0A byte (10, 266, 2570, …) cuts its record in two", r.Fset.Position(scanner))
	} else {
		r.Pass("C14-R8-decoder-wraps-source", p.Name+":framing", putter, "binary ID records are not delimiter-framed")
	}
}

func checkCountAccessors(r *Run, p *packages.Package) {
	type pair struct{ nodes, edges *ast.FuncDecl }
	byType := map[string]*pair{}
	for _, f := range p.Syntax {
		for _, d := range f.Decls {
			fd, ok := d.(*ast.FuncDecl)
			if !ok || fd.Body == nil || fd.Recv == nil {
				continue
			}
			tn := recvTypeName(fd.Recv.List[0].Type)
			if byType[tn] == nil {
				byType[tn] = &pair{}
			}
			switch fd.Name.Name {
			case "NumNodes":
				byType[tn].nodes = fd
			case "NumEdges":
				byType[tn].edges = fd
			}
		}
	}
	n := 0
	for _, tn := range sortedKeys(byType) {
		pr := byType[tn]
		if pr.nodes == nil || pr.edges == nil {
			continue
		}
		n++
		body := func(fd *ast.FuncDecl) string {
			var sb strings.Builder
			for _, st := range fd.Body.List {
				sb.WriteString(exprString(r.Fset, st))
				sb.WriteString(";")
			}
			return sb.String()
		}
		if body(pr.nodes) == body(pr.edges) {
			r.Fail("C14-R9-count-accessors", tn, pr.edges.Pos(), "%s.NumEdges and %s.NumNodes have the same body: one of the two counts is not what its name says", tn, tn)
		} else {
			r.Pass("C14-R9-count-accessors", tn, pr.edges.Pos(), "NumNodes and NumEdges are computed differently")
		}
	}
	if n == 0 {
		r.Undecide("C14-R9: no container type with both NumNodes and NumEdges")
	}
}

// checkProjectionCountsFiltered (C14-R10): a projection hides entities of its origin through membership tests on its
// deletion sets. Its iteration methods apply those tests element by element; its count methods must count what the
// iteration yields. A count computed from set sizes (origin count minus the size of a deletion set) agrees only when
// every deleted ID is an entity of the origin, which nothing ensures.
func checkProjectionCountsFiltered(r *Run, p *packages.Package) {
	const rule = "C14-R10-projection-count-filtered"
	info := p.TypesInfo
	n := 0
	for _, tname := range p.Types.Scope().Names() {
		methods := methodsOfType(p, tname)
		for _, pair := range [][2]string{{"NumNodes", "EachNode"}, {"NumEdges", "EachEdge"}} {
			num, each := methods[pair[0]], methods[pair[1]]
			if num == nil || each == nil {
				continue
			}
			filters := func(fd *ast.FuncDecl) map[string]bool {
				out := map[string]bool{}
				recv := recvObj(p, fd)
				ast.Inspect(fd.Body, func(x ast.Node) bool {
					call, ok := x.(*ast.CallExpr)
					if !ok {
						return true
					}
					sel, ok := call.Fun.(*ast.SelectorExpr)
					if !ok || sel.Sel.Name != "Contains" {
						return true
					}
					if fs, ok := ast.Unparen(sel.X).(*ast.SelectorExpr); ok {
						if id, ok := ast.Unparen(fs.X).(*ast.Ident); ok && info.Uses[id] == recv {
							out[fs.Sel.Name] = true
						}
					}
					return true
				})
				return out
			}
			want := filters(each)
			if len(want) == 0 {
				continue
			}
			n++
			got := filters(num)
			// a count that delegates to the iteration inherits its filters
			recv := recvObj(p, num)
			delegates := stmtHasCall(num.Body, func(c *ast.CallExpr) bool {
				sel, ok := c.Fun.(*ast.SelectorExpr)
				if !ok || sel.Sel.Name != pair[1] {
					return false
				}
				id, ok := ast.Unparen(sel.X).(*ast.Ident)
				return ok && info.Uses[id] == recv
			})
			var missing []string
			for f := range want {
				if !got[f] && !delegates {
					missing = append(missing, f)
				}
			}
			sort.Strings(missing)
			construct := tname + "." + pair[0]
			if len(missing) == 0 {
				r.Pass(rule, construct, num.Pos(), "counts with the membership tests that %s applies", pair[1])
			} else {
				r.Fail(rule, construct, num.Pos(), "%s.%s does not test membership in %s element by element as %s does: a count taken from set sizes is off by every deleted ID that is not an entity of the origin (and wraps around below zero)", tname, pair[0], strings.Join(missing, ", "), pair[1])
			}
		}
	}
	if n == 0 {
		r.Undecide("C14-R10: no projection type with filtered iteration and a count found in package %s", p.Name)
	}
}
