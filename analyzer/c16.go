package main

// C16 — caches are bounded, coherent and safe under concurrent use (lock discipline and structure).

import (
	"go/ast"
	"go/token"
	"go/types"
	"sort"
	"strings"

	"golang.org/x/tools/go/packages"
)

func init() { register("C16", checkC16) }

func checkC16(r *Run) propMeta {
	meta := propMeta{Level: "other",
		Explanation: "Decides the lock discipline and structural invariants of both cache implementations: (R1) guarded-by — every access to a field that is written after construction (Sieve.store/queue/hand, entry.value/element, NonExpiringMapCache.store) happens under the cache's RWMutex in a sufficient mode, lock-free helpers are called only by holders; this gives data-race freedom and, since each public operation is one critical section, per-operation atomicity; (R2) no re-entrant acquisition, every Lock has a deferred Unlock; (R3) bounded — every insertion of a new key is dominated by the capacity guard, evict removes an entry on every path, and a non-positive capacity is clamped or never stores; (R4) pairing — store insert ↔ queue push ↔ size+1 and store delete ↔ queue remove ↔ size-1 occur together, keeping the size statistic and the queue in bijection with the store; a removal keyed by a caller-supplied key, with its size decrement, runs only under a comma-ok lookup that found the key; the shared statistics counters are written only by their event methods (size: Put +1 / Delete −1); (R6) every exported operation acquires the lock at most once, itself or through one self-locking helper (one critical section per operation); (R5) stale hand — every queue removal is preceded by moving the eviction hand off the removed element. NOT decided: exactness of hit/miss counters under concurrency, the eviction policy, linearizability as a history property (only the structural sufficient condition 'one critical section per operation').",
		Assumptions: []string{"sync.RWMutex and sync/atomic semantics (Go memory model)", "fields never written after construction are immutable and need no guard"},
		TrustedBase: []string{"go/types", "this analyser"}}
	if err := r.Load("./cache/..."); err != nil {
		r.Fatal("load: %v", err)
	}
	p := r.MustPkg("cache")
	sieve := BuildLockModel(r, p, "Sieve", "entry")
	sieve.Check(r, "C16-R1")
	nemap := BuildLockModel(r, p, "NonExpiringMapCache")
	nemap.Check(r, "C16-R1")
	for _, lm := range []*LockModel{sieve, nemap} {
		checkCacheStructure(r, p, lm)
		checkSingleCriticalSection(r, lm)
		checkDeletePresence(r, p, lm)
	}
	checkCapacityClamp(r, p)
	checkCounterWriters(r, p)
	r.Floor("C16-R1-guarded-by", 18)
	r.Floor("C16-R6-one-critical-section", 8)
	r.Floor("C16-R3-bounded", 2)
	r.Floor("C16-R4-pairing", 5)
	return meta
}

// storeField: the map-typed field of the cache.
func storeField(lm *LockModel) *types.Var {
	st := lm.Type.Underlying().(*types.Struct)
	for i := 0; i < st.NumFields(); i++ {
		if _, ok := st.Field(i).Type().Underlying().(*types.Map); ok {
			return st.Field(i)
		}
	}
	return nil
}

func fieldByTypePath(lm *LockModel, pkgPath, typeName string) *types.Var {
	st := lm.Type.Underlying().(*types.Struct)
	for i := 0; i < st.NumFields(); i++ {
		if n := namedOf(st.Field(i).Type()); n != nil && n.Obj().Pkg() != nil && n.Obj().Pkg().Path() == pkgPath && n.Obj().Name() == typeName {
			return st.Field(i)
		}
	}
	return nil
}

func selectsField(info *types.Info, e ast.Expr, f *types.Var) bool {
	sel, ok := ast.Unparen(e).(*ast.SelectorExpr)
	if !ok || f == nil {
		return false
	}
	s := info.Selections[sel]
	return s != nil && originVar(s.Obj()) == f
}

func mentionsField(info *types.Info, n ast.Node, name string) bool {
	found := false
	ast.Inspect(n, func(x ast.Node) bool {
		if sel, ok := x.(*ast.SelectorExpr); ok && sel.Sel.Name == name {
			found = true
		}
		return !found
	})
	return found
}

func checkCacheStructure(r *Run, p *packages.Package, lm *LockModel) {
	info := p.TypesInfo
	tname := lm.Type.Obj().Name()
	store := storeField(lm)
	queue := fieldByTypePath(lm, "container/list", "List")
	if store == nil {
		r.Undecide("C16: %s has no map-typed store field", tname)
		return
	}
	var hand *types.Var
	st := lm.Type.Underlying().(*types.Struct)
	for i := 0; i < st.NumFields(); i++ {
		if n := namedOf(st.Field(i).Type()); n != nil && n.Obj().Name() == "Element" && n.Obj().Pkg() != nil && n.Obj().Pkg().Path() == "container/list" {
			hand = st.Field(i)
		}
	}
	callsMethodNamed := func(n ast.Node, recvField string, method string) bool {
		found := false
		ast.Inspect(n, func(x ast.Node) bool {
			if call, ok := x.(*ast.CallExpr); ok {
				if sel, ok := call.Fun.(*ast.SelectorExpr); ok && sel.Sel.Name == method {
					if recvField == "" || mentionsField(info, sel.X, recvField) || strings.Contains(exprString(r.Fset, sel.X), recvField) {
						found = true
					}
				}
			}
			return !found
		})
		return found
	}
	// evicting methods: unexported methods whose last top-level statement unconditionally removes an entry
	removesOnAllPaths := map[string]bool{}
	for fn, m := range lm.Methods {
		body := m.Decl.Body.List
		if len(body) == 0 {
			continue
		}
		last := body[len(body)-1]
		// direct delete(store, …) as a top-level statement anywhere, with no return before it
		direct := false
		early := false
		for _, stt := range body {
			ast.Inspect(stt, func(x ast.Node) bool {
				if _, ok := x.(*ast.ReturnStmt); ok && stt != last {
					early = true
				}
				return true
			})
			if es, ok := stt.(*ast.ExprStmt); ok {
				if call, ok := es.X.(*ast.CallExpr); ok {
					if id, ok := call.Fun.(*ast.Ident); ok && id.Name == "delete" && len(call.Args) == 2 && selectsField(info, call.Args[0], store) {
						direct = true
					}
				}
			}
		}
		if direct && !early {
			removesOnAllPaths[fn.Name()] = true
		}
	}
	// second round: methods whose last statement calls a removing method
	for fn, m := range lm.Methods {
		body := m.Decl.Body.List
		if len(body) == 0 || removesOnAllPaths[fn.Name()] {
			continue
		}
		early := false
		for _, stt := range body[:len(body)-1] {
			ast.Inspect(stt, func(x ast.Node) bool {
				if _, ok := x.(*ast.ReturnStmt); ok {
					early = true
				}
				return true
			})
		}
		if es, ok := body[len(body)-1].(*ast.ExprStmt); ok && !early {
			if call, ok := es.X.(*ast.CallExpr); ok {
				if callee := calleeOf(info, call); callee != nil && removesOnAllPaths[callee.Name()] {
					removesOnAllPaths[fn.Name()] = true
				}
			}
		}
	}

	for fn, m := range lm.Methods {
		fname := tname + "." + fn.Name()
		// walk blocks
		var visitBlock func(list []ast.Stmt, conds []ast.Expr, existsThen bool)
		var negConds []ast.Expr // conditions known false here (else arms; guard clauses are nested first)
		visitBlock = func(list []ast.Stmt, conds []ast.Expr, existsThen bool) {
			for i, stt := range list {
				switch s := stt.(type) {
				case *ast.AssignStmt:
					for _, l := range s.Lhs {
						ix, ok := ast.Unparen(l).(*ast.IndexExpr)
						if !ok || !selectsField(info, ix.X, store) {
							continue
						}
						// ---- store insert site
						construct := fname + ":store-insert"
						if existsThen {
							r.Pass("C16-R3-bounded", construct+"(update)", s.Pos(), "assignment in the branch where the key already exists: no new entry")
							continue
						}
						guarded := ""
						offByOne := ""
						for _, c := range conds {
							if mentionsField(info, c, "Capacity") {
								if capacityCompare(info, c, true) {
									guarded = "enclosing condition " + exprString(r.Fset, c)
								} else {
									offByOne = exprString(r.Fset, c)
								}
							}
						}
						for _, c := range negConds {
							if mentionsField(info, c, "Capacity") {
								if capacityCompare(info, c, false) {
									guarded = "reached only when `" + exprString(r.Fset, c) + "` is false"
								} else {
									offByOne = "!(" + exprString(r.Fset, c) + ")"
								}
							}
						}
						for _, prev := range list[:i] {
							if ifs, ok := prev.(*ast.IfStmt); ok && mentionsField(info, ifs.Cond, "Capacity") {
								// body must call an evicting method
								ev := false
								ast.Inspect(ifs.Body, func(x ast.Node) bool {
									if call, ok := x.(*ast.CallExpr); ok {
										if callee := calleeOf(info, call); callee != nil && removesOnAllPaths[callee.Name()] {
											ev = true
										}
									}
									return true
								})
								if ev && capacityCompare(info, ifs.Cond, false) {
									guarded = "preceded by `if " + exprString(r.Fset, ifs.Cond) + " { evict }`"
								} else if ev {
									offByOne = exprString(r.Fset, ifs.Cond)
								}
							}
						}
						if guarded == "" && offByOne == "" {
							// the guard may be written with a named condition or a predicate method, and it may stand in the
							// callers of a private helper that does the insertion
							guarded, offByOne = capacityGuardFor(p, lm, removesOnAllPaths, m.Decl, s, 0)
						}
						tblDecided, tblBounded, tblPaired, tblWhy := false, false, false, ""
						if guarded == "" || true {
							tblDecided, tblBounded, tblPaired, tblWhy = cachePutTable(p, store, removesOnAllPaths, m.Decl)
						}
						if guarded == "" && offByOne == "" && tblDecided && tblBounded {
							guarded = "decision table over (key present, room left): no run stores a new key into a full cache without evicting first"
						}
						if tblDecided && !tblBounded && m.Decl.Name.IsExported() && offByOne == "" {
							guarded = ""
						}
						if guarded != "" {
							r.Pass("C16-R3-bounded", construct, s.Pos(), "%s", guarded)
						} else if offByOne != "" {
							r.Fail("C16-R3-bounded", construct, s.Pos(), "the capacity test `%s` admits an insertion when the cache already holds Capacity entries: it can hold Capacity+1", offByOne)
						} else {
							r.Fail("C16-R3-bounded", construct, s.Pos(), "a new key is inserted into %s.%s without a dominating capacity test: the cache can exceed its capacity", tname, store.Name())
						}
						// pairing: stats.Put (and queue push) in the same function
						hasPut := callsMethodNamed(m.Decl.Body, "", "Put") && func() bool {
							// a Put call that is not the cache's own Put: receiver is stats
							ok := false
							ast.Inspect(m.Decl.Body, func(x ast.Node) bool {
								if call, isCall := x.(*ast.CallExpr); isCall {
									if sel, isSel := call.Fun.(*ast.SelectorExpr); isSel && sel.Sel.Name == "Put" && len(call.Args) == 0 {
										ok = true
									}
								}
								return true
							})
							return ok
						}()
						samePut := false
						for _, o := range list {
							if es, ok := o.(*ast.ExprStmt); ok {
								if call, ok := es.X.(*ast.CallExpr); ok {
									if sel, ok := call.Fun.(*ast.SelectorExpr); ok && sel.Sel.Name == "Put" && len(call.Args) == 0 {
										samePut = true
									}
								}
							}
						}
						if tblDecided && !tblPaired && m.Decl.Name.IsExported() {
							// an entry point of the cache: both facts are free there, so what the table finds is reachable
							r.Fail("C16-R4-pairing", fname+":insert↔size+1", s.Pos(), "the size statistic drifts from the number of entries: %s", tblWhy)
						} else if hasPut && samePut {
							r.Pass("C16-R4-pairing", fname+":insert↔size+1", s.Pos(), "stats.Put() in the same block as the insertion")
						} else if tblDecided && tblPaired {
							r.Pass("C16-R4-pairing", fname+":insert↔size+1", s.Pos(), "decision table over (key present, room left): the size statistic is bumped exactly on the runs that store a key that was not there")
						} else if tblDecided && tblWhy != "" {
							r.Fail("C16-R4-pairing", fname+":insert↔size+1", s.Pos(), "the size statistic drifts from the number of entries: %s", tblWhy)
						} else {
							r.Fail("C16-R4-pairing", fname+":insert↔size+1", s.Pos(), "a new key is stored without stats.Put() in the same block: the size statistic drifts from the number of entries")
						}
						if queue != nil {
							if callsMethodNamed(m.Decl.Body, queue.Name(), "PushFront") || callsMethodNamed(m.Decl.Body, queue.Name(), "PushBack") {
								r.Pass("C16-R4-pairing", fname+":insert↔queue-push", s.Pos(), "queue push in the same function")
							} else {
								r.Fail("C16-R4-pairing", fname+":insert↔queue-push", s.Pos(), "a new key is stored without pushing it on the eviction queue: store and queue are no longer in bijection (evict indexes the store with a queued key)")
							}
						}
					}
				case *ast.ExprStmt:
					if call, ok := s.X.(*ast.CallExpr); ok {
						if id, ok := call.Fun.(*ast.Ident); ok && id.Name == "delete" && len(call.Args) == 2 && selectsField(info, call.Args[0], store) {
							sameDelete := false
							sameQueueRemove := false
							for _, o := range list {
								if es, ok := o.(*ast.ExprStmt); ok {
									if c2, ok := es.X.(*ast.CallExpr); ok {
										if sel, ok := c2.Fun.(*ast.SelectorExpr); ok {
											if sel.Sel.Name == "Delete" && len(c2.Args) == 0 {
												sameDelete = true
											}
											if sel.Sel.Name == "Remove" && queue != nil && selectsField(info, sel.X, queue) {
												sameQueueRemove = true
											}
										}
									}
								}
							}
							if sameDelete {
								r.Pass("C16-R4-pairing", fname+":delete↔size-1", s.Pos(), "stats.Delete() in the same block as the removal")
							} else {
								r.Fail("C16-R4-pairing", fname+":delete↔size-1", s.Pos(), "an entry is deleted from the store without stats.Delete() in the same block: the size statistic drifts")
							}
							if queue != nil {
								if sameQueueRemove {
									r.Pass("C16-R4-pairing", fname+":delete↔queue-remove", s.Pos(), "queue.Remove in the same block")
								} else {
									r.Fail("C16-R4-pairing", fname+":delete↔queue-remove", s.Pos(), "an entry is deleted from the store but stays on the eviction queue: evict will index the store with a dangling key and dereference nil")
								}
							}
						}
						// stale hand: the obligation sits at every call of a method that performs queue.Remove itself
						// (and at a direct queue.Remove in an exported method)
						if hand != nil && queue != nil {
							obligated := false
							if sel, ok := call.Fun.(*ast.SelectorExpr); ok && sel.Sel.Name == "Remove" && selectsField(info, sel.X, queue) && fn.Exported() {
								obligated = true
							}
							if callee := calleeOf(info, call); callee != nil {
								if cm := lm.Methods[callee.Origin()]; cm != nil && directQueueRemove(info, cm.Decl, queue) {
									obligated = true
								}
							}
							if obligated {
								construct := fname + ":stale-hand"
								if src := handMaySelectWholeQueue(info, lm, m.Decl, s.Pos(), hand, queue); src != "" {
									r.Fail("C16-R5-stale-hand", construct, s.Pos(), "the eviction hand is set from %s just before the removal: that can be the very element being removed (a single-entry cache), so the hand dangles and the next eviction dereferences nil while holding the lock", src)
								} else if handFixedBefore(info, m.Decl, s.Pos(), hand) {
									r.Pass("C16-R5-stale-hand", construct, s.Pos(), "the eviction hand is moved (or compared and moved) before the element is removed")
								} else {
									r.Fail("C16-R5-stale-hand", construct, s.Pos(), "a queue element is removed without first moving %s.%s off it: the hand keeps pointing at a removed element (its Prev() is nil and its key is no longer in the store)", tname, hand.Name())
								}
							}
						}
					}
				case *ast.IfStmt:
					// comma-ok lookup of the store with `exists` as the condition
					exists := false
					if as, ok := s.Init.(*ast.AssignStmt); ok && len(as.Lhs) == 2 && len(as.Rhs) == 1 {
						if ix, ok := ast.Unparen(as.Rhs[0]).(*ast.IndexExpr); ok && selectsField(info, ix.X, store) {
							if id, ok := as.Lhs[1].(*ast.Ident); ok {
								if c, ok := ast.Unparen(s.Cond).(*ast.Ident); ok && info.Uses[c] == info.Defs[id] {
									exists = true
								}
							}
						}
					}
					if c, ok := ast.Unparen(s.Cond).(*ast.Ident); ok && !exists {
						// `_, exists := s.store[key]` as an earlier statement
						for _, prev := range list[:i] {
							if as, ok := prev.(*ast.AssignStmt); ok && len(as.Lhs) == 2 && len(as.Rhs) == 1 {
								if ix, ok := ast.Unparen(as.Rhs[0]).(*ast.IndexExpr); ok && selectsField(info, ix.X, store) {
									if id, ok := as.Lhs[1].(*ast.Ident); ok && info.Uses[c] == info.Defs[id] {
										exists = true
									}
								}
							}
						}
					}
					visitBlock(s.Body.List, append(conds, s.Cond), exists)
					// the else arm knows the condition is false; `!exists` false means the key exists
					notExists := false
					if u, ok := ast.Unparen(s.Cond).(*ast.UnaryExpr); ok && u.Op == token.NOT {
						if c, ok := ast.Unparen(u.X).(*ast.Ident); ok {
							if as, ok := s.Init.(*ast.AssignStmt); ok && len(as.Lhs) == 2 && len(as.Rhs) == 1 {
								if ix, ok := ast.Unparen(as.Rhs[0]).(*ast.IndexExpr); ok && selectsField(info, ix.X, store) {
									if id, ok := as.Lhs[1].(*ast.Ident); ok && info.Uses[c] == info.Defs[id] {
										notExists = true
									}
								}
							}
							for _, prev := range list[:i] {
								if as, ok := prev.(*ast.AssignStmt); ok && len(as.Lhs) == 2 && len(as.Rhs) == 1 {
									if ix, ok := ast.Unparen(as.Rhs[0]).(*ast.IndexExpr); ok && selectsField(info, ix.X, store) {
										if id, ok := as.Lhs[1].(*ast.Ident); ok && info.Uses[c] == info.Defs[id] {
											notExists = true
										}
									}
								}
							}
						}
					}
					saved := negConds
					negConds = append(append([]ast.Expr(nil), negConds...), s.Cond)
					switch e := s.Else.(type) {
					case *ast.BlockStmt:
						visitBlock(e.List, conds, notExists)
					case *ast.IfStmt:
						visitBlock([]ast.Stmt{e}, conds, notExists)
					}
					negConds = saved
				case *ast.BlockStmt:
					visitBlock(s.List, conds, existsThen)
				case *ast.ForStmt:
					visitBlock(s.Body.List, conds, false)
				case *ast.RangeStmt:
					visitBlock(s.Body.List, conds, false)
				}
			}
		}
		visitBlock(nestGuardClauses(m.Decl.Body.List), nil, false)
	}
}

func directQueueRemove(info *types.Info, fd *ast.FuncDecl, queue *types.Var) bool {
	found := false
	ast.Inspect(fd.Body, func(x ast.Node) bool {
		if call, ok := x.(*ast.CallExpr); ok {
			if sel, ok := call.Fun.(*ast.SelectorExpr); ok && sel.Sel.Name == "Remove" && selectsField(info, sel.X, queue) {
				found = true
			}
		}
		return !found
	})
	return found
}

// handFixedBefore: an assignment to the hand field occurs textually before pos in the function, either unconditionally
// or under a condition that compares with the hand.
func handFixedBefore(info *types.Info, fd *ast.FuncDecl, pos token.Pos, hand *types.Var) bool {
	fixed := false
	ast.Inspect(fd.Body, func(x ast.Node) bool {
		if as, ok := x.(*ast.AssignStmt); ok && as.Pos() < pos {
			for _, l := range as.Lhs {
				if selectsField(info, l, hand) {
					fixed = true
				}
			}
		}
		return true
	})
	return fixed
}

// handMaySelectWholeQueue: the last assignment to the hand field before pos takes its value from an expression that can
// yield queue.Back()/queue.Front() — directly or through a helper method of the cache — rather than only a neighbour
// (Prev()/Next()) of the element that is about to be removed. Returns a description of the source, or "".
func handMaySelectWholeQueue(info *types.Info, lm *LockModel, fd *ast.FuncDecl, pos token.Pos, hand, queue *types.Var) string {
	var last ast.Expr
	ast.Inspect(fd.Body, func(x ast.Node) bool {
		if as, ok := x.(*ast.AssignStmt); ok && as.Pos() < pos && len(as.Lhs) == len(as.Rhs) {
			for i, l := range as.Lhs {
				if selectsField(info, l, hand) {
					last = as.Rhs[i]
				}
			}
		}
		return true
	})
	if last == nil {
		return ""
	}
	var sources func(e ast.Node, depth int) string
	sources = func(e ast.Node, depth int) string {
		found := ""
		ast.Inspect(e, func(x ast.Node) bool {
			call, ok := x.(*ast.CallExpr)
			if !ok || found != "" {
				return found == ""
			}
			if sel, ok := call.Fun.(*ast.SelectorExpr); ok && (sel.Sel.Name == "Back" || sel.Sel.Name == "Front") && selectsField(info, sel.X, queue) {
				found = "queue." + sel.Sel.Name + "()"
				return false
			}
			if callee := calleeOf(info, call); callee != nil && depth < 2 {
				if cm := lm.Methods[callee.Origin()]; cm != nil {
					ast.Inspect(cm.Decl.Body, func(y ast.Node) bool {
						if rs, ok := y.(*ast.ReturnStmt); ok && found == "" {
							for _, res := range rs.Results {
								if sub := sources(res, depth+1); sub != "" {
									found = sub + " (through " + callee.Name() + ")"
								}
							}
						}
						return true
					})
				}
			}
			return true
		})
		return found
	}
	return sources(last, 0)
}

func checkCapacityClamp(r *Run, p *packages.Package) {
	info := p.TypesInfo
	decls := FuncDecls(p)
	// Sieve: constructor clamps non-positive capacity, or evict guards an empty queue
	ns := decls["NewSieve"]
	if ns == nil {
		r.Undecide("C16: NewSieve not found")
		return
	}
	// the capacity the statistics are built with — NewStats(X) in the function that makes the Sieve literal, NewSieve itself
	// or a helper — is at least 1 there
	goodStats, badStats := 0, 0
	sieveT := p.Types.Scope().Lookup("Sieve")
	for _, fd := range decls {
		if fd.Body == nil || sieveT == nil {
			continue
		}
		ast.Inspect(fd.Body, func(x ast.Node) bool {
			cl, ok := x.(*ast.CompositeLit)
			if !ok {
				return true
			}
			if nt := namedOf(info.TypeOf(cl)); nt == nil || nt.Origin().Obj() != sieveT {
				return true
			}
			ast.Inspect(cl, func(y ast.Node) bool {
				call, ok := y.(*ast.CallExpr)
				if !ok || len(call.Args) != 1 {
					return true
				}
				if fn := calleeOf(info, call); fn == nil || fn.Name() != "NewStats" {
					return true
				}
				if good, _ := valueAtLeast(r, p, fd, call.Args[0], call, 1); good {
					goodStats++
				} else {
					badStats++
				}
				return true
			})
			return true
		})
	}
	clamps := goodStats > 0 && badStats == 0
	if clamps {
		r.Pass("C16-R3-capacity-clamp", "NewSieve", ns.Pos(), "a non-positive capacity is replaced by a positive constant before the cache is built (evict is reached only with a non-empty queue)")
	} else {
		// alternative: evict guards an empty queue
		ev := decls["Sieve.evict"]
		guard := false
		if ev != nil {
			ast.Inspect(ev.Body, func(x ast.Node) bool {
				if ifs, ok := x.(*ast.IfStmt); ok {
					txt := exprString(r.Fset, ifs.Cond)
					if strings.Contains(txt, "== nil") || strings.Contains(txt, "Len() == 0") {
						for _, st := range ifs.Body.List {
							if _, ok := st.(*ast.ReturnStmt); ok {
								guard = true
							}
						}
					}
				}
				return true
			})
		}
		if guard {
			r.Pass("C16-R3-capacity-clamp", "NewSieve", ns.Pos(), "evict returns on an empty queue")
		} else {
			r.Fail("C16-R3-capacity-clamp", "NewSieve", ns.Pos(), "capacity ≤ 0 is neither clamped by the constructor nor guarded in evict: the first Put evicts from an empty queue and dereferences a nil list element")
		}
	}
}

// capacityCompare: the condition is `size < Capacity` (admit form, strict) or `size >= Capacity` (evict form).
// Conditions that are not a single comparison are accepted (the engine only refutes the off-by-one shapes).
func capacityCompare(info *types.Info, cond ast.Expr, admit bool) bool {
	be, ok := ast.Unparen(cond).(*ast.BinaryExpr)
	if !ok {
		return true
	}
	op := be.Op
	capLeft := mentionsField(info, be.X, "Capacity")
	capRight := mentionsField(info, be.Y, "Capacity")
	if capLeft == capRight {
		return true
	}
	if capLeft { // normalise to size OP Capacity
		switch op {
		case token.LSS:
			op = token.GTR
		case token.GTR:
			op = token.LSS
		case token.LEQ:
			op = token.GEQ
		case token.GEQ:
			op = token.LEQ
		}
	}
	if admit {
		return op == token.LSS
	}
	return op == token.GEQ || op == token.EQL
}

// checkSingleCriticalSection (R6): a public cache operation is atomic only if it is one critical section.  Lock-taking
// helpers cannot be nested (R2), so an exported method that calls two self-locking methods of its receiver, or locks
// itself and also calls one, performs its check and its update in different critical sections: two concurrent Puts of
// a new key can both find it absent and both insert it.
func checkSingleCriticalSection(r *Run, lm *LockModel) {
	tname := lm.Type.Obj().Name()
	locks := map[*types.Func]bool{}
	var selfLocking func(fn *types.Func, seen map[*types.Func]bool) bool
	selfLocking = func(fn *types.Func, seen map[*types.Func]bool) bool {
		if v, ok := locks[fn]; ok {
			return v
		}
		m := lm.Methods[fn]
		if m == nil || seen[fn] {
			return false
		}
		seen[fn] = true
		res := m.Acquires != modeNone
		for _, c := range m.Calls {
			if c.Held == modeNone && selfLocking(c.Callee.Origin(), seen) {
				res = true
			}
		}
		locks[fn] = res
		return res
	}
	fns := make([]*types.Func, 0, len(lm.Methods))
	for fn := range lm.Methods {
		fns = append(fns, fn)
	}
	sort.Slice(fns, func(i, j int) bool { return fns[i].Name() < fns[j].Name() })
	for _, fn := range fns {
		m := lm.Methods[fn]
		if !fn.Exported() || m.Complex {
			continue
		}
		sections := 0
		var where []string
		// the method's own acquisitions, wherever they stand in the body
		own := 0
		ast.Inspect(m.Decl.Body, func(n ast.Node) bool {
			if _, isLit := n.(*ast.FuncLit); isLit {
				return false
			}
			call, ok := n.(*ast.CallExpr)
			if !ok {
				return true
			}
			if sel, ok := call.Fun.(*ast.SelectorExpr); ok && (sel.Sel.Name == "Lock" || sel.Sel.Name == "RLock") {
				if inner, ok := ast.Unparen(sel.X).(*ast.SelectorExpr); ok {
					if fs := lm.Pkg.TypesInfo.Selections[inner]; fs != nil && fs.Obj() == lm.Mutex {
						own++
					}
				}
			}
			return true
		})
		if own == 0 && m.Acquires != modeNone {
			own = 1
		}
		for i := 0; i < own; i++ {
			sections++
			where = append(where, "own lock")
		}
		for _, c := range m.Calls {
			if c.Held == modeNone && selfLocking(c.Callee.Origin(), map[*types.Func]bool{}) {
				sections++
				where = append(where, c.Callee.Name()+"()")
			}
		}
		construct := tname + "." + fn.Name()
		if sections <= 1 {
			r.Pass("C16-R6-one-critical-section", construct, m.Decl.Pos(), "at most one lock acquisition per call (%s)", strings.Join(where, ", "))
		} else {
			r.Fail("C16-R6-one-critical-section", construct, m.Decl.Pos(), "the public operation %s.%s spans %d critical sections (%s): what the first one observed (key absent, capacity left) may no longer hold when the next one acts, so two concurrent calls can both insert the same new key or exceed the capacity", tname, fn.Name(), sections, strings.Join(where, ", "))
		}
	}
}

// checkDeletePresence (R4, second half): the size statistic is decremented only for a key that was found.  The builtin
// delete is a no-op for an absent key, but stats.Delete() is not: decrementing for an absent key lets the statistic
// drift below the number of stored entries, and the capacity guard (which reads the statistic) then admits more than
// Capacity entries.
func checkDeletePresence(r *Run, p *packages.Package, lm *LockModel) {
	info := p.TypesInfo
	store := storeField(lm)
	if store == nil {
		return
	}
	tname := lm.Type.Obj().Name()
	fns := make([]*types.Func, 0, len(lm.Methods))
	for fn := range lm.Methods {
		fns = append(fns, fn)
	}
	sort.Slice(fns, func(i, j int) bool { return fns[i].Name() < fns[j].Name() })
	for _, fn := range fns {
		m := lm.Methods[fn]
		var stack []ast.Node
		ast.Inspect(m.Decl.Body, func(n ast.Node) bool {
			if n == nil {
				stack = stack[:len(stack)-1]
				return true
			}
			stack = append(stack, n)
			call, ok := n.(*ast.CallExpr)
			if !ok {
				return true
			}
			id, ok := call.Fun.(*ast.Ident)
			if !ok || id.Name != "delete" || len(call.Args) != 2 || !selectsField(info, call.Args[0], store) {
				return true
			}
			construct := tname + "." + fn.Name() + ":delete↔present"
			key := exprString(r.Fset, call.Args[1])
			if _, isIdent := ast.Unparen(call.Args[1]).(*ast.Ident); !isIdent {
				r.Pass("C16-R4-pairing", construct, call.Pos(), "the key %s is read from an entry that was obtained from the store or the queue", key)
				return true
			}
			// the removal is reached only when the ok of a comma-ok lookup of the same key in the store is true: inside
			// `if ok { … }`, or after `if !ok { return }`
			guardedAt := func(decl *ast.FuncDecl, at ast.Node, key string) bool {
				okVars := map[types.Object]bool{}
				ast.Inspect(decl.Body, func(x ast.Node) bool {
					as, isAssign := x.(*ast.AssignStmt)
					if !isAssign || len(as.Lhs) != 2 || len(as.Rhs) != 1 || as.Pos() >= at.Pos() {
						return true
					}
					okID, isID := as.Lhs[1].(*ast.Ident)
					ix, isIndex := ast.Unparen(as.Rhs[0]).(*ast.IndexExpr)
					if isID && isIndex && selectsField(info, ix.X, store) && exprString(r.Fset, ix.Index) == key {
						okVars[info.ObjectOf(okID)] = true
					}
					return true
				})
				var holds func(e ast.Expr, neg bool) bool
				holds = func(e ast.Expr, neg bool) bool {
					e = ast.Unparen(e)
					switch t := e.(type) {
					case *ast.UnaryExpr:
						if t.Op == token.NOT {
							return holds(t.X, !neg)
						}
					case *ast.BinaryExpr:
						if t.Op == token.LAND && !neg {
							return holds(t.X, false) || holds(t.Y, false)
						}
						if t.Op == token.LOR && neg {
							return holds(t.X, true) || holds(t.Y, true)
						}
					case *ast.Ident:
						return !neg && okVars[info.Uses[t]]
					}
					return false
				}
				for _, l := range controlConds(decl.Body, at) {
					if holds(l.Expr, l.Neg) {
						return true
					}
				}
				return false
			}
			guarded := guardedAt(m.Decl, call, key)
			if !guarded && !fn.Exported() {
				// an unexported step (`removeEntry(key)`): every caller among the cache's methods makes the lookup
				if kid, isID := ast.Unparen(call.Args[1]).(*ast.Ident); isID {
					if idx := paramIndexOf(info, m.Decl, info.Uses[kid]); idx >= 0 {
						callers, all := 0, true
						for _, cm := range lm.Methods {
							ast.Inspect(cm.Decl.Body, func(x ast.Node) bool {
								c2, isCall := x.(*ast.CallExpr)
								if !isCall || idx >= len(c2.Args) {
									return true
								}
								if callee := calleeOf(info, c2); callee == nil || callee.Origin() != fn.Origin() {
									return true
								}
								callers++
								if !guardedAt(cm.Decl, c2, exprString(r.Fset, c2.Args[idx])) {
									all = false
								}
								return true
							})
						}
						guarded = callers > 0 && all
					}
				}
			}
			_ = stack
			if guarded {
				r.Pass("C16-R4-pairing", construct, call.Pos(), "the removal and its size decrement run only when the comma-ok lookup of %s found the key", key)
			} else {
				r.Fail("C16-R4-pairing", construct, call.Pos(), "the removal of %s and the size decrement that accompanies it are not guarded by a lookup that found the key: deleting an absent key still decrements the size statistic, the capacity guard then admits more entries than Capacity", key)
			}
			return true
		})
	}
}

// checkCounterWriters (R4, counters): the statistics counters are shared by pointer between every copy of a Stats value
// and the cache that owns it, and the size counter is what the capacity guard reads.  They may be written only by the
// four event methods: size by Put (+1) and Delete (-1), hits by Hit, misses by Miss.  Any other writer — for example a
// "Combined" that accumulates into its receiver copy — changes the live cache's counters.
func checkCounterWriters(r *Run, p *packages.Package) {
	info := p.TypesInfo
	tn, _ := p.Types.Scope().Lookup("Stats").(*types.TypeName)
	if tn == nil {
		r.Undecide("C16-R4: cache.Stats not found")
		return
	}
	st, ok := tn.Type().Underlying().(*types.Struct)
	if !ok {
		return
	}
	// the shared counters: pointer fields of Stats, or of a struct Stats holds by value
	counters := map[*types.Var]bool{}
	var collectCounters func(st *types.Struct, depth int)
	collectCounters = func(st *types.Struct, depth int) {
		for i := 0; i < st.NumFields(); i++ {
			f := st.Field(i)
			if _, isPtr := f.Type().(*types.Pointer); isPtr {
				counters[f] = true
			} else if inner, ok := f.Type().Underlying().(*types.Struct); ok && depth < 2 {
				if n := namedOf(f.Type()); n != nil && n.Obj().Pkg() == p.Types {
					collectCounters(inner, depth+1)
				}
			}
		}
	}
	collectCounters(st, 0)
	// which counter is which is read off the exported event methods that write it with a constant: the size counter is
	// the one Put adds 1 to (and Delete may subtract 1 from), the others belong to Hit and to Miss
	eventOf := map[*types.Var]map[string]string{}
	for _, fd := range declsWhere(p, func(fd *ast.FuncDecl) bool {
		return fd.Recv != nil && recvTypeName(fd.Recv.List[0].Type) == "Stats" && ast.IsExported(fd.Name.Name)
	}) {
		ast.Inspect(fd.Body, func(x ast.Node) bool {
			call, ok := x.(*ast.CallExpr)
			if !ok || len(call.Args) != 1 {
				return true
			}
			sel, ok := call.Fun.(*ast.SelectorExpr)
			if !ok || sel.Sel.Name != "Add" {
				return true
			}
			fsel, ok := ast.Unparen(sel.X).(*ast.SelectorExpr)
			if !ok {
				return true
			}
			fs := info.Selections[fsel]
			if fs == nil {
				return true
			}
			fv, _ := fs.Obj().(*types.Var)
			if !counters[fv] {
				return true
			}
			if tv, has := info.Types[call.Args[0]]; has && tv.Value != nil {
				if eventOf[fv] == nil {
					eventOf[fv] = map[string]string{}
				}
				eventOf[fv]["Stats."+fd.Name.Name] = tv.Value.ExactString()
			}
			return true
		})
	}
	allowed := map[string]map[string]string{}
	for fv, ev := range eventOf {
		switch {
		case ev["Stats.Put"] == "1":
			allowed[fv.Name()] = map[string]string{"Stats.Put": "1", "Stats.Delete": "-1"}
		case ev["Stats.Hit"] == "1":
			allowed[fv.Name()] = map[string]string{"Stats.Hit": "1"}
		case ev["Stats.Miss"] == "1":
			allowed[fv.Name()] = map[string]string{"Stats.Miss": "1"}
		}
	}
	n := 0
	for _, f := range p.Syntax {
		for _, d := range f.Decls {
			fd, ok := d.(*ast.FuncDecl)
			if !ok || fd.Body == nil {
				continue
			}
			ast.Inspect(fd.Body, func(x ast.Node) bool {
				call, ok := x.(*ast.CallExpr)
				if !ok {
					return true
				}
				sel, ok := call.Fun.(*ast.SelectorExpr)
				if !ok {
					return true
				}
				switch sel.Sel.Name {
				case "Add", "Store", "Swap", "CompareAndSwap", "And", "Or":
				default:
					return true
				}
				fsel, ok := ast.Unparen(sel.X).(*ast.SelectorExpr)
				if !ok {
					return true
				}
				fs := info.Selections[fsel]
				if fs == nil || fs.Kind() != types.FieldVal {
					return true
				}
				fv, _ := fs.Obj().(*types.Var)
				if !counters[fv] {
					return true
				}
				// counters of a Stats value this function has just built with fresh counters are not shared with any cache
				if id := rootIdent(fsel.X); id != nil && freshStatsLocal(p, fd, info.Uses[id], counters) {
					return true
				}
				n++
				where := funcDeclName(fd)
				construct := where + ":" + fv.Name() + "." + sel.Sel.Name
				want, isAllowed := allowed[fv.Name()][where]
				arg := ""
				if len(call.Args) == 1 {
					if tv, has := info.Types[call.Args[0]]; has && tv.Value != nil {
						arg = tv.Value.ExactString()
					}
				}
				if isAllowed && sel.Sel.Name == "Add" && arg == want {
					r.Pass("C16-R4-pairing", construct, call.Pos(), "the %s counter changes by %s in its event method", fv.Name(), want)
				} else {
					r.Fail("C16-R4-pairing", construct, call.Pos(), "%s writes the shared %s counter (%s(%s)): the counters are shared by pointer with the live cache, so this changes the cache's own statistics — for size, the value its capacity guard reads", where, fv.Name(), sel.Sel.Name, exprString(r.Fset, call.Args[0]))
				}
				return true
			})
		}
	}
	if n < 4 {
		r.Undecide("C16-R4: expected the four event methods to write the counters, found %d writes", n)
	}
}

// capacityGuardFor: a capacity test that every execution of target (a statement of decl) has passed — an enclosing
// condition that admits only below capacity, the negation of an at-capacity condition, or an earlier sibling
// `if <at capacity> { evict }`. Conditions are read through a local that names them and through a predicate method whose
// body is one return. When decl is a private method and has no guard of its own, every call of it from the type's other
// methods must be guarded the same way (depth 2).
func capacityGuardFor(p *packages.Package, lm *LockModel, evicts map[string]bool, decl *ast.FuncDecl, target ast.Node, depth int) (guarded, offByOne string) {
	info := p.TypesInfo
	fset := p.Fset
	normalise := func(c ast.Expr) ast.Expr {
		c = resolveLocalCopy(info, decl.Body, c)
		if call, ok := ast.Unparen(c).(*ast.CallExpr); ok {
			if fn := calleeOf(info, call); fn != nil && fn.Pkg() == p.Types {
				if hd := FuncDecls(p)[declKeyOf(fn.Origin())]; hd != nil && hd.Body != nil && len(hd.Body.List) == 1 {
					if rs, ok := hd.Body.List[0].(*ast.ReturnStmt); ok && len(rs.Results) == 1 {
						return rs.Results[0]
					}
				}
			}
		}
		return c
	}
	for _, l := range controlConds(decl.Body, target) {
		c := normalise(l.Expr)
		if !mentionsField(info, c, "Capacity") {
			continue
		}
		if capacityCompare(info, c, !l.Neg) {
			if l.Neg {
				guarded = "reached only when `" + exprString(fset, c) + "` is false"
			} else {
				guarded = "enclosing condition " + exprString(fset, c)
			}
		} else {
			offByOne = exprString(fset, c)
		}
	}
	// earlier sibling `if atCapacity { evict }` of the target or of one of its ancestors
	var stack []ast.Node
	found := false
	ast.Inspect(decl.Body, func(n ast.Node) bool {
		if found {
			return false
		}
		if n == nil {
			stack = stack[:len(stack)-1]
			return true
		}
		stack = append(stack, n)
		if n != target {
			return true
		}
		found = true
		for i := len(stack) - 1; i > 0; i-- {
			var list []ast.Stmt
			switch b := stack[i-1].(type) {
			case *ast.BlockStmt:
				list = b.List
			case *ast.CaseClause:
				list = b.Body
			default:
				continue
			}
			for _, prev := range list {
				if prev == stack[i] {
					break
				}
				ifs, ok := prev.(*ast.IfStmt)
				if !ok {
					continue
				}
				c := normalise(ifs.Cond)
				if !mentionsField(info, c, "Capacity") {
					continue
				}
				ev := false
				ast.Inspect(ifs.Body, func(x ast.Node) bool {
					if call, ok := x.(*ast.CallExpr); ok {
						if callee := calleeOf(info, call); callee != nil && evicts[callee.Name()] {
							ev = true
						}
					}
					return true
				})
				if ev && capacityCompare(info, c, false) {
					guarded = "preceded by `if " + exprString(fset, c) + " { evict }`"
				} else if ev {
					offByOne = exprString(fset, c)
				}
			}
		}
		return false
	})
	if guarded != "" || offByOne != "" || depth >= 2 {
		return guarded, offByOne
	}
	// a private helper: look at its callers among the type's methods and the package's functions
	self, _ := info.Defs[decl.Name].(*types.Func)
	if self == nil || self.Exported() {
		return "", ""
	}
	calls, all := 0, true
	via := ""
	for _, f := range p.Syntax {
		for _, d := range f.Decls {
			cd, ok := d.(*ast.FuncDecl)
			if !ok || cd.Body == nil || cd == decl {
				continue
			}
			ast.Inspect(cd.Body, func(n ast.Node) bool {
				call, ok := n.(*ast.CallExpr)
				if !ok {
					return true
				}
				if fn := calleeOf(info, call); fn == nil || fn.Origin() != self {
					return true
				}
				calls++
				g, o := capacityGuardFor(p, lm, evicts, cd, call, depth+1)
				if g == "" {
					all = false
					if o != "" {
						offByOne = o
					}
				} else {
					via = g + " in " + funcDeclName(cd)
				}
				return true
			})
		}
	}
	if calls > 0 && all {
		return via, ""
	}
	return "", offByOne
}

// freshStatsLocal: obj is a local of fd that is defined exactly once, by a Stats literal whose counter fields are all
// freshly allocated (`&atomic.Int64{}` / new(...)), or by a call of a same-package function whose whole body returns
// such a literal.
func freshStatsLocal(p *packages.Package, fd *ast.FuncDecl, obj types.Object, counters map[*types.Var]bool) bool {
	if obj == nil {
		return false
	}
	info := p.TypesInfo
	freshLit := func(e ast.Expr) bool {
		cl, ok := ast.Unparen(e).(*ast.CompositeLit)
		if !ok {
			return false
		}
		set := 0
		for _, el := range cl.Elts {
			kv, ok := el.(*ast.KeyValueExpr)
			if !ok {
				return false
			}
			k, ok := kv.Key.(*ast.Ident)
			if !ok {
				return false
			}
			fv, _ := info.Uses[k].(*types.Var)
			if !counters[fv] {
				continue
			}
			switch v := ast.Unparen(kv.Value).(type) {
			case *ast.UnaryExpr:
				if _, isLit := ast.Unparen(v.X).(*ast.CompositeLit); v.Op != token.AND || !isLit {
					return false
				}
			case *ast.CallExpr:
				if id, ok := v.Fun.(*ast.Ident); !ok || id.Name != "new" {
					return false
				}
			default:
				return false
			}
			set++
		}
		return set == len(counters)
	}
	fresh := func(e ast.Expr) bool {
		if freshLit(e) {
			return true
		}
		if call, ok := ast.Unparen(e).(*ast.CallExpr); ok {
			if fn := calleeOf(info, call); fn != nil && fn.Pkg() == p.Types {
				if hd := FuncDecls(p)[declKeyOf(fn.Origin())]; hd != nil && hd.Body != nil && len(hd.Body.List) == 1 {
					if rs, ok := hd.Body.List[0].(*ast.ReturnStmt); ok && len(rs.Results) == 1 {
						return freshLit(rs.Results[0])
					}
				}
			}
		}
		return false
	}
	defs, ok := 0, true
	ast.Inspect(fd.Body, func(n ast.Node) bool {
		switch x := n.(type) {
		case *ast.AssignStmt:
			for i, l := range x.Lhs {
				if id, isID := ast.Unparen(l).(*ast.Ident); isID && (info.Defs[id] == obj || info.Uses[id] == obj) {
					defs++
					if len(x.Lhs) != len(x.Rhs) || !fresh(x.Rhs[i]) {
						ok = false
					}
				}
			}
		case *ast.ValueSpec:
			for i, nm := range x.Names {
				if info.Defs[nm] == obj {
					defs++
					if i >= len(x.Values) || !fresh(x.Values[i]) {
						ok = false
					}
				}
			}
		}
		return true
	})
	return defs == 1 && ok
}

// valueAtLeast: the integer expression e, used at node use inside fd, is known to be at least c: a constant; a variable
// the conditions that control the use bound from below; a variable an earlier statement of an enclosing block clamps
// (`if v <= 0 { v = 1 }`); or a local that holds the result of a helper of the package all of whose returns are at least c.
func valueAtLeast(r *Run, p *packages.Package, fd *ast.FuncDecl, e ast.Expr, use ast.Node, c int64) (bool, string) {
	info := p.TypesInfo
	facts := boundFacts{p: p}
	e = ast.Unparen(e)
	if v, isConst := facts.constOf(e); isConst {
		return v >= c, "the constant " + types.ExprString(e)
	}
	if call, isCall := e.(*ast.CallExpr); isCall {
		if tv, has := info.Types[call.Fun]; has && tv.IsType() && len(call.Args) == 1 {
			return valueAtLeast(r, p, fd, call.Args[0], use, c)
		}
		return callResultAtLeast(r, p, call, c)
	}
	cell, isCell := cellRefOf(info, e)
	if !isCell {
		return false, types.ExprString(e)
	}
	if facts.implies(controlConds(fd.Body, use), cell, c) {
		return true, ""
	}
	// clamped by an earlier statement of an enclosing block, and not written between the clamp and the use
	var stack []ast.Node
	clamped := false
	ast.Inspect(fd.Body, func(n ast.Node) bool {
		if n == nil {
			stack = stack[:len(stack)-1]
			return false
		}
		stack = append(stack, n)
		if n != use {
			return !clamped
		}
		for i := 0; i+1 < len(stack); i++ {
			b, ok := stack[i].(*ast.BlockStmt)
			if !ok {
				continue
			}
			for _, st := range b.List {
				if st.Pos() <= stack[i+1].Pos() && stack[i+1].End() <= st.End() {
					break
				}
				ifs, ok := st.(*ast.IfStmt)
				if !ok || ifs.Else != nil || ifs.Init != nil || len(ifs.Body.List) != 1 {
					continue
				}
				as, ok := ifs.Body.List[0].(*ast.AssignStmt)
				if !ok || len(as.Lhs) != 1 || len(as.Rhs) != 1 || as.Tok != token.ASSIGN {
					continue
				}
				if lc, ok := cellRefOf(info, as.Lhs[0]); !ok || lc != cell {
					continue
				}
				if v, isConst := facts.constOf(as.Rhs[0]); !isConst || v < c {
					continue
				}
				if facts.implies([]condLit{{Expr: ifs.Cond, Neg: true}}, cell, c) && !writtenBetween(info, fd.Body, cell, ifs.End(), use.Pos()) {
					clamped = true
				}
			}
		}
		return false
	})
	if clamped {
		return true, ""
	}
	if id, isId := e.(*ast.Ident); isId {
		if def := resolveLocalCopy(info, fd.Body, id); def != ast.Expr(id) {
			if call, isCall := ast.Unparen(def).(*ast.CallExpr); isCall {
				return callResultAtLeast(r, p, call, c)
			}
			return valueAtLeast(r, p, fd, def, use, c)
		}
	}
	return false, cell.String()
}

func callResultAtLeast(r *Run, p *packages.Package, call *ast.CallExpr, c int64) (bool, string) {
	info := p.TypesInfo
	fn := calleeOf(info, call)
	if fn == nil || fn.Pkg() != p.Types {
		return false, "a call that could not be followed"
	}
	gd := FuncDecls(p)[declKeyOf(fn)]
	if gd == nil {
		return false, "a call that could not be followed"
	}
	if sig, _ := fn.Type().(*types.Signature); sig == nil || sig.Results().Len() != 1 {
		return false, "a call with several results"
	}
	return resultAtLeast(r, p, gd, 0, nil, c, nil, 0)
}

// writtenBetween: cell is assigned (or its address taken) at a position strictly between from and to.
func writtenBetween(info *types.Info, body ast.Node, cell cellRef, from, to token.Pos) bool {
	w := false
	ast.Inspect(body, func(n ast.Node) bool {
		if n == nil || w {
			return false
		}
		if n.End() <= from || n.Pos() >= to {
			return n.Pos() < to
		}
		switch x := n.(type) {
		case *ast.AssignStmt:
			if x.Pos() > from {
				for _, l := range x.Lhs {
					if lc, ok := cellRefOf(info, l); ok && lc == cell {
						w = true
					}
				}
			}
		case *ast.IncDecStmt:
			if lc, ok := cellRefOf(info, x.X); ok && lc == cell && x.Pos() > from {
				w = true
			}
		case *ast.UnaryExpr:
			if x.Op == token.AND && x.Pos() > from {
				if lc, ok := cellRefOf(info, x.X); ok && lc == cell {
					w = true
				}
			}
		}
		return true
	})
	return w
}
