#!/usr/bin/env python3
"""Re-run every check's quick command against each kept seeded change (no re-confirmation of the change itself).

usage: seed_recheck.py <prefix or id> [...]      e.g. seed_recheck.py r3-      seed_recheck.py C07-A r2-C08-C
Applies seeded/<id>/patch.diff to /repo, runs the 20 quick commands in parallel, restores /repo, and rewrites the
detected_by / undecided_in / reports / confirmed.patch_applies fields of seeded/<id>/meta.json.
"""
import json, os, subprocess, sys, concurrent.futures as cf

ENV = dict(os.environ, PATH="/opt/veriftools/go1.26.8/bin:" + os.environ["PATH"], GOFLAGS="-mod=mod", GOPROXY="off", GOSUMDB="off", GOTOOLCHAIN="local")
ENV.pop("GOWORK", None)
root = "/verif/seeded"


def sh(cmd, cwd):
    p = subprocess.run(cmd, cwd=cwd, shell=True, env=ENV, stdout=subprocess.PIPE, stderr=subprocess.STDOUT, text=True)
    return p.returncode, p.stdout


def main():
    ids = []
    for d in sorted(os.listdir(root)):
        if not os.path.isdir(os.path.join(root, d)):
            continue
        for a in sys.argv[1:]:
            if d == a or (a.endswith('-') and d.startswith(a)) or (a == 'r1' and not d.startswith('r')):
                ids.append(d)
    manifest = json.load(open("/verif/MANIFEST.json"))
    for sid in ids:
        d = os.path.join(root, sid)
        meta = json.load(open(os.path.join(d, "meta.json")))
        rc, o = sh("git status --porcelain", "/repo")
        if o.strip():
            print("repo not clean", o[:200])
            return
        rc, o = sh(f"git apply --whitespace=nowarn {d}/patch.diff", "/repo")
        conf = meta.setdefault("confirmed", {})
        if rc != 0:
            conf["patch_applies"] = False
            meta["detected_by"], meta["undecided_in"], meta["reports"] = [], [], {}
            json.dump(meta, open(os.path.join(d, "meta.json"), "w"), indent=1)
            print(sid, "PATCH DOES NOT APPLY")
            continue
        conf["patch_applies"] = True
        try:
            def run(c):
                rc, o = sh(c["quick_cmd"], "/verif")
                lines = [l for l in o.splitlines() if "VIOLATION" in l or "UNDECIDED" in l or ": [" in l and "KNOWN-FINDING" not in l]
                return c["property_id"], rc, [l[:300] for l in lines[:6]]
            with cf.ThreadPoolExecutor(max_workers=10) as ex:
                res = list(ex.map(run, manifest["checks"]))
        finally:
            sh("git checkout -- . && git clean -fdq", "/repo")
            sh("git checkout -- evidence 2>/dev/null; true", "/verif")
        meta["detected_by"] = sorted(p for p, rc, _ in res if rc == 1)
        meta["undecided_in"] = sorted(p for p, rc, _ in res if rc == 2)
        meta["reports"] = {p: {"exit": rc, "report": rep} for p, rc, rep in res if rc != 0}
        json.dump(meta, open(os.path.join(d, "meta.json"), "w"), indent=1)
        print(sid, "det", meta["detected_by"], "und", meta["undecided_in"])


if __name__ == "__main__":
    main()
